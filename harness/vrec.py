"""execution recorder for generated versioned programs (plain class instance: untracked by memento)"""


class _Rec:
    def __init__(self):
        self.calls = []

    def enter(self, name, x):
        self.calls.append([name, x])


REC = _Rec()


def foreign(x):
    """a plain function of another package: memento makes no hash rule for it"""
    return [0]
