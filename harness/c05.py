"""C05 — every storage backend behaves like one dictionary of memoized calls.

Lean: Model/Store.lean (Spec, MemBackend, DS/FsBackend incl. the write-through cache),
Props/C05.lean (refinement theorems). Correspondence: op histories on the real memory backend,
filesystem backend (shared / separate metadata root) and filesystem+cache (several budgets),
vs `mmodel store`. Oracle: a literal Python dict driven by the same history.
"""
import json
import sys

import common
from common import run_check, ddmin
import storeworld as sw

PROP = "C05"


def report(chk, cfg, ops, res, source):
    first = res["oracle"][0]
    clause = first["clause"]

    def still_fails(cand):
        r = sw.run_history(cfg, cand, use_model=False)
        return any(f["clause"] == clause for f in r["oracle"])

    small = ddmin(ops[: first["step"] + 1], still_fails)
    r2 = sw.run_history(cfg, small, use_model=False)
    chk.violation({
        "what": "backend %s answers differently from a plain dictionary: %s" % (cfg, clause),
        "class": {"clause": clause, "backend": cfg["kind"], "cache": cfg.get("budget") is not None},
        "config": cfg,
        "ops": small,
        "observed": (r2["oracle"] or res["oracle"])[:2],
        "transcript": [dict(op=t["op"], real=t["real"], dict=t["spec"]) for t in r2["transcript"][-8:]],
        "source": source,
    })


CORPUS = [
    # a call memoized twice with the identical result object (None; an array the caller holds): the second memento is the call's
    [["memoize", 1, 1, None, None], ["memoize", 1, 1, None, None], ["getm", [[1, 1]]], ["lsm", 1], ["lookread", 1, 1]],
    [["hold", 4], ["memoize", 1, 1, None, 4], ["getm", [[1, 1]]], ["memoize", 1, 1, 2, 4], ["getm", [[1, 1]]], ["lsm", 1], ["lookread", 1, 1]],
    # an empty metadata value is a value (first write and overwrite)
    [["memoize", 1, 1, None, 1], ["wmeta", 1, 1, 1, 0], ["rmeta", 1, 1, 1], ["wmeta", 1, 1, 2, 7], ["wmeta", 1, 1, 2, 0], ["rmeta", 1, 1, 2], ["rmeta", 1, 1, 1]],
    # custom metadata survives a second memoize of its call; keys that are prefixes of one another are separate keys
    [["memoize", 1, 1, None, 1], ["wmeta", 1, 1, 1, 7], ["wmeta", 1, 1, 2, 8], ["memoize", 1, 1, None, 2], ["rmeta", 1, 1, 1], ["rmeta", 1, 1, 2],
     ["wmeta", 1, 1, 2, 9], ["rmeta", 1, 1, 1], ["rmeta", 1, 1, 2]],
    [["memoize", 1, 1, None, 1], ["wmeta", 1, 1, 2, 8], ["wmeta", 1, 1, 3, 5], ["wmeta", 1, 1, 1, 7], ["rmeta", 1, 1, 2], ["rmeta", 1, 1, 3], ["rmeta", 1, 1, 1],
     ["wmeta", 1, 1, 3, 6], ["wmeta", 1, 1, 1, 4], ["rmeta", 1, 1, 2], ["rmeta", 1, 1, 3]],
    # f#1 / f#10 / f#1x: forgetting one function must not touch its string-prefix siblings
    [["memoize", 1, 1, None, 1], ["memoize", 2, 1, None, 2], ["memoize", 3, 1, None, 3], ["ffn", 1],
     ["lookread", 2, 1], ["lookread", 3, 1], ["lsf"], ["lsm", 2]],
    # a lookup of a never-memoized function must not make it appear in listings
    [["getm", [[4, 1]]], ["lsf"], ["memoize", 4, 2, None, 5], ["fcall", 4, 2], ["lsf"], ["ffn", 4], ["lsf"]],
    # re-memoize with an oversize value: the old value must not be served
    [["memoize", 1, 1, None, 9], ["memoize", 1, 1, None, 45], ["lookread", 1, 1], ["getm", [[1, 1]]]],
    # weak reference of an older result must not be served after a non-weakrefable re-memoize
    [["hold", 4], ["memoize", 1, 1, None, 4], ["memoize", 1, 1, None, 45], ["lookread", 1, 1]],
    # forget call with arg-hash prefix and metadata
    [["memoize", 1, 1, None, 1], ["wmeta", 1, 1, 1, 7], ["wmeta", 1, 1, 2, 8], ["memoize", 1, 2, None, 2], ["wmeta", 1, 2, 1, 9],
     ["fcall", 1, 1], ["rmeta", 1, 1, 1], ["rmeta", 1, 1, 2], ["rmeta", 1, 2, 1], ["lsm", 1]],
    # listings with a limit count live entries only (custom metadata files are not entries)
    [["memoize", 1, 1, None, 1], ["wmeta", 1, 1, 1, 7], ["wmeta", 1, 1, 2, 8], ["memoize", 1, 2, None, 2], ["wmeta", 1, 2, 1, 9],
     ["memoize", 1, 3, None, 3], ["lsml", 1, 1], ["lsml", 1, 2], ["lsml", 1, 3], ["fcall", 1, 2], ["lsml", 1, 3], ["lsml", 1, 2]],
    # override keys shared between calls; null results
    [["memoize", 1, 1, 1, 3], ["memoize", 4, 1, 1, 5], ["lookread", 1, 1], ["memoize", 4, 2, 1, None], ["lookread", 4, 1], ["lookread", 4, 2], ["lookread", 1, 1]],
    [["memoize", 6, 1, None, 2], ["lookread", 6, 1], ["lsf"], ["lsm", 6], ["ffn", 6], ["lsf"]],
    [["memoize", 5, 1, None, 2], ["memoize", 1, 1, None, 2], ["fall"], ["lookread", 5, 1], ["memoize", 1, 1, None, 2], ["lookread", 1, 1], ["lsf"]],
    # a result object kept alive by the caller (oversize for the cache / evicted) must not outlive forget_function
    [["hold", 44], ["memoize", 1, 1, None, 44], ["ffn", 1], ["ismem", 1, 1], ["lookread", 1, 1], ["getm", [[1, 1]]]],
    [["hold", 4], ["memoize", 1, 1, None, 4], ["lookread", 1, 1], ["memoize", 4, 1, None, 12], ["memoize", 4, 2, None, 20], ["memoize", 4, 3, None, 28],
     ["ffn", 1], ["ismem", 1, 1], ["lookread", 1, 1]],
    [["hold", 47], ["memoize", 2, 1, None, 47], ["fcall", 2, 1], ["ismem", 2, 1], ["memoize", 2, 2, None, 47], ["fall"], ["ismem", 2, 2], ["lookread", 2, 2]],
    # partitions are dictionary values like any other
    [["memoize", 1, 1, None, 1000], ["memoize", 4, 1, None, 1000], ["lookread", 1, 1], ["fcall", 1, 1], ["lookread", 4, 1], ["memoize", 1, 1, 2, 1003],
     ["lookread", 1, 1], ["memoize", 1, 1, None, 5], ["lookread", 1, 1], ["ffn", 4], ["lookread", 4, 1]],
]


def with_data_scenario(cfg, root):
    """custom metadata stored *with the data* (`store_with_content_key`, what `put_metadata(..., store_with_data=True)` passes): the
    dictionary semantics are those of ordinary metadata — per call, last value written wins, the result stays readable. Three
    calls; (1,1) and (2,1) have the same result value (one content object), (1,2) another. Returns failures."""
    w = sw.World(cfg, root=root)
    be = w.be
    fails = []
    try:
        for mid, (fn, arg, B) in enumerate([(1, 1, 9), (2, 1, 9), (1, 2, 10)], 1):
            out = w.apply(["memoize", fn, arg, None, B, mid])
            if out != "ok":
                return [dict(clause="scenario-setup", step="memoize", got=out)]

        def wmeta(fn, arg, key, val):
            m = be.get_mementos([w.frh(fn, arg)])[0]
            be.write_metadata(w.frh(fn, arg), key, val, store_with_content_key=m.content_key)

        def rmeta(fn, arg, key):
            b = be.read_metadata(w.frh(fn, arg), key)
            return None if b is None else bytes(b)
        steps = [("w", 1, 1, "", b"empty-key"), ("read", 1, 1), ("r", 1, 1, "", b"empty-key"), ("read", 2, 1),
                 ("w", 1, 2, "log", b"log of (1,2)"), ("r", 1, 2, "log", b"log of (1,2)"), ("r", 1, 1, "log", None), ("read", 1, 2),
                 ("w", 1, 1, "log", b"log of (1,1)"), ("w", 2, 1, "log", b"log of (2,1)"), ("r", 2, 1, "log", b"log of (2,1)"),
                 ("r", 1, 1, "log", b"log of (1,1)"), ("read", 1, 1), ("read", 2, 1)]
        want_val = {(1, 1): w.apply(["lookread", 1, 1]), (2, 1): w.apply(["lookread", 2, 1]), (1, 2): w.apply(["lookread", 1, 2])}
        for i, st in enumerate(steps):
            try:
                if st[0] == "w":
                    wmeta(*st[1:])
                elif st[0] == "r":
                    got = rmeta(st[1], st[2], st[3])
                    if got != st[4]:
                        shared = st[3] == "log" and (st[1], st[2]) in ((1, 1), (2, 1)) and got in (b"log of (1,1)", b"log of (2,1)")
                        fails.append(dict(clause="metadata-read-last-written", cause="stored-with-shared-data-object" if shared else "stored-with-data",
                                          step=i, call=[st[1], st[2]], key=st[3], got=repr(got), expected=repr(st[4])))
                else:
                    got = w.apply(["lookread", st[1], st[2]])
                    if got != want_val[(st[1], st[2])]:
                        fails.append(dict(clause="read-result-after-metadata-write", cause="stored-with-data", step=i, call=[st[1], st[2]],
                                          got=got, expected=want_val[(st[1], st[2])]))
            except Exception as e:
                fails.append(dict(clause="metadata-op-raised", cause="stored-with-data", step=i, op=repr(st), error=repr(e)[:200]))
    finally:
        w.close()
    return fails


def orphan_metadata_scenario(cfg, root):
    """custom metadata written for a call that has no memento (yet, or any more): it is part of the call's entry all the same —
    read back while it is there, gone after forget_call / forget_function / forget_everything, and not attached to the call again
    when the call is memoized later. (Listings are not compared here.) Returns failures."""
    w = sw.World(cfg, root=root)
    fails = []
    mid = [0]
    try:
        def op(o):
            if o[0] == "memoize":
                mid[0] += 1
                o = o[:5] + [mid[0]]
            return w.apply(o)
        steps = []
        for forget in (["fcall", 1, 1], ["ffn", 1], ["fall"]):
            steps += [(["wmeta", 1, 1, 1, 5], "ok"), (["wmeta", 1, 1, 3, 0], "ok"), (["rmeta", 1, 1, 1], "b:5"), (["rmeta", 1, 1, 3], "b:0"),
                      (["wmeta", 4, 2, 1, 7], "ok"), (forget, "ok"), (["rmeta", 1, 1, 1], "none"), (["rmeta", 1, 1, 3], "none"),
                      (["rmeta", 4, 2, 1], "none" if forget[0] == "fall" else "b:7"),
                      (["memoize", 1, 1, None, 9], "ok"), (["rmeta", 1, 1, 1], "none"), (["rmeta", 1, 1, 3], "none"),
                      (["wmeta", 1, 1, 1, 6], "ok"), (["rmeta", 1, 1, 1], "b:6"), (["fall"], "ok"), (["rmeta", 1, 1, 1], "none"), (["rmeta", 4, 2, 1], "none")]
        for i, (o, want) in enumerate(steps):
            got = op(list(o))
            if got != want:
                fails.append(dict(clause="metadata-without-memento", step=i, op=o, got=got, expected=want))
                break
    finally:
        w.close()
    return fails


def main(chk, replay=None):
    if replay is not None and replay.get("orphan_metadata"):
        f = orphan_metadata_scenario(replay["config"], None)
        print(json.dumps(dict(still_fails=bool(f), observed=f[:3]), default=str))
        return 1 if f else 0
    if replay is not None and replay.get("with_data"):
        f = with_data_scenario(replay["config"], None)
        cl = replay.get("class", {})
        f = [x for x in f if x["clause"] == cl.get("clause") and x.get("cause") == cl.get("cause")] or f
        print(json.dumps(dict(still_fails=bool(f), observed=f[:3]), default=str))
        return 1 if f else 0
    if replay is not None:
        r = sw.run_history(replay["config"], replay["ops"], use_model=False)
        print(json.dumps(dict(still_fails=bool(r["oracle"]), observed=r["oracle"][:3]), default=str))
        return 1 if r["oracle"] else 0

    chk.rule = ("op histories (memoize +-override, get_mementos, lookup+read_result, is_memoized, forget call/function/"
                "everything, list functions/mementos, write/read metadata, hold/drop of result objects) over 6 function "
                "names (f#1, f#10, f#1x, another function, a named-cluster function, a version containing ':') x 3 "
                "argument hashes x ~40 values (+ 8 partition values in every fifth history, dictionary oracle only), run on memory / fs / fs+separate metadata / fs+cache(600B, 2500B, 200kB). "
                "Distinct = distinct (backend config, op list); non-trivial = has >= 1 memoize and >= 1 forget or re-memoize.")
    chk.assumptions += ["in the random histories write_metadata is only issued for memoized calls (how the framework uses it); metadata of calls without memento is a directed scenario (reads and forgets, no listings)",
                        "store_with_content_key metadata is outside the op language (a directed scenario, judged by the dictionary oracle only); list limits are checked against the dictionary (count = min(limit, live), subset of the live entries) but are not in the Lean op language"]
    proof_ok = chk.build_and_audit()
    quick = chk.tier == "quick"
    rng = chk.rng
    nhist = 60 if quick else 900
    maxlen = 25 if quick else 60
    failures = 0
    mismatches = 0

    def nontrivial(ops):
        ks = [o[0] for o in ops]
        return "memoize" in ks and (any(k in ks for k in ("fcall", "ffn", "fall")) or ks.count("memoize") > 1)

    def run_all(ops, source):
        nonlocal failures, mismatches
        for cfg in sw.CONFIGS:
            res = sw.run_history(cfg, ops, use_model=proof_ok, root=chk.tmpdir())
            chk.case([cfg, ops], nontrivial=nontrivial(ops),
                     sample=dict(config=cfg, ops=ops[:6], answers=[t["real"] for t in res["transcript"][:6]]))
            chk.count("backend:%s%s" % (cfg["kind"], "+cache" if cfg.get("budget") else ""))
            for t in res["transcript"]:
                chk.count("op:" + t["op"][0])
                if t["op"][0] == "memoize" and t["op"][4] is not None and t["op"][4] >= sw.PART0:
                    chk.count("memoize:partition")
            if res["oracle"]:
                failures += 1
                if failures <= 3:
                    report(chk, cfg, ops, res, source)
            elif res["mismatch"]:
                mismatches += 1
                chk.correspondence_break("store-api", dict(config=cfg, ops=ops[: res["mismatch"][0]["step"] + 1],
                                                           first=res["mismatch"][0]))

    # metadata stored with the data object (directed; the dictionary oracle only)
    for cfg in sw.CONFIGS:
        wf = with_data_scenario(cfg, chk.tmpdir())
        chk.case(["metadata-stored-with-data", cfg], nontrivial=True, sample=dict(kind="metadata stored with the data", config=cfg))
        chk.count("metadata-with-data-scenarios")
        seen_cls = set()
        for f in wf:
            key = (f["clause"], f.get("cause"))
            if key in seen_cls:
                continue
            seen_cls.add(key)
            chk.violation({"what": "metadata stored with the data, backend %s: %s (%s)" % (cfg, f["clause"], f.get("cause")),
                           "class": {"clause": f["clause"], "cause": f.get("cause"), "backend": cfg["kind"]}, "with_data": True, "config": cfg,
                           "observed": [x for x in wf if (x["clause"], x.get("cause")) == key][:2]})
    for cfg in sw.CONFIGS:
        of = orphan_metadata_scenario(cfg, chk.tmpdir())
        chk.case(["metadata-without-memento", cfg], nontrivial=True, sample=dict(kind="metadata of a call that has no memento", config=cfg))
        chk.count("metadata-without-memento-scenarios")
        if of:
            chk.violation({"what": "metadata of a call without memento, backend %s: after %s, %s answers %s (expected %s)" % (
                cfg, of[0]["op"], "the read", of[0]["got"], of[0]["expected"]), "class": {"clause": of[0]["clause"], "backend": cfg["kind"]},
                "orphan_metadata": True, "config": cfg, "observed": of[:2]})
    for ops in CORPUS:
        run_all(ops, "corpus")
    for i in range(nhist):
        few = rng.random() < 0.5
        ops = sw.gen_ops(rng, rng.randint(4, maxlen), fns=[1, 2, 4] if few else None, part_rate=0.3 if i % 5 == 4 else 0.0,
                         meta_rate=0.35 if i % 5 == 2 else 0.0)
        run_all(ops, "random")
        if failures > 3 or mismatches > 6:
            break

    if chk.correspondence_breaks and failures == 0:
        for i in range(600):
            ops = sw.gen_ops(rng, rng.randint(4, 80))
            for cfg in sw.CONFIGS:
                res = sw.run_history(cfg, ops, use_model=False, root=chk.tmpdir())
                chk.count("widened-search")
                if res["oracle"]:
                    failures += 1
                    report(chk, cfg, ops, res, "widened search")
                    break
            if failures:
                break


if __name__ == "__main__":
    sys.exit(run_check(PROP, main, sys.argv[1:]))
