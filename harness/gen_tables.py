"""Translator for finite decision tables: probes the running code of /repo's working tree over a fixed, finite
domain and writes Lean definitions; the theorems over them (a committed template) are re-checked by
`lake build Generated`. The generated files live under lean/.lake/gen (never committed): on the unchanged tree the
content is the same on every run; a change to the code that alters a table entry makes a theorem fail.

Tables:
  * classify : type class of a result object  ->  ResultType name | rejected      (ResultType.from_object)
  * strategies : ResultType name -> codec strategy class                            (DefaultCodec)
  * resultTypeNames : the enum members, in order (the wire names)
"""
import datetime
import os

import common

GEN = os.path.join(common.LEAN, ".lake", "gen", "Generated")
TEMPLATE = os.path.join(os.path.dirname(os.path.abspath(__file__)), "templates", "C02Tables.lean")


def probe():
    import numpy as np
    import pandas as pd
    from twosigma.memento.metadata import ResultType
    from twosigma.memento.exception import MementoException
    from twosigma.memento.partition import InMemoryPartition
    from twosigma.memento.storage_base import DefaultCodec
    from twosigma.memento.storage_filesystem import OnDiskPartition

    class SubInt(int):
        pass

    class SubDict(dict):
        pass

    class SubDatetime(datetime.datetime):
        pass

    tz = datetime.timezone(datetime.timedelta(hours=2))
    reps = [
        ("None", None), ("bool", True), ("int", 7), ("int-subclass", SubInt(3)), ("float", 1.5), ("complex", complex(1, 2)),
        ("str", "s"), ("bytes", b"b"), ("bytearray", bytearray(b"b")),
        ("date", datetime.date(2020, 1, 2)), ("datetime", datetime.datetime(2020, 1, 2)), ("datetime-aware", datetime.datetime(2020, 1, 2, tzinfo=tz)),
        ("datetime-subclass", SubDatetime(2020, 1, 2)), ("pd.Timestamp", pd.Timestamp("2020-01-02")), ("pd.Timestamp-aware", pd.Timestamp("2020-01-02", tz="UTC")),
        ("time", datetime.time(1, 2)), ("timedelta", datetime.timedelta(1)),
        ("list", [1]), ("tuple", (1,)), ("dict", {"a": 1}), ("dict-subclass", SubDict(a=1)), ("set", {1}), ("frozenset", frozenset([1])),
        ("ndarray-bool", np.array([True])), ("ndarray-int8", np.array([1], dtype=np.int8)), ("ndarray-int16", np.array([1], dtype=np.int16)),
        ("ndarray-int32", np.array([1], dtype=np.int32)), ("ndarray-int64", np.array([1], dtype=np.int64)),
        ("ndarray-uint8", np.array([1], dtype=np.uint8)), ("ndarray-float16", np.array([1], dtype=np.float16)),
        ("ndarray-float32", np.array([1], dtype=np.float32)), ("ndarray-float64", np.array([1], dtype=np.float64)),
        ("ndarray-object", np.array([None], dtype=object)), ("ndarray-str", np.array(["a"])),
        ("np.int64-scalar", np.int64(1)), ("np.float64-scalar", np.float64(1.0)), ("np.bool-scalar", np.bool_(True)),
        ("pd.Index", pd.Index([1])), ("pd.MultiIndex", pd.MultiIndex.from_tuples([(1, 2)])), ("pd.Series", pd.Series([1])), ("pd.DataFrame", pd.DataFrame({"a": [1]})),
        ("InMemoryPartition", InMemoryPartition({})), ("OnDiskPartition", OnDiskPartition()),
        ("MementoException", MementoException("python::builtins:ValueError", "m", "tb")), ("ValueError-instance", ValueError("x")),
        ("object", object()), ("function", probe), ("type", int),
    ]
    classify = []
    for name, obj in reps:
        try:
            classify.append((name, ResultType.from_object(obj).name))
        except ValueError:
            classify.append((name, None))
    codec = DefaultCodec({})
    strategies = sorted((rt.name, type(st).__name__) for rt, st in codec._strategy.items())
    names = [rt.name for rt in ResultType]
    return classify, strategies, names


def probe_args():
    """argument classes: wire type tag of MementoCodec.encode_arg (None = rejected), acceptance by ArgumentHasher._encode"""
    from twosigma.memento.serialization import MementoCodec
    from twosigma.memento.reference import ArgumentHasher
    import numpy as np
    import c11fns
    tz = datetime.timezone(datetime.timedelta(hours=-3, minutes=-30))
    reps = [("None", None), ("bool", False), ("int", 3), ("int-big", 2 ** 70), ("float", 1.5), ("float-nan", float("nan")), ("str", "s"),
            ("bytes", b"b"), ("date", datetime.date(2020, 1, 2)), ("datetime", datetime.datetime(2020, 1, 2, 3, 4, 5)),
            ("datetime-aware", datetime.datetime(2020, 1, 2, tzinfo=tz)), ("list", [1, "a"]), ("list-empty", []), ("tuple", (1,)),
            ("dict", {"a": 1}), ("dict-empty", {}), ("set", {1}), ("complex", 1j), ("np.int64", np.int64(1)), ("object", object()),
            ("memento-function", c11fns.one)]
    wire, hasher = [], []
    for name, v in reps:
        if name == "memento-function" and v is None:
            continue
        try:
            wire.append((name, MementoCodec.encode_arg(v)["type"]))
        except (TypeError, ValueError):
            wire.append((name, None))
        try:
            ArgumentHasher._encode(v)
            hasher.append((name, True))
        except (TypeError, ValueError):
            hasher.append((name, False))
    return wire, hasher


def lean_str(s):
    return '"' + s.replace("\\", "\\\\").replace('"', '\\"') + '"'


def render_args(wire, hasher):
    L = ["/-! GENERATED by harness/gen_tables.py from the working tree of twosigma/memento — do not edit. -/",
         "namespace Memento.Generated", "",
         "/-- the `type` tag `MementoCodec.encode_arg` writes for one representative argument per class (`none` = rejected) -/",
         "def argWire : List (String × Option String) := ["]
    L += ["  (%s, %s)%s" % (lean_str(n), "none" if r is None else "some " + lean_str(r), "," if i + 1 < len(wire) else "") for i, (n, r) in enumerate(wire)]
    L += ["]", "", "/-- whether `ArgumentHasher._encode` accepts the class -/", "def argHashed : List (String × Bool) := ["]
    L += ["  (%s, %s)%s" % (lean_str(n), "true" if b else "false", "," if i + 1 < len(hasher) else "") for i, (n, b) in enumerate(hasher)]
    L += ["]", "", "end Memento.Generated", ""]
    return "\n".join(L)


def render(classify, strategies, names):
    L = ["/-! GENERATED by harness/gen_tables.py from the working tree of twosigma/memento — do not edit. -/",
         "namespace Memento.Generated", "",
         "/-- `ResultType.from_object` on one representative object per type class (`none` = rejected with ValueError) -/",
         "def classify : List (String × Option String) := ["]
    L += ["  (%s, %s)%s" % (lean_str(n), "none" if r is None else "some " + lean_str(r), "," if i + 1 < len(classify) else "") for i, (n, r) in enumerate(classify)]
    L += ["]", "", "/-- the strategy the default codec registers for each result type -/", "def strategies : List (String × String) := ["]
    L += ["  (%s, %s)%s" % (lean_str(a), lean_str(b), "," if i + 1 < len(strategies) else "") for i, (a, b) in enumerate(strategies)]
    L += ["]", "", "/-- the members of the `ResultType` enum, in order (the names that appear on the wire) -/",
          "def resultTypeNames : List String := [" + ", ".join(lean_str(n) for n in names) + "]", "", "end Memento.Generated", ""]
    return "\n".join(L)


def probe_names():
    """character-level behaviour of the file-name escaping, read off the running code: `_escape_key` on every single
    character 0..255 (+ a few beyond Latin-1), `unquote` (as imported by storage_filesystem) on every %XX below 0x80 in both
    hex cases and on malformed escapes"""
    import twosigma.memento.storage_filesystem as sf
    esc = []
    for cp in list(range(0, 256)) + [0x3b1, 0x20ac, 0x1f600]:
        try:
            r = [ord(c) for c in sf._FilesystemDataSource._escape_key(None, chr(cp))]
        except Exception:
            r = []          # the code refuses this character as a key: no file name (the theorems over the table then fail)
        esc.append((cp, r))
    unq = []
    # (the decoding function under the name the module imports it by; if that name is gone the table says "nothing is decoded":
    #  the theorems over the table then fail and the check goes on to search the running code for a name that is listed wrongly)
    dec = getattr(sf, "unquote", None) or (lambda t: "")
    for xx in range(0, 128):
        for fmt in ("%%%02X", "%%%02x"):
            t = fmt % xx
            unq.append(([ord(c) for c in t], [ord(c) for c in dec(t)]))
    for t in ("%", "%4", "%G1", "%1G", "a%3Ab", "%%3A", "%3A%3a", "x%", "%3", "%253A"):
        unq.append(([ord(c) for c in t], [ord(c) for c in dec(t)]))
    return esc, unq


def render_names(esc, unq):
    nat_list = lambda l: "[" + ", ".join(str(x) for x in l) + "]"
    L = ["/-! GENERATED by harness/gen_tables.py from the working tree of twosigma/memento — do not edit. -/",
         "namespace Memento.Generated", "",
         "/-- `_FilesystemDataSource._escape_key` on every single character (code point, code points of the result) -/",
         "def escTable : List (Nat × List Nat) := ["]
    L += ["  (%d, %s)%s" % (c, nat_list(r), "," if i + 1 < len(esc) else "") for i, (c, r) in enumerate(esc)]
    L += ["]", "", "/-- `unquote` as storage_filesystem imports it (input code points, output code points) -/",
          "def unqTable : List (List Nat × List Nat) := ["]
    L += ["  (%s, %s)%s" % (nat_list(a), nat_list(b), "," if i + 1 < len(unq) else "") for i, (a, b) in enumerate(unq)]
    L += ["]", "", "end Memento.Generated", ""]
    return "\n".join(L)


def write_if_changed(path, text):
    if os.path.exists(path) and open(path).read() == text:
        return False
    os.makedirs(os.path.dirname(path), exist_ok=True)
    tmp = path + ".%d" % os.getpid()
    open(tmp, "w").write(text)
    os.replace(tmp, path)
    return True


def generate_and_build():
    """returns (ok, log, table) — regenerates the tables from the code, re-checks the theorems over them"""
    import subprocess
    classify, strategies, names = probe()
    wire, hasher = probe_args()
    esc, unq = probe_names()
    lock = common._lake_lock()
    try:
        write_if_changed(os.path.join(GEN, "ResultTypes.lean"), render(classify, strategies, names))
        write_if_changed(os.path.join(GEN, "ArgTypes.lean"), render_args(wire, hasher))
        write_if_changed(os.path.join(GEN, "C02Tables.lean"), open(TEMPLATE).read())
        write_if_changed(os.path.join(GEN, "C11Tables.lean"), open(TEMPLATE.replace("C02Tables", "C11Tables")).read())
        write_if_changed(os.path.join(GEN, "NameTables.lean"), render_names(esc, unq))
        write_if_changed(os.path.join(GEN, "C12Tables.lean"), open(TEMPLATE.replace("C02Tables", "C12Tables")).read())
        p = subprocess.run(["lake", "build", "Generated"], cwd=common.LEAN, stdout=subprocess.PIPE, stderr=subprocess.STDOUT, text=True, timeout=1800)
        return p.returncode == 0, p.stdout[-3000:], dict(classify=classify, strategies=strategies, names=names, arg_wire=wire, arg_hashed=hasher,
                                                      escape_entries=len(esc), unquote_entries=len(unq))
    finally:
        lock.close()


def audit_generated(which="C02Tables"):
    """axioms of the theorems over the generated tables; returns (names, problems)"""
    import re
    import subprocess
    tpl = TEMPLATE.replace("C02Tables", which)
    code = common.strip_comments(open(tpl).read())
    names = ["Memento.Generated." + m for m in re.findall(r"^theorem\s+(\S+)", code, re.M)]
    bad = []
    for ln, line in enumerate(code.split("\n"), 1):
        if common.BANNED.search(line):
            bad.append("templates/%s.lean:%d: %s" % (which, ln, line.strip()))
    adir = os.path.join(common.LEAN, ".lake", "audit")
    os.makedirs(adir, exist_ok=True)
    f = os.path.join(adir, "AuditGen_%d.lean" % os.getpid())
    open(f, "w").write("import Generated.%s\n" % which + "".join("#print axioms %s\n" % t for t in names))
    try:
        p = subprocess.run(["lake", "env", "lean", f], cwd=common.LEAN, stdout=subprocess.PIPE, stderr=subprocess.STDOUT, text=True, timeout=600)
    finally:
        try:
            os.remove(f)
        except OSError:
            pass
    for t in names:
        m = re.search(r"^'%s' (depends on axioms: \[([^\]]*)\]|does not depend on any axioms)" % re.escape(t), p.stdout, re.M)
        if not m:
            bad.append("no axiom report for %s" % t)
        elif m.group(2):
            extra = [a.strip() for a in m.group(2).replace("\n", " ").split(",") if a.strip() and a.strip() not in common.ALLOWED_AXIOMS]
            if extra:
                bad.append("%s depends on %s" % (t, extra))
    return names, bad


def attach(chk, which):
    """regenerate, build and audit; account the theorems of template `which` as obligations of the check"""
    import re
    n = len(re.findall(r"^theorem\s+\S+", common.strip_comments(open(TEMPLATE.replace("C02Tables", which)).read()), re.M))
    chk.obligations += n
    ok, log, table = generate_and_build()
    names, bad = audit_generated(which) if ok else ([], [])
    chk.extra["generated_tables"] = dict(template=which, theorems=n, built=ok, entries={k: (v if isinstance(v, int) else len(v)) for k, v in table.items()})
    if not ok or bad:
        chk.broken_obligation("theorems over the tables regenerated from the code (%s) no longer check" % which,
                              {"log_tail": log[-1500:], "problems": bad, "tables": table})
    else:
        chk.discharged += len(names)
    return ok and not bad
