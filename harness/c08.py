"""C08 — a crash or I/O fault at any point of a write never poisons the filesystem store.

Lean: Model/Crash.lean + Props/C08.lean — the primitive write sequence of `memoize`, every prefix /
torn-write / fault variant of it, and the read path; theorem: every variant of a well-formed, sound
store is read-safe (calls return the right value, nothing raises) and recovers.
Correspondence / enumeration: for each scenario the real primitive-op list is recorded by an audit
hook and *every* variant (crash before op i, crash mid-write with the file left empty or half
written, ENOSPC raised at op i, EFBIG on write of the file opened at op i) is produced with real
child processes; afterwards the call matrix is run in the same process (error variants) and in a
fresh process, and judged by the property itself. The model's prediction (significant-op sequence,
per-variant body executions of the first call) is diffed against the observed ones.
"""
import concurrent.futures
import json
import os
import re
import shutil
import subprocess
import sys
import tempfile

import common
from common import run_check, Infra, model_batch

PROP = "C08"
CHILD = os.path.join(os.path.dirname(os.path.abspath(__file__)), "c08child.py")

# scenario: prep calls (fault-free, separate process), the faulted memoizing call, the call matrix
SCENARIOS = {
    "scalar": dict(prep=[], target=["f_scalar", 1],
                   matrix=[["f_scalar", 1], ["f_scalar", 1], ["f_scalar", 1], ["g_same", 1], ["g_same", 1], ["h_other", 1]]),
    "dedup-hit": dict(prep=[["g_same", 1]], target=["f_scalar", 1],
                      matrix=[["f_scalar", 1], ["f_scalar", 1], ["g_same", 1], ["f_scalar", 1], ["h_other", 2]]),
    "exception": dict(prep=[], target=["e_exc", 1],
                      matrix=[["e_exc", 1], ["e_exc", 1], ["e_exc", 1], ["h_other", 1]]),
    "partition": dict(prep=[], target=["p_part", 1],
                      matrix=[["p_part", 1], ["p_part", 1], ["f_scalar", 1], ["f_scalar", 1], ["p_part", 1]]),
    "null-override": dict(prep=[["o_over", 1]], target=["n_null", 1],
                          matrix=[["n_null", 1], ["n_null", 1], ["o_over", 1], ["o_over", 1]]),
    "override-rewrite": dict(prep=[["o_over", 1]], target=["o_over", 2],
                             matrix=[["o_over", 2], ["o_over", 2], ["o_over", 1], ["o_over", 1], ["f_scalar", 2]]),
    # another call publishes the very same bytes under the same key: the object the earlier memento points at stays as it is
    "override-same-bytes": dict(prep=[["q_same", 1]], target=["q_same", 2], model=False,
                                matrix=[["q_same", 1], ["q_same", 2], ["q_same", 2], ["q_same", 1], ["q_same", 3]]),
    # a store that already holds results of other functions; the fault hits the write of a new value
    "populated": dict(prep=[["h_other", 1], ["g_same", 2], ["p_part", 3]], target=["f_scalar", 1],
                      matrix=[["f_scalar", 1], ["h_other", 1], ["g_same", 2], ["p_part", 3], ["f_scalar", 1], ["h_other", 1], ["g_same", 2],
                              ["p_part", 3], ["f_scalar", 2], ["f_scalar", 2]]),
    # an array result that is larger than the (tiny) cache while the caller keeps every result it got: the cache knows such a
    # result only through a weak reference
    "array-held": dict(prep=[], target=["a_arr", 1], hold=True, model=False,
                       matrix=[["a_arr", 1], ["a_arr", 1], ["a_arr", 1], ["a_arr", 2], ["a_arr", 2]]),
    # calls whose value is not wanted (ignore_result), at the top level and as a warm-up call inside another memento function
    "ignore-result": dict(prep=[], target=["w_warm", 1], model=False,
                          matrix=[["w_warm", 1], ["w_warm", 1], ["f_scalar", 1], ["f_scalar", 1, "ignore"], ["f_scalar", 2, "ignore"], ["f_scalar", 2],
                                  ["f_scalar", 2, "ignore"]]),
    # a partition merged on top of the partition returned by a nested memento call (both written during the faulted call)
    "merged-partition": dict(prep=[], target=["p_b", 1],
                             matrix=[["p_b", 1], ["p_b", 1], ["p_a", 1], ["p_a", 1], ["p_b", 1]], model=False),
}
# the tiny cache is smaller than any result (only memento-only entries could fit)
BACKENDS = {"fs": None, "fs+cache": 1, "fs+cache-tiny": 0.0003}


# storage-level description of the calls for the Lean model: fn id, override id, blob ids
def model_request(call, mem):
    name, x = call
    fn = {"f_scalar": 1, "g_same": 2, "h_other": 3, "e_exc": 4, "n_null": 5, "o_over": 6, "p_part": 7}[name]
    ov, blobs = None, []
    if name in ("f_scalar", "g_same"):
        blobs = [100 + x]
    elif name == "h_other":
        blobs = [200 + x]
    elif name == "e_exc":
        blobs = [300 + x]
    elif name == "n_null":
        ov = 10 + x
    elif name == "o_over":
        ov, blobs = 1, [100 + x]
    elif name == "p_part":
        blobs = [100 + x, 400 + x, 500 + x]      # member "a" has the bytes of f_scalar(x); then "b"; then the index
    return fn, x, ov, mem, blobs


def sig_of_event(cev):
    """canonical audit event -> the model's primitive name (None for directory creations)"""
    kind, rest = cev.split(" ", 1)
    def area(p):
        p = p.split(" ")[-1]
        return "c" if p.startswith("c/") else ("m" if p.startswith("m/") else "ov")
    if kind == "mkdir":
        return None
    if kind == "open-w":
        if rest.startswith(".tmp/"):
            return "writeTmp"
        if rest.endswith(".link"):
            return "writeLinkInPlace:" + area(rest)          # the pre-fix, non-atomic link write
        return "writeObj:" + area(rest)
    if kind == "rename":
        return "replace:" + area(rest)
    if kind == "remove":
        return "remove:" + area(rest)
    return kind + ":" + rest


def model_predictions(scn, cevents, variants):
    """returns (model prim list, {variant index in `variants`: predicted outcome of the target call})"""
    sc = SCENARIOS[scn]
    lines = ["init fs 0 - 0"]
    mem = 0
    for c in sc["prep"]:
        mem += 1
        fn, x, ov, m, blobs = model_request(c, mem)
        lines.append("memoize %d %d %s %d %s 40 0" % (fn, x, "-" if ov is None else ov, m, blobs[0] if blobs else "-"))
    fn, x, ov, m, blobs = model_request(sc["target"], mem + 1)
    lines.append("prims %d %d %s %d %s" % (fn, x, "-" if ov is None else ov, m, ",".join(map(str, blobs)) or "-"))
    idx_prims = len(lines) - 1
    where = {}
    sigs = [sig_of_event(c) for c in cevents]
    for vi, v in enumerate(variants):
        if v["kind"] in ("fsize", "error_read"):
            continue                    # no single mutating primitive op is the fault: oracle only
        n = sum(1 for s_ in sigs[: v["index"]] if s_ is not None)
        torn = v["kind"] in ("midwrite", "error_write", "error_close")
        if v["kind"] == "crash_after":
            n += 1 if sigs[v["index"]] is not None else 0
        if sigs[v["index"]] is None and torn:
            continue
        lines.append("variant %d %d" % (n, int(torn)))
        lines.append("outcome %d %d" % (fn, x))
        where[vi] = len(lines) - 1
    out = model_batch("store", lines)
    return out[idx_prims].split(" ") if out[idx_prims] else [], {vi: out[i] for vi, i in where.items()}


def child(spec, timeout=120):
    env = dict(os.environ)
    env["PYTHONPATH"] = common.REPO + os.pathsep + os.path.dirname(CHILD)
    p = subprocess.run([common.PY, "-B", CHILD, json.dumps(spec)], stdout=subprocess.PIPE, stderr=subprocess.PIPE,
                       text=True, timeout=timeout, env=env)
    lines = [l for l in p.stdout.split("\n") if l.startswith("{")]
    if not lines:
        raise Infra("c08 child produced no output (rc=%s): %s" % (p.returncode, p.stderr[-800:]))
    out = json.loads(lines[-1])
    out["rc"] = p.returncode
    return out


def canon_event(ev, root):
    """('open-w', path) -> canonical string independent of uuids / hashes"""
    kind = ev[0].replace("os.", "")
    ps = []
    for p in ev[1:]:
        rel = os.path.relpath(p, os.path.join(root, "data"))
        rel = re.sub(r"[0-9a-f]{8}-[0-9a-f]{4}-[0-9a-f]{4}-[0-9a-f]{4}-[0-9a-f]{12}", "U", rel)
        rel = re.sub(r"[0-9a-f]{64}", "H", rel)
        ps.append(rel)
    return kind + " " + " ".join(ps)


def significant(cev):
    return not cev.startswith("mkdir")


def judge(sc, results, first_may_execute=True):
    """the property itself on a list of matrix results; returns failures"""
    import c08fns
    fails = []
    seen = {}
    for r in results:
        name, x = r["call"][0], r["call"][1]
        exp = c08fns.expected(name, x)
        if len(r["call"]) > 2 and r["call"][2] == "ignore" and exp[0] != "raise":
            exp = ["none"]                  # the value of an ignore_result() call is None; failures still propagate
        got = r["result"]
        if exp[0] == "raise" and got[0] == "raise" and got[1] == exp[1] and got[2].startswith(exp[2]):
            got = exp      # a replayed exception carries the original message plus a stack-trace marker
        if got != exp:
            clause = "raises" if r["result"][0] == "raise" and exp[0] != "raise" else "wrong-value"
            fails.append(dict(clause=clause, call=r["call"], got=r["result"], expected=exp))
        k = (name, x)
        if k in seen and r["execs"] != 0:
            fails.append(dict(clause="recomputes-forever", call=r["call"], occurrence=seen[k] + 1, execs=r["execs"]))
        if r["execs"] > 1 or r.get("nested_max", 0) > 1:
            fails.append(dict(clause="executes-more-than-once", call=r["call"], execs=r["execs"]))
        seen[k] = seen.get(k, 0) + 1
    return fails


def copy_store(src_root, dst_root):
    """copy <src>/data to <dst>/data; link files hold absolute paths and are rewritten"""
    if not os.path.isdir(os.path.join(src_root, "data")):
        return
    shutil.copytree(os.path.join(src_root, "data"), os.path.join(dst_root, "data"))
    for d, _, fs in os.walk(os.path.join(dst_root, "data")):
        for f in fs:
            if f.endswith(".link"):
                p = os.path.join(d, f)
                with open(p) as fh:
                    t = fh.read()
                with open(p, "w") as fh:
                    fh.write(t.replace(src_root, dst_root))


def run_variant(base_root, scn, sc, backend, variant):
    """one variant in its own copy of the (prepared) store; returns record"""
    root = tempfile.mkdtemp(prefix="c08v_", dir=os.path.dirname(base_root))
    try:
        copy_store(base_root, root)
        cache = BACKENDS[backend]
        kind = variant["kind"]
        rec = dict(scenario=scn, backend=backend, variant=variant)
        fault = None
        if kind == "crash":
            fault = dict(kind="crash", index=variant["index"])
        elif kind == "midwrite":
            fault = dict(kind="crash", index=variant["index"] + 1)
        elif kind in ("error_event", "error_write", "error_close", "crash_after", "error_read"):
            fault = dict(kind=kind, index=variant["index"])
        elif kind == "fsize":
            fault = dict(kind="fsize", limit=variant["limit"])
        w = child(dict(root=root, cache_mb=cache, calls=[sc["target"]], fault=fault, hold=bool(sc.get("hold")),
                       then=sc["matrix"] if (kind.startswith("error") or kind == "fsize") else []))
        rec["write_events"] = len(w["events"])
        rec["write_result"] = w["results"]
        rec["same_process"] = w["then"]
        if kind == "midwrite":
            path = variant["path_rel"]
            # the file opened by event `index`: find it in this root
            evs = [e for e in w["events"]]
            if variant["index"] < len(evs):
                p = evs[variant["index"]][1]
                if os.path.isfile(p):
                    size = os.path.getsize(p)
                    with open(p, "r+b") as f:
                        f.truncate(0 if variant["cut"] == "empty" else size // 2)
        fails = []
        if kind.startswith("error") or kind == "fsize":
            # the faulted call itself must return the right value, and the process goes on
            fails += [dict(f, phase="faulted-call") for f in judge(sc, w["results"])]
            # (the faulted call did not memoize, so the first later call may compute and write again)
            fails += [dict(f, phase="same-process") for f in judge(sc, w["then"])]
        fresh = child(dict(root=root, cache_mb=cache, calls=[], fault=None, then=sc["matrix"], hold=bool(sc.get("hold"))))
        rec["fresh_process"] = fresh["then"]
        fails += [dict(f, phase="fresh-process") for f in judge(sc, fresh["then"])]
        rec["fails"] = fails
        return rec
    finally:
        shutil.rmtree(root, ignore_errors=True)


def enumerate_scenario(chk, scn, backend, workers=16, use_model=True):
    sc = SCENARIOS[scn]
    base = tempfile.mkdtemp(prefix="c08_", dir=chk.tmpdir())
    if sc["prep"]:
        child(dict(root=base, cache_mb=None, calls=sc["prep"], fault=None, then=[]))
    # fault-free reference run (on a copy) to learn the primitive-op list
    ref_root = tempfile.mkdtemp(prefix="c08r_", dir=chk.tmpdir())
    copy_store(base, ref_root)
    ref = child(dict(root=ref_root, cache_mb=BACKENDS[backend], calls=[sc["target"]], fault=None, then=sc["matrix"], hold=bool(sc.get("hold"))))
    events = ref["events"]
    # (reads of the target call alone: a second fault-free run without the matrix)
    ref2_root = tempfile.mkdtemp(prefix="c08r2_", dir=chk.tmpdir())
    copy_store(base, ref2_root)
    ref["reads_during_target"] = child(dict(root=ref2_root, cache_mb=BACKENDS[backend], calls=[sc["target"]], fault=None, then=[])).get("reads", 0)
    shutil.rmtree(ref2_root, ignore_errors=True)
    cevents = [canon_event(e, ref_root) for e in events]
    ref_fails = judge(sc, ref["results"] + ref["then"])
    variants = []
    for i, ce in enumerate(cevents):
        variants.append(dict(kind="crash", index=i, event=ce))
        variants.append(dict(kind="error_event", index=i, event=ce))
        if ce.startswith("rename"):
            variants.append(dict(kind="crash_after", index=i, event=ce))
        if ce.startswith("open-w"):
            variants.append(dict(kind="error_write", index=i, event=ce))
            variants.append(dict(kind="error_close", index=i, event=ce))
            for cut in ("empty", "half"):
                variants.append(dict(kind="midwrite", index=i, event=ce, cut=cut, path_rel=ce.split(" ", 1)[1]))
    # a transient error on each file opened for reading during the faulted call (existence checks of content keys, links)
    for i in range(ref.get("reads_during_target", 0)):
        variants.append(dict(kind="error_read", index=i, event="read #%d" % i))
    # kernel-level file size limits during the whole faulted call (short writes of whichever file crosses the limit)
    for lim in (64, 300, 700, 1300, 2600):
        variants.append(dict(kind="fsize", index=0, event="RLIMIT_FSIZE=%d" % lim, limit=lim))
    recs = []
    with concurrent.futures.ThreadPoolExecutor(max_workers=workers) as ex:
        futs = [ex.submit(run_variant, base, scn, sc, backend, v) for v in variants]
        for f in futs:
            recs.append(f.result())
    shutil.rmtree(ref_root, ignore_errors=True)
    shutil.rmtree(base, ignore_errors=True)
    # correspondence with the Lean crash model: primitive sequence and per-variant outcome of the target call
    if use_model and sc.get("model", True):
        mprims, pred = model_predictions(scn, cevents, variants)
        real_prims = [s_ for s_ in (sig_of_event(c) for c in cevents) if s_ is not None]
        if mprims != real_prims:
            chk.correspondence_break("primitive-op sequence", dict(scenario=scn, backend=backend, real=real_prims, model=mprims))
        for vi, p in pred.items():
            r = recs[vi]
            if r["variant"]["kind"] == "error_event" and r["variant"]["event"].startswith("mkdir"):
                continue                # os.makedirs(exist_ok=True) absorbs an error on an existing directory
            if r["variant"]["kind"].startswith("error"):
                # the process survived and went on: the model's state is the one its next call saw
                if BACKENDS[backend] is not None:
                    continue            # with a cache that call is answered from process memory
                tgt = [x for x in r["same_process"] if x["call"] == sc["target"]][0]
            else:
                tgt = [x for x in r["fresh_process"] if x["call"] == sc["target"]][0]
            obs = "raised" if (tgt["result"][0] == "raise" and sc["target"][0] != "e_exc") else ("computed" if tgt["execs"] else "served")
            r["model_outcome"] = p
            if p.split(":")[0] != obs:
                chk.correspondence_break("variant outcome", dict(scenario=scn, backend=backend, variant=r["variant"],
                                                                 model=p, observed=obs, fresh_process=r["fresh_process"][:2]))
    return cevents, ref_fails, recs


def main(chk, replay=None):
    sys.path.insert(0, os.path.dirname(CHILD))
    if replay is not None:
        tmp = tempfile.mkdtemp(prefix="c08replay_")
        try:
            chk._tmp = tmp
            sc = SCENARIOS[replay["scenario"]]
            base = tempfile.mkdtemp(prefix="c08_", dir=tmp)
            if sc["prep"]:
                child(dict(root=base, cache_mb=None, calls=sc["prep"], fault=None, then=[]))
            rec = run_variant(base, replay["scenario"], sc, replay["backend"], replay["variant"])
            print(json.dumps(dict(still_fails=bool(rec["fails"]), observed=rec["fails"][:3]), default=str))
            return 1 if rec["fails"] else 0
        finally:
            shutil.rmtree(tmp, ignore_errors=True)

    chk.level = "proof"
    chk.rule = ("scenarios {scalar, dedup hit, exception, 2-key partition, null with override, override rewrite, populated store, "
                "partition merged on a nested call's partition, array larger than the cache whose results the caller keeps, calls whose value is ignored (top level and warm-up inside a function)} x backends {fs, fs+cache, fs+cache smaller than any result}; for each, EVERY mutating primitive op (mkdir, open-for-write, rename, remove under the "
                "root) recorded in a fault-free run gives the variants crash-before, ENOSPC-at-op, and for file opens "
                "EFBIG-on-write and crash-mid-write (file left empty / half); a transient ESTALE on every file opened for reading during the call; plus the whole call under 5 kernel file-size limits "
                "(RLIMIT_FSIZE: real short writes). Each variant is produced with real child "
                "processes, then the call matrix runs in the same process (error variants) and in a fresh process. "
                "Distinct = distinct (scenario, backend, variant); all are non-trivial (each damages a real store).")
    chk.assumptions += ["process death = loss of process memory, completed syscalls persist (no power-loss model)",
                        "faults are injected at audit-hook granularity (one per mutating syscall) and on file writes"]
    proof_ok = chk.build_and_audit()
    quick = chk.tier == "quick"
    todo = [("scalar", "fs"), ("scalar", "fs+cache"), ("scalar", "fs+cache-tiny"), ("partition", "fs"), ("populated", "fs"),
            ("merged-partition", "fs"), ("array-held", "fs+cache-tiny"), ("ignore-result", "fs"), ("override-same-bytes", "fs")] if quick else \
        [(s, b) for s in SCENARIOS for b in BACKENDS]
    reported = 0
    for scn, backend in todo:
        cevents, ref_fails, recs = enumerate_scenario(chk, scn, backend, use_model=proof_ok)
        chk.extra.setdefault("primitive_ops", {})["%s/%s" % (scn, backend)] = cevents
        for f in ref_fails:
            chk.violation({"what": "fault-free run of scenario %s violates the property: %s" % (scn, f["clause"]),
                           "class": {"clause": f["clause"], "variant": "none"}, "scenario": scn, "backend": backend,
                           "variant": {"kind": "none"}, "observed": f})
        for r in recs:
            v = r["variant"]
            chk.case([scn, backend, v], sample=dict(scenario=scn, backend=backend, variant=v,
                                                     fresh_process=[(x["call"], x["execs"]) for x in r["fresh_process"]]))
            chk.count("variant:" + v["kind"])
            chk.count("scenario:%s/%s" % (scn, backend))
            if r["fails"]:
                chk.count("failing-variant")
                f = r["fails"][0]
                cls = {"clause": f["clause"], "variant": v["kind"],
                       "target": "link" if v["event"].endswith(".link") else ("tmp" if ".tmp" in v["event"] else "object")}
                if reported < 6:
                    p = chk.violation({"what": "after %s at op %d (%s) of scenario %s/%s: %s in %s" % (
                        v["kind"], v["index"], v["event"], scn, backend, f["clause"], f["phase"]),
                        "class": cls, "scenario": scn, "backend": backend, "variant": v, "observed": r["fails"][:3],
                        "fresh_process": r["fresh_process"], "same_process": r["same_process"]})
                    if p:
                        reported += 1
    chk.extra["exhaustive_per_scenario"] = True


if __name__ == "__main__":
    sys.exit(run_check(PROP, main, sys.argv[1:]))
