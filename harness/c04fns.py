"""memento functions with assorted signatures for the argument-identity check (C04)."""
from twosigma.memento import memento_function


class _Rec:
    def __init__(self):
        self.calls = []


REC = _Rec()


@memento_function(version="1")
def s1(a):
    REC.calls.append(("s1", dict(a=a)))
    return 1


@memento_function(version="1")
def s2(a, b):
    REC.calls.append(("s2", dict(a=a, b=b)))
    return 2


@memento_function(version="1")
def s3(a, b, c):
    REC.calls.append(("s3", dict(a=a, b=b, c=c)))
    return 3


@memento_function(version="1")
def s4(a, b, *, k, m):
    REC.calls.append(("s4", dict(a=a, b=b, k=k, m=m)))
    return 4


@memento_function(version="1")
def s5(alpha, beta, gamma, delta, eps):
    REC.calls.append(("s5", dict(alpha=alpha, beta=beta, gamma=gamma, delta=delta, eps=eps)))
    return 5


@memento_function(version="1")
def target(x, y):
    return 0


# functions that are defined, used, and then defined again under the same name with the parameters re-ordered / renamed
# (an edited notebook cell): the later definition is the function
@memento_function(version="1")
def s6(value, factor):
    return 6


s6.fn_reference().with_args(1, 2)


@memento_function(version="2")
def s6(factor, value, rev):        # noqa: F811
    REC.calls.append(("s6", dict(factor=factor, value=value, rev=rev)))
    return 6


@memento_function(version="1")
def s7(path, *, k):
    return 7


s7.fn_reference().with_args("p", k=1)


@memento_function(version="2")
def s7(uri, mode, *, k, m):        # noqa: F811
    REC.calls.append(("s7", dict(uri=uri, mode=mode, k=k, m=m)))
    return 7


@memento_function(version="1")
def n_outer(a):
    """a caller whose nested call inherits the caller's context arguments"""
    REC.calls.append(("n_outer", dict(a=a)))
    return s1(a)


@memento_function(version="1")
def n_top(a):
    """two levels above the keyed call: the context arguments travel through every frame (second element: the same through a batch)"""
    REC.calls.append(("n_top", dict(a=a)))
    return [n_outer(a), n_outer.call_batch([{"a": a}])[0]]


SIGS = {"s1": (s1, ["a"], []), "s2": (s2, ["a", "b"], []), "s3": (s3, ["a", "b", "c"], []),
        "s4": (s4, ["a", "b"], ["k", "m"]), "s5": (s5, ["alpha", "beta", "gamma", "delta", "eps"], []),
        "s6": (s6, ["factor", "value", "rev"], []), "s7": (s7, ["uri", "mode"], ["k", "m"])}
