"""C09 — concurrent callers: single flight per call, correct values, under every schedule.

Lean: Model/Conc.lean + Props/C09.lean (transition system over the shared-state access points of the
runner and the atomic methods of the memory cache; invariant for every accepted trace).
Correspondence / oracle: real threads run under a cooperative scheduler (sched.py) that forces a
given interleaving at source-line granularity in runner_local.py (family A: threads call memento
functions; storage calls are single steps) and inside the methods of MemoryCache (family B: threads
call the cache directly). Family A logs the shared-state events of every thread (pre-check, acquire,
lookup, execute, memoize, release); the log, in the order the events took effect, must be a trace
the model accepts, and the property's own oracle is applied to every run: every caller gets the
right value, nothing raises, each distinct call not memoized beforehand runs exactly once, the
cache's usage counter equals what its resident entries account for and (where nothing is evicted)
the final accounting equals a sequential run's. Schedules: every single preemption point (both
thread orders), plus seeded random schedules with more preemptions.
"""
import collections
import json
import linecache
import os
import shutil
import sys
import tempfile
import threading
import types

import common
from common import run_check
import sched

PROP = "C09"
_n = [0]
LOG = []
_store_lock = threading.RLock()
_tid = threading.local()


def tid():
    return getattr(_tid, "i", 0)


class LoggedLock:
    """proxy of a per-call mutex of runner_local (whatever object `_mutex_for_invocation` hands out for the call), logging
    acquire (after it succeeded) and release (before it happens); one proxy per (call, underlying lock object)"""

    def __init__(self, key, lock):
        self.key = key
        self.lock = lock
        self.depth = collections.Counter()

    def acquire(self, blocking=True, timeout=-1):
        ok = self.lock.acquire(blocking, timeout)
        if ok:
            self.depth[tid()] += 1
            HOLD[(self.key, tid())] += 1
            if self.depth[tid()] == 1:
                LOG.append(("acq", tid(), self.key))
        return ok

    def release(self):
        self.depth[tid()] -= 1
        HOLD[(self.key, tid())] -= 1
        if self.depth[tid()] == 0:
            LOG.append(("rel", tid(), self.key))
        self.lock.release()

    def __enter__(self):
        self.acquire()
        return self

    def __exit__(self, *a):
        self.release()
        return False


MUTEX_LOG = {"available": True}
HOLD = collections.Counter()      # (call key, thread) -> nesting depth of the call's mutex held by the thread
_proxies = {}                     # id(underlying lock) -> (underlying lock, proxy): the lock is kept alive so ids stay unique


def install_mutex_logging(rl):
    """wrap `_mutex_for_invocation` (the one place the runner obtains the per-call mutex) so that the lock it hands out
    is logged; independent of how the table of mutexes is kept. Returns an undo function."""
    orig = getattr(rl, "_mutex_for_invocation", None)
    MUTEX_LOG["available"] = orig is not None
    if orig is None:
        # the runner obtains its per-call mutex elsewhere (refactored): the acquire / release events of the model's trace are
        # not available; the oracles (values, executions, accounts) still are
        return lambda: None

    def logged(fn_reference_with_args):
        lk = orig(fn_reference_with_args)
        if not (hasattr(lk, "acquire") and hasattr(lk, "release")):
            # what the runner gets here is no lock object any more (refactored): no acquire / release events; the oracles remain
            MUTEX_LOG["available"] = False
            return lk
        key = (fn_reference_with_args.fn_reference.qualified_name, fn_reference_with_args.arg_hash)
        ent = _proxies.get(id(lk))
        if ent is None or ent[0] is not lk:
            ent = _proxies[id(lk)] = (lk, LoggedLock(key, lk))
        return ent[1]
    rl._mutex_for_invocation = logged

    def undo():
        rl._mutex_for_invocation = orig
        _proxies.clear()
        HOLD.clear()
    return undo


def holding(key):
    return HOLD[(key, tid())] > 0


def instrument(storage):
    """storage calls are atomic units (the property's granularity): log lookups and memoize in the order they take effect"""
    real_get, real_memoize = storage.get_mementos, storage.memoize

    def get_mementos(fns):
        with _store_lock:
            res = real_get(fns)
            for f, r in zip(fns, res):
                key = (f.fn_reference.qualified_name, f.arg_hash)
                LOG.append(("lookup" if holding(key) else "pre", tid(), key, r is not None))
            return res

    def memoize(key_override, memento, result):
        with _store_lock:
            real_memoize(key_override, memento, result)
            fr = memento.invocation_metadata.fn_reference_with_args
            LOG.append(("memoize", tid(), (fr.fn_reference.qualified_name, fr.arg_hash)))
    storage.get_mementos = get_mementos
    storage.memoize = memoize


class Rec:
    """execution recorder (a plain object: not tracked by memento's version hashing)"""

    def log(self, x):
        LOG.append(("exec", tid(), x))


REC = Rec()


def make_functions(cluster):
    _n[0] += 1
    modname = "c09m_%d_%d" % (os.getpid(), _n[0])
    src = ("from twosigma.memento import memento_function\nimport c09\n\n\n"
           "@memento_function(cluster=%r)\ndef work(x):\n    c09.REC.log(x)\n    return [x, x * x, 'v']\n\n\n"
           "@memento_function(cluster=%r)\ndef other(x):\n    c09.REC.log(x + 100)\n    return [x, x * x, 'v']\n\n\n"
           "@memento_function(cluster=%r)\ndef outer(x):\n    c09.REC.log(x)\n    w = work(x - 200)\n"
           "    return [x, x * x, 'v' if w == [x - 200, (x - 200) * (x - 200), 'v'] else 'inner-wrong']\n\n\n"
           "@memento_function(cluster=%r)\ndef proc(x):\n    c09.REC.log(x + 300)\n    return None\n\n\n"
           "@memento_function(cluster=%r)\ndef add(a, b):\n    c09.REC.log(400 + a * 10 + b)\n    return a + b\n\n\n"
           "@memento_function(cluster=%r)\ndef ptab(x):\n    from twosigma.memento.partition import InMemoryPartition\n    c09.REC.log(500 + x)\n"
           "    return InMemoryPartition({'n': x, 'rows': ['row-%%d-%%d' %% (x, i) for i in range(3)]})\n\n\n"
           "@memento_function(cluster=%r)\ndef ptabo(x):\n    from twosigma.memento.partition import InMemoryPartition\n    from twosigma.memento.result import KeyOverrideResult\n"
           "    c09.REC.log(600 + x)\n    return KeyOverrideResult(InMemoryPartition({'n': x, 'rows': ['pub-%%d-%%d' %% (x, i) for i in range(3)]}), 'published/today')\n"
           % (cluster, cluster, cluster, cluster, cluster, cluster, cluster))
    fname = "<%s>" % modname
    linecache.cache[fname] = (len(src), None, src.splitlines(True), fname)
    mod = types.ModuleType(modname)
    mod.__package__ = "c09pkg"           # the harness module (recorder) is another package: not part of the hashed closure
    sys.modules[modname] = mod
    sys.modules.setdefault("c09", sys.modules[__name__])
    exec(compile(src, fname, "exec"), mod.__dict__)
    _last_module[0] = mod
    return mod.work, mod.other, mod.outer


_last_module = [None]

# family V: the same distinct call made by two threads in ways the plain scenarios do not use: a result that is None, a second
# caller that ignores the result, two spellings of one call (direct and through a partial application), and a batch whose bulk
# look-up runs while another thread makes one of its calls (warm store, cold cache). Oracle only.
VARIANTS = [
    dict(name="none-result/cold/same-key", warm=[], cache="none"),
    dict(name="ignore-result-waiter/cold/same-key", warm=[], cache="none"),
    dict(name="two-spellings-of-one-call/cold", warm=[], cache="none"),
    dict(name="batch-lookup-vs-single/warm-store-cold-cache", warm=[5, 6, 7], cache="cold"),
    dict(name="force-local-callers/cold/same-key", warm=[], cache="none"),
    dict(name="plain-and-force-local-caller/cold/same-key", warm=[], cache="none"),
    # (line-level yield points only inside the named functions, function entries elsewhere: few enough steps for every
    # single preemption point to be tried)
    dict(name="partition-results/cold/different-keys", warm=[], cache="none", line_names=["store", "encode", "memoize"], every_point=True),
    # one of the two partitions is published under a key override (the strategy object that writes them is shared by all calls)
    dict(name="partition-override-and-plain/cold/different-keys", warm=[], cache="none", line_names=["store", "encode", "memoize"], every_point=True),
    # the cluster's storage comes from a configuration dictionary (memory backend); the two callers are its first users
    dict(name="config-built-cluster/cold/same-key", warm=[], cache="none", config_cluster=True, every_point=True),
    dict(name="nested-callers-with-stale-version/cold", warm=[], cache="none", memento_lines=True,
         line_names=["_recompute_version", "_update_dependencies", "_validate_dependency", "dependencies", "hash_rules"], every_point=True),
]


def variant_trial(var, schedule, root):
    """returns (failures, steps)"""
    import twosigma.memento as m
    import twosigma.memento.runner_local as rl
    from twosigma.memento import Environment, ConfigurationRepository, FunctionCluster
    from twosigma.memento.storage_filesystem import FilesystemStorageBackend
    st = FilesystemStorageBackend(path=os.path.join(root, "s"), memory_cache_mb=(None if var["cache"] == "none" else 4))
    prev = m.Environment.get()
    if var.get("config_cluster"):
        cl_ = FunctionCluster(config={"name": "c09", "storage": {"type": "memory"}})
    else:
        cl_ = FunctionCluster(name="c09", storage=st)
    m.Environment.set(Environment(name="c09", base_dir=root, repos=[ConfigurationRepository(name="r", clusters={"c09": cl_})]))
    try:
        work, other, outer = make_functions("c09")
        mod = _last_module[0]
        for x in var["warm"]:
            work(x)
        if var["cache"] == "cold":
            st._memory_cache.forget_everything()
        del LOG[:]
        val = lambda x: [x, x * x, "v"]
        kind = var["name"].split("/")[0]
        if kind == "none-result":
            thunks, want, once = [lambda: mod.proc(5), lambda: mod.proc(5)], [None, None], {305: 1}
        elif kind == "ignore-result-waiter":
            thunks, want, once = [lambda: work(5), lambda: work.ignore_result()(5)], [val(5), None], {5: 1}
        elif kind == "two-spellings-of-one-call":
            thunks, want, once = [lambda: mod.add(1, 2), lambda: mod.add.partial(1)(2)], [3, 3], {412: 1}
        elif kind == "force-local-callers":
            thunks, want, once = [lambda: work.force_local()(5), lambda: work.force_local()(5)], [val(5), val(5)], {5: 1}
        elif kind == "plain-and-force-local-caller":
            thunks, want, once = [lambda: work(5), lambda: work.force_local()(5)], [val(5), val(5)], {5: 1}
        elif kind == "partition-results":
            pshow = lambda p: [p.get("n"), p.get("rows")]
            thunks = [lambda: pshow(mod.ptab(1)), lambda: pshow(mod.ptab(2))]
            want, once = [[1, ["row-1-%d" % i for i in range(3)]], [2, ["row-2-%d" % i for i in range(3)]]], {501: 1, 502: 1}
        elif kind == "partition-override-and-plain":
            pshow = lambda p: [p.get("n"), p.get("rows")]
            thunks = [lambda: pshow(mod.ptab(1)), lambda: pshow(mod.ptabo(2))]
            want, once = [[1, ["row-1-%d" % i for i in range(3)]], [2, ["pub-2-%d" % i for i in range(3)]]], {501: 1, 602: 1}
        elif kind == "config-built-cluster":
            thunks, want, once = [lambda: work(5), lambda: work(5)], [val(5), val(5)], {5: 1}
        elif kind == "nested-callers-with-stale-version":
            ov = lambda x: [x, x * x, "v"]
            thunks, want, once = [lambda: outer(205), lambda: outer(205)], [ov(205), ov(205)], {205: 1, 5: 1}
        else:
            thunks, want, once = [lambda: work.call_batch([{"x": 5}, {"x": 6}, {"x": 7}]), lambda: work(5)], [[val(5), val(6), val(7)], val(5)], {5: 0, 6: 0, 7: 0}

        def wrap(i, f):
            def go():
                _tid.i = i + 1
                return f()
            return go
        import twosigma.memento.storage_base as sbase
        import twosigma.memento.storage_filesystem as sfs
        rl_file = rl.__file__
        files = {sbase.__file__, sfs.__file__}
        import twosigma.memento.memento as mmod
        lines_in = {rl_file, sbase.__file__} | ({mmod.__file__} if var.get("memento_lines") else set())
        names = set(var.get("line_names") or [])
        if names:
            want_line = lambda c: c.co_filename in lines_in and c.co_name in names
            call_files = files | {rl_file} | ({mmod.__file__} if var.get("memento_lines") else set())
        else:
            want_line = lambda c: c.co_filename in lines_in
            call_files = files
        if var.get("config_cluster"):
            import twosigma.memento.configuration as cfgmod
            import twosigma.memento.storage as stmod
            import twosigma.memento.storage_memory as smem
            call_files = set(call_files) | {cfgmod.__file__, stmod.__file__, smem.__file__, rl_file}
        S = sched.Sched(want_line, block_timeout=0.08, want_call=lambda c: c.co_filename in call_files)
        results, steps, _ = S.run([wrap(i, f) for i, f in enumerate(thunks)], schedule)
        fails = []
        for i, (r, w) in enumerate(zip(results, want)):
            if r != ("ok", w):
                fails.append(dict(clause="correct-value" if r[0] == "ok" else "no-internal-error", thread=i, got=str(r)[:200], expected=str(w)))
        execs = collections.Counter(e[2] for e in LOG if e[0] == "exec")
        for x, n in once.items():
            if execs.get(x, 0) > n:
                fails.append(dict(clause="single-flight", arg=x, executions=execs.get(x, 0), expected=n))
        if kind == "partition-override-and-plain" and not fails:
            # the two calls do not leak into each other: what the call without key override stored is content-addressed (C07's
            # statement, looked at here because only an interleaving of two calls can break it)
            try:
                mm_ = mod.ptab.memento(1)
                ck_ = None if mm_ is None else mm_.content_key.key
                if ck_ is None or not ck_.startswith("c/"):
                    fails.append(dict(clause="concurrent-calls-do-not-leak-into-each-other", call="ptab(1)", stored_under=ck_,
                                      note="a result stored without key override lives under the other call's override key"))
            except Exception as e:
                fails.append(dict(clause="no-internal-error", when="reading the memento afterwards", error=repr(e)[:200]))
        # afterwards every call once more, one after the other: served, with the right value
        _tid.i = 99
        for i, (f, w) in enumerate(zip(thunks, want)):
            n0 = sum(1 for e in LOG if e[0] == "exec")
            try:
                r = ("ok", f())
            except BaseException as e:      # noqa
                r = ("raise", type(e).__name__, str(e)[:200])
            if r != ("ok", w):
                fails.append(dict(clause="correct-value" if r[0] == "ok" else "no-internal-error", thread=i, when="afterwards", got=str(r)[:200], expected=str(w)))
            elif sum(1 for e in LOG if e[0] == "exec") != n0:
                fails.append(dict(clause="single-flight", thread=i, when="afterwards", note="the call was computed again"))
        return fails, steps
    finally:
        m.Environment.set(prev)


def cache_accounts(storage):
    c = getattr(storage, "_memory_cache", None)
    if c is None:
        return None
    # function name + argument hash identify the call (the module name and the version are per run)
    short = lambda k: k.rsplit("/", 1)[0].split(":")[-1].split("#")[0] + "/" + k.rsplit("/", 1)[-1][:12]
    return dict(usage=c.memory_usage, resident_total=sum(e.obj_size for e in c.cache.values()), budget=c.memory_cache_bytes,
                resident=sorted(short(k) for k in c.cache), lru=[short(k) for k in c.lru_deque])


def arg_of(x):
    return x - 100 if 100 <= x < 200 else x


def run_scenario(sc, schedule, root):
    """sc: dict(args=[x per thread], warm=[x memoized beforehand], cache=cold|warm|none). Returns observations."""
    import twosigma.memento as m
    import twosigma.memento.runner_local as rl
    from twosigma.memento import Environment, ConfigurationRepository, FunctionCluster
    from twosigma.memento.storage_filesystem import FilesystemStorageBackend
    cluster = "c09"
    if sc.get("backend") == "memory":
        from twosigma.memento.storage_memory import MemoryStorageBackend
        st = MemoryStorageBackend()
    else:
        # cache sizes: 4 MB (everything fits), "tiny" (smaller than any result: 64 bytes), "one" (one result at a time: 260 bytes)
        mb = {"none": None, "tiny": 64 / 2 ** 20, "one": 260 / 2 ** 20}.get(sc["cache"], 4)
        st = FilesystemStorageBackend(path=os.path.join(root, "s"), memory_cache_mb=mb)
    prev = m.Environment.get()
    m.Environment.set(Environment(name="c09", base_dir=root, repos=[
        ConfigurationRepository(name="r", clusters={cluster: FunctionCluster(name=cluster, storage=st)})]))
    undo = install_mutex_logging(rl)
    try:
        work, other, outer = make_functions(cluster)
        # arguments >= 200 are calls of `outer` (which calls work(x - 200)), arguments >= 100 calls of the second function
        fn_of = lambda x: outer if x >= 200 else (other if x >= 100 else work)
        # call id x in 100..199 is the call other(x - 100): the same argument (hence argument hash and result) as work(x - 100)
        for x in sc["warm"]:
            fn_of(x)(arg_of(x))
        if sc["cache"] == "cold" and getattr(st, "_memory_cache", None) is not None:
            st._memory_cache.forget_everything()
        if not sc.get("fine"):
            instrument(st)
        del LOG[:]
        keyof = {}
        for x in set(sc["args"]) | {x - 200 for x in sc["args"] if x >= 200}:
            fr = fn_of(x).fn_reference().with_args(arg_of(x))
            keyof[(fr.fn_reference.qualified_name, fr.arg_hash)] = x

        def thunk(i, x):
            def go():
                _tid.i = i + 1
                LOG.append(("start", i + 1, x))
                return fn_of(x)(arg_of(x))
            return go
        rl_file = rl.__file__
        want = lambda c: c.co_filename == rl_file
        want_call = None
        if sc.get("fine"):
            # family C: the storage calls are not atomic units; every function entry inside the storage modules is a yield
            # point, and every line of the backend's own module (storage_memory.py / storage_filesystem.py) as well
            import twosigma.memento.storage_memory as smem
            import twosigma.memento.storage_base as sbase
            import twosigma.memento.storage_filesystem as sfs
            files = {smem.__file__, sbase.__file__, sfs.__file__}
            want_call = lambda c: c.co_filename in files
            own = smem.__file__ if sc.get("backend") == "memory" else sfs.__file__
            want = lambda c: c.co_filename == rl_file or c.co_filename == own
        S = sched.Sched(want, block_timeout=0.08, want_call=want_call)
        results, steps, trace = S.run([thunk(i, x) for i, x in enumerate(sc["args"])], schedule)
        log = list(LOG)
        accounts = cache_accounts(st)
        # afterwards: every call once more, one after the other — it must be served (no body runs) with the right value
        after = []
        _tid.i = 99
        for x in sorted(set(sc["args"])):
            n0 = sum(1 for e in LOG if e[0] == "exec")
            try:
                v = ("ok", fn_of(x)(arg_of(x)))
            except BaseException as e:          # noqa
                v = ("raise", type(e).__name__, str(e)[:200])
            after.append(dict(arg=x, result=v, executions=sum(1 for e in LOG if e[0] == "exec") - n0))
        return dict(results=results, steps=steps, log=log, keyof=keyof, cache=accounts, after=after)
    finally:
        undo()
        m.Environment.set(prev)


def model_accepts(sc, obs):
    """feed the logged events, in the order they took effect, to the model; returns (rejections, summary).
    Every *invocation* (frame) is one thread of the model: a nested call made by a running body is a new model thread that
    goes through the same protocol while its caller stays in its critical section (the model places no bound on the number of
    threads; keys within one call stack are distinct, so the re-entrancy of the real mutexes is never used)."""
    keyof = obs["keyof"]
    warm = set(sc["warm"]) | {x - 200 for x in sc["warm"] if x >= 200}
    lines = ["init 100 " + " ".join(str(x) for x in sorted(warm))]
    stacks = collections.defaultdict(list)      # real thread -> [(model thread, key id)]
    nvt = [0]
    vts = []

    def push(t, x):
        nvt[0] += 1
        stacks[t].append((nvt[0], x))
        vts.append(nvt[0])
        lines.append("start %d %d" % (nvt[0], x))
        return nvt[0]

    def frame(t, x):
        for vt, k in reversed(stacks[t]):
            if k == x:
                return vt
        return None

    def pop(t, x):
        for i in range(len(stacks[t]) - 1, -1, -1):
            if stacks[t][i][1] == x:
                del stacks[t][i]
                return
    for e in obs["log"]:
        kind, t = e[0], e[1]
        if kind == "start":
            push(t, e[2])
        elif kind in ("pre", "lookup"):
            if e[2] not in keyof:
                continue
            x = keyof[e[2]]
            vt = frame(t, x)
            if vt is None:
                vt = push(t, x)                   # a nested invocation begins with its pre-check
            lines.append("%s %d %d" % (kind, vt, 1 if e[3] else 0))
            if kind == "pre" and e[3]:
                pop(t, x)
        elif kind in ("acq", "rel", "memoize"):
            if e[2] not in keyof:
                continue
            x = keyof[e[2]]
            vt = frame(t, x)
            lines.append("%s %d" % (kind, vt if vt is not None else 0))
            if kind == "rel":
                pop(t, x)
        elif kind == "exec":
            vt = frame(t, e[2])
            lines.append("exec %d" % (vt if vt is not None else 0))
    keys = sorted(set(sc["args"]) | warm | {x - 200 for x in sc["args"] if x >= 200})
    lines.append("summary " + " ".join(str(k) for k in keys))
    lines.append("idle " + " ".join(str(v) for v in vts))
    outs = common.model_batch("conc", lines)
    rej = [(i, l) for i, (l, o) in enumerate(zip(lines[1:-2], outs[1:-2])) if o != "ok"]
    summ = {int(a.split(":")[0]): a.split(":")[1:] for a in outs[-2].split(" ") if a}
    return rej, summ, outs[-1] == "1", lines


def judge(sc, obs, seq_cache):
    fails = []
    for i, (x, r) in enumerate(zip(sc["args"], obs["results"])):
        if r is None or r[0] != "ok":
            fails.append(dict(clause="no-internal-error", thread=i + 1, arg=x, got=r))
        elif r[1] != [arg_of(x), arg_of(x) * arg_of(x), "v"]:
            fails.append(dict(clause="correct-value", thread=i + 1, arg=x, got=r[1]))
    execs = collections.Counter(e[2] for e in obs["log"] if e[0] == "exec")
    warm = set(sc["warm"]) | {x - 200 for x in sc["warm"] if x >= 200}
    for x in set(sc["args"]) | {x - 200 for x in sc["args"] if x >= 200}:
        want = 0 if x in warm else 1
        if x < 200 and x not in sc["args"] and all((y in warm) for y in sc["args"] if y == x + 200):
            want = 0                          # the inner call is only made by bodies that do not run
        if execs.get(x, 0) != want:
            fails.append(dict(clause="single-flight", arg=x, executions=execs.get(x, 0), expected=want))
    for a in obs.get("after", []):
        x = a["arg"]
        if a["result"][0] != "ok":
            fails.append(dict(clause="no-internal-error", when="call repeated after the threads finished", arg=x, got=a["result"]))
        elif a["result"][1] != [arg_of(x), arg_of(x) * arg_of(x), "v"]:
            fails.append(dict(clause="correct-value", when="call repeated after the threads finished", arg=x, got=a["result"][1]))
        if a["executions"]:
            fails.append(dict(clause="single-flight", when="call repeated after the threads finished", arg=x, executions=a["executions"], expected=0))
    c = obs["cache"]
    if c is not None:
        if c["usage"] != c["resident_total"] or c["usage"] > c["budget"] or len(c["lru"]) != len(set(c["lru"])) or sorted(c["lru"]) != c["resident"]:
            fails.append(dict(clause="cache-accounting-consistent", cache=c))
        elif seq_cache is not None and (c["usage"], c["resident"]) != (seq_cache["usage"], seq_cache["resident"]):
            fails.append(dict(clause="cache-accounting-as-sequential", concurrent=c, sequential=seq_cache))
    return fails


# ---- family B: the cache class under line-level interleavings -----------------------------------------------

def cache_trial(ops, schedule, budget=4096):
    import c06
    import twosigma.memento.storage_base as sb
    w = c06.World(budget)
    want = lambda c: c.co_filename == sb.__file__ and c.co_qualname.startswith("MemoryCache.")
    S = sched.Sched(want, block_timeout=0.03)
    mems = {}

    def mk(i, op):
        key = (op[1], op[2])
        m = w.mfns.make_memento(w.fwa[key], seq=100 + i)
        mems[i] = m
        if op[0] == "putm":
            return lambda: w.cache.put(m, None, False)
        if op[0] == "putv":
            val = bytes(op[3])
            return lambda: w.cache.put(m, val, True)
        if op[0] == "ismem":
            return lambda: w.cache.is_memoized(w.refs[key[0]], w.fwa[key].arg_hash)
        if op[0] == "forget":
            return lambda: w.cache.forget_call(w.frh(key))
        if op[0] == "read":
            # serving a resident result (the hot path); the entry may have been dropped by the other thread meanwhile
            def rd():
                try:
                    return w.cache.read_result(m0)
                except KeyError:
                    return "not-resident"
            return rd
        raise ValueError(op)
    # a resident entry to start from
    m0 = w.mfns.make_memento(w.fwa[(1, 1)], seq=1)
    w.cache.put(m0, bytes(64), True)
    results, steps, _ = S.run([mk(i, op) for i, op in enumerate(ops)], schedule)
    c = w.cache
    acc = dict(usage=c.memory_usage, resident_total=sum(e.obj_size for e in c.cache.values()), budget=c.memory_cache_bytes,
               resident=sorted(c.cache), lru=list(c.lru_deque))
    fails = []
    for r in results:
        if r is None or r[0] != "ok":
            fails.append(dict(clause="no-internal-error", got=r))
    if acc["usage"] != acc["resident_total"] or acc["usage"] > acc["budget"] or len(acc["lru"]) != len(set(acc["lru"])) or sorted(acc["lru"]) != acc["resident"]:
        fails.append(dict(clause="cache-accounting-consistent", cache=acc))
    return fails, steps


CACHE_OPSETS = [
    [("putm", 1, 1), ("putm", 1, 1)],
    [("putv", 1, 1, 200), ("putm", 1, 1)],
    [("putv", 1, 1, 3000), ("putv", 1, 2, 3000)],
    [("putv", 1, 2, 300), ("forget", 1, 1)],
    [("ismem", 1, 1), ("putv", 1, 1, 100)],
    [("putv", 1, 1, 100), ("putv", 1, 1, 5000), ("ismem", 1, 1)],
    # a resident result is served while the same call's memento is recorded again / its value replaced / the call forgotten
    [("putm", 1, 1), ("read", 1, 1)],
    [("putv", 1, 1, 100), ("read", 1, 1)],
    [("forget", 1, 1), ("read", 1, 1)],
]


# family C: the in-memory backend, storage calls interleaved at function-call granularity (oracle only: the model's events
# are the atomic storage calls of family A)
FINE_SCENARIOS = [
    dict(name="memory/cold/same-key/fine", args=[3, 3], warm=[], cache="none", backend="memory", fine=True),
    dict(name="memory/cold/different-keys/fine", args=[3, 4], warm=[], cache="none", backend="memory", fine=True),
    dict(name="memory/warm/same-key/fine", args=[3, 3], warm=[3], cache="none", backend="memory", fine=True),
    # the filesystem backend without cache: two different functions with equal arguments (equal argument hashes, equal results
    # would share a content key), two keys of one function
    dict(name="fs/different-functions-equal-arguments/fine", args=[5, 105], warm=[], cache="none", backend="fs", fine=True),
    dict(name="fs/cold/different-keys/fine", args=[5, 6], warm=[], cache="none", backend="fs", fine=True),
    # a memory cache smaller than any result (same key, cold store) and one that holds one result at a time (warm, other keys)
    dict(name="fs+tiny-cache/cold/same-key/fine", args=[5, 5], warm=[], cache="tiny", backend="fs", fine=True),
    dict(name="fs+one-entry-cache/warm/different-keys/fine", args=[5, 6], warm=[5, 6], cache="one", backend="fs", fine=True),
    dict(name="fs+one-entry-cache/warm/three-threads/fine", args=[5, 6, 5], warm=[5, 6], cache="one", backend="fs", fine=True),
]


def long_flight(root, n_other=1100):
    """one call stays in flight while the process makes `n_other` other distinct invocations; then a second caller of the
    call in flight arrives. Plain threads and events (no forced schedule): whatever the timing, the body must run once."""
    import twosigma.memento as m
    import twosigma.memento.runner_local as rl
    from twosigma.memento import Environment, ConfigurationRepository, FunctionCluster
    from twosigma.memento.storage_memory import MemoryStorageBackend
    st = MemoryStorageBackend()
    prev = m.Environment.get()
    m.Environment.set(Environment(name="c09", base_dir=root, repos=[
        ConfigurationRepository(name="r", clusters={"c09": FunctionCluster(name="c09", storage=st)})]))
    started, go = threading.Event(), threading.Event()
    orig_log = REC.log
    execs = collections.Counter()

    def log(x):
        execs[x] += 1
        if x == 7 and execs[x] == 1:
            started.set()
            go.wait(60)
    try:
        REC.__dict__["log"] = log
        work, other, _outer = make_functions("c09")
        res = {}

        def call(name, fn, x):
            try:
                res[name] = ("ok", fn(x))
            except BaseException as e:      # noqa
                res[name] = ("raise", type(e).__name__, str(e)[:200])
        ta = threading.Thread(target=call, args=("A", work, 7), daemon=True)
        ta.start()
        started.wait(20)
        main_err = None
        for i in range(n_other):
            try:
                other(1000 + i)
            except Exception as e:      # an unrelated call on this thread fails because of the call in flight on the other
                main_err = (i, type(e).__name__, str(e)[:200])
                break
        tb = threading.Thread(target=call, args=("B", work, 7), daemon=True)
        tb.start()
        tb.join(0.5)
        go.set()
        ta.join(30)
        tb.join(30)
    finally:
        REC.__dict__.pop("log", None)
        go.set()
        m.Environment.set(prev)
    fails = []
    if main_err is not None:
        fails.append(dict(clause="no-internal-error", thread="main", got=main_err))
    if execs[7] != 1:
        fails.append(dict(clause="single-flight", arg=7, executions=execs[7], expected=1, other_invocations=n_other))
    for k in ("A", "B"):
        if res.get(k) != ("ok", [7, 49, "v"]):
            fails.append(dict(clause="correct-value" if res.get(k, ("",))[0] == "ok" else "no-internal-error", thread=k, got=res.get(k)))
    return fails


def schedules_single_preemption(nsteps, nthreads, stride=1):
    out = []
    for first in range(nthreads):
        other = [t for t in range(nthreads) if t != first]
        for p in range(0, nsteps + 1, stride):
            out.append([(first, p)] + [(t, 10 ** 6) for t in other] + [(first, 10 ** 6)])
    return out


def random_schedule(rng, nthreads, nsteps, npre):
    sch = []
    for _ in range(npre):
        sch.append((rng.randrange(nthreads), rng.randint(1, max(2, nsteps // 2))))
    return sch


SCENARIOS = [
    dict(name="cold-store-same-key", args=[5, 5], warm=[], cache="cold"),
    dict(name="cold-store-different-keys", args=[5, 6], warm=[], cache="cold"),
    dict(name="warm-store-cold-cache-same-key", args=[5, 5], warm=[5], cache="cold"),
    dict(name="warm-cache-same-key", args=[5, 5], warm=[5], cache="warm"),
    dict(name="mixed-one-warm", args=[5, 6], warm=[5], cache="cold"),
    dict(name="no-cache-same-key", args=[5, 5], warm=[], cache="none"),
    dict(name="three-threads-two-keys", args=[5, 6, 5], warm=[], cache="cold"),
    dict(name="different-functions", args=[5, 105], warm=[], cache="cold"),
    dict(name="different-functions-one-warm", args=[105, 5], warm=[5], cache="warm"),
    # nested invocations: outer(x) calls work(x - 200) from its body
    dict(name="nested-same-outer", args=[205, 205], warm=[], cache="cold"),
    dict(name="nested-outer-and-its-inner", args=[205, 5], warm=[], cache="cold"),
    dict(name="nested-inner-first", args=[5, 205, 205], warm=[], cache="cold"),
    dict(name="nested-inner-warm", args=[205, 205], warm=[5], cache="warm"),
]


class _StopCheck(Exception):
    pass


def main(chk, replay=None):
    try:
        return _main(chk, replay)
    except _StopCheck:
        return None
    except sched.Deadlock as e:
        if replay is not None:
            print(json.dumps(dict(still_fails=True, observed=[dict(clause="no-deadlock", error=str(e))])))
            return 1
        # threads of the library wait for each other (seen outside the places that expect it): everything the process does with
        # the library from here on would wait too
        try:
            chk.violation({"what": "concurrent callers never return (deadlock): %s" % e, "class": {"clause": "no-deadlock"}, "observed": str(e)})
        except _StopCheck:
            pass
        return None


def _main(chk, replay=None):
    _report = chk.violation

    def _violation(rep, *a, **k):
        r = _report(rep, *a, **k)
        if (rep.get("class") or {}).get("clause") == "no-deadlock":
            raise _StopCheck()          # the stuck threads hold locks of the library: nothing more can be run in this process
        return r
    chk.violation = _violation
    if replay is not None:
        root = tempfile.mkdtemp(prefix="c09r_")
        try:
            if replay.get("family") == "L":
                fails = long_flight(root)
            elif replay.get("family") == "V":
                fails, _ = variant_trial(replay["variant"], [tuple(s) for s in replay["schedule"]], root)
            elif replay.get("family") == "B":
                fails, _ = cache_trial([tuple(o) for o in replay["ops"]], [tuple(s) for s in replay["schedule"]])
            else:
                obs = run_scenario(replay["scenario"], [tuple(s) for s in replay["schedule"]], root)
                fails = judge(replay["scenario"], obs, None)
            print(json.dumps(dict(still_fails=bool(fails), observed=fails[:2]), default=str))
            return 1 if fails else 0
        finally:
            shutil.rmtree(root, ignore_errors=True)
    chk.rule = ("family A: 9 scenarios ({cold store, warm store + cold cache, warm cache, no cache} x {same key, different keys}, 2-3 "
                "threads) x schedules forced at line granularity in runner_local.py: every single preemption point for both thread "
                "orders (quick: stride 3) + seeded random schedules with up to 6 preemptions; family B: 6 pairs/triples of MemoryCache "
                "operations x every single preemption point inside the cache's methods + random; family C: the in-memory backend with "
                "every function entry inside the storage modules as a further yield point (oracle only); family V: a None result, a second caller that ignores the result, two spellings of one call (direct / partial), a batch whose bulk look-up runs while another thread makes one of its calls (oracle only); plus one call kept in flight "
                "across 1100 other invocations. Distinct = distinct (scenario, "
                "schedule); non-trivial = >= 1 preemption before a thread finished.")
    proof_ok = chk.build_and_audit()
    quick = chk.tier == "quick"
    rng = chk.rng
    reported = 0
    for sc in SCENARIOS:
        # sequential reference (thread order as listed) and step count
        root = tempfile.mkdtemp(prefix="c09_", dir=chk.tmpdir())
        ref = run_scenario(sc, [(i, 10 ** 6) for i in range(len(sc["args"]))], root)
        shutil.rmtree(root, ignore_errors=True)
        nsteps = max(ref["steps"])
        seq_cache = ref["cache"]
        nested = any(x >= 200 for x in sc["args"])
        stride_q = 11 if nested else (1 if sc["name"] == "cold-store-same-key" else 4)      # every point where two first callers of one call can meet
        scheds = schedules_single_preemption(nsteps, len(sc["args"]), stride=(stride_q if quick else 1))
        scheds += [random_schedule(rng, len(sc["args"]), nsteps, rng.randint(2, 6)) for _ in range((8 if nested else 12) if quick else 150)]
        for sch in scheds:
            root = tempfile.mkdtemp(prefix="c09_", dir=chk.tmpdir())
            try:
                obs = run_scenario(sc, sch, root)
            except sched.Deadlock as e:
                obs = None
                fails = [dict(clause="no-deadlock", error=str(e))]
            finally:
                shutil.rmtree(root, ignore_errors=True)
            if obs is not None:
                fails = judge(sc, obs, seq_cache)
                if not MUTEX_LOG["available"]:
                    rej, summ, allidle, lines = [], None, True, []
                    chk.correspondence_break("conc-model:mutex-events-unavailable", dict(scenario=sc["name"], note="runner_local._mutex_for_invocation is gone"))
                else:
                    rej, summ, allidle, lines = model_accepts(sc, obs)
                if rej:
                    chk.correspondence_break("conc-model:trace-rejected", dict(scenario=sc["name"], schedule=sch, first_rejected=rej[0], trace=lines[:60]))
                elif not allidle:
                    chk.correspondence_break("conc-model:not-quiescent", dict(scenario=sc["name"], schedule=sch))
                chk.count("model-accepted-events", len(lines) - 3)
            chk.case([sc["name"], sch], nontrivial=len(sch) > len(sc["args"]) or any(k < 10 ** 6 for _, k in sch[:1]),
                     sample=dict(scenario=sc["name"], schedule=sch[:4], events=[list(map(str, e)) for e in (obs["log"][:12] if obs else [])]))
            chk.count("scenario:" + sc["name"])
            if fails and reported < 5:
                p = chk.violation({"what": "concurrent callers (%s): %s" % (sc["name"], fails[0]["clause"]), "class": {"clause": fails[0]["clause"], "family": "A"},
                                   "family": "A", "scenario": sc, "schedule": sch, "observed": fails[:3]})
                reported += bool(p)
    for sc in FINE_SCENARIOS:
        root = tempfile.mkdtemp(prefix="c09_", dir=chk.tmpdir())
        ref = run_scenario(sc, [(i, 10 ** 6) for i in range(len(sc["args"]))], root)
        shutil.rmtree(root, ignore_errors=True)
        nsteps = max(ref["steps"])
        scheds = schedules_single_preemption(nsteps, len(sc["args"]), stride=((5 if sc.get("backend") == "fs" else 3) if quick else 1))
        scheds += [random_schedule(rng, len(sc["args"]), nsteps, rng.randint(2, 6)) for _ in range(8 if quick else 150)]
        for sch in scheds:
            root = tempfile.mkdtemp(prefix="c09_", dir=chk.tmpdir())
            try:
                obs = run_scenario(sc, sch, root)
                fails = judge(sc, obs, None)
            except sched.Deadlock as e:
                fails = [dict(clause="no-deadlock", error=str(e))]
            finally:
                shutil.rmtree(root, ignore_errors=True)
            chk.case([sc["name"], sch], nontrivial=True, sample=dict(scenario=sc["name"], schedule=sch[:4]))
            chk.count("scenario:" + sc["name"])
            if fails and reported < 5:
                p = chk.violation({"what": "concurrent callers (%s): %s" % (sc["name"], fails[0]["clause"]), "class": {"clause": fails[0]["clause"], "family": "C"},
                                   "family": "A", "scenario": sc, "schedule": sch, "observed": fails[:3]})
                reported += bool(p)
    for var in VARIANTS:
        root = tempfile.mkdtemp(prefix="c09v_", dir=chk.tmpdir())
        _, steps = variant_trial(var, [(0, 10 ** 6), (1, 10 ** 6)], root)
        shutil.rmtree(root, ignore_errors=True)
        nsteps = max(steps)
        scheds = schedules_single_preemption(nsteps, 2, stride=(max(1, nsteps // (60 if var.get("every_point") else 25)) if quick else 1))
        scheds += [random_schedule(rng, 2, nsteps, rng.randint(2, 5)) for _ in range((20 if var.get("every_point") else 6) if quick else 300)]
        chk.extra.setdefault("family_V_steps", {})[var["name"]] = nsteps
        if var.get("memento_lines"):
            # two preemptions: the first thread is stopped at p1, the second one runs up to p2, then the first one goes on
            # (a version being re-derived by one thread while the other is already past its own check)
            # quick: the first 120 steps of both threads (where versions are derived and checked), thorough: all of them
            lim = min(nsteps, 121) if quick else nsteps
            scheds += [[(0, p1), (1, p2), (0, 10 ** 6), (1, 10 ** 6)] for p1 in range(1, lim, 8 if quick else 5) for p2 in range(1, lim, 6 if quick else 5)]
        for sch in scheds:
            root = tempfile.mkdtemp(prefix="c09v_", dir=chk.tmpdir())
            try:
                fails, _ = variant_trial(var, sch, root)
            except sched.Deadlock as e:
                fails = [dict(clause="no-deadlock", error=str(e))]
            finally:
                shutil.rmtree(root, ignore_errors=True)
            chk.case([var["name"], sch], nontrivial=True, sample=dict(scenario=var["name"], schedule=sch[:4]))
            chk.count("scenario:" + var["name"])
            if fails and reported < 8:
                p = chk.violation({"what": "concurrent callers (%s): %s" % (var["name"], fails[0]["clause"]), "class": {"clause": fails[0]["clause"], "family": "V"},
                                   "family": "V", "variant": var, "schedule": sch, "observed": fails[:3]})
                reported += bool(p)
    root = tempfile.mkdtemp(prefix="c09_", dir=chk.tmpdir())
    lf = long_flight(root)
    shutil.rmtree(root, ignore_errors=True)
    chk.case(["long-flight", 1100], nontrivial=True, sample=dict(scenario="long-flight", other_invocations=1100))
    chk.count("scenario:long-flight")
    if lf:
        chk.violation({"what": "a call in flight across 1100 other invocations: %s" % lf[0]["clause"], "class": {"clause": lf[0]["clause"], "family": "L"},
                       "family": "L", "observed": lf[:3]})
    for ops in CACHE_OPSETS:
        _, steps = cache_trial(ops, [(i, 10 ** 6) for i in range(len(ops))])
        nsteps = max(steps)
        scheds = schedules_single_preemption(nsteps, len(ops), stride=(2 if quick else 1))
        scheds += [random_schedule(rng, len(ops), nsteps, rng.randint(2, 5)) for _ in range(10 if quick else 200)]
        if len(ops) == 2 and any(o[0] == "read" for o in ops):
            # two preemptions: the first thread is stopped at p1, the second one runs p2 steps, then the first one goes on
            lim = min(nsteps, 40)
            scheds += [[(0, p1), (1, p2), (0, 10 ** 6), (1, 10 ** 6)] for p1 in range(1, lim + 1) for p2 in range(1, lim + 1, 1 if not quick else 2)]
        for sch in scheds:
            try:
                fails, _ = cache_trial(ops, sch)
            except sched.Deadlock as e:
                fails = [dict(clause="no-deadlock", error=str(e))]
            chk.case(["cache", ops, sch], sample=dict(cache_ops=ops, schedule=sch[:4]))
            chk.count("cache-ops:" + "+".join(o[0] for o in ops))
            if fails and reported < 8:
                p = chk.violation({"what": "memory cache under interleaving: %s" % fails[0]["clause"], "class": {"clause": fails[0]["clause"], "family": "B"},
                                   "family": "B", "ops": ops, "schedule": sch, "observed": fails[:2]})
                reported += bool(p)


if __name__ == "__main__":
    sys.exit(run_check(PROP, main, sys.argv[1:]))
