"""memento functions referenced by the codec check (C11).

Recorders live in an instance of a plain class (not a tracked global: see mfns.py)."""
from twosigma.memento import memento_function
from twosigma.memento.result import KeyOverrideResult


class _Rec:
    def __init__(self):
        self.calls = []


REC = _Rec()


@memento_function(version="1")
def target(x, y):
    return 0


@memento_function(version="1")
def one(a):
    return [a]


@memento_function(version="1")
def three(a, b, c):
    return None


@memento_function(version="1")
def kwo(a, *, k, m=None):
    return {"a": a}


@memento_function(cluster="vc", version="1")
def clustered(x):
    return x


@memento_function(version="v:2")
def colon_version(p, q):
    return p


@memento_function(version="core::v2")
def dcolon_version(p, q):          # a version string may itself contain the cluster separator
    return p


@memento_function(version="lib::rel:7")
def dcolon_version2(p):
    return p


@memento_function
def auto_version(n):
    return n


# ---- functions that are really called against a filesystem store (stream "fs-files") ----------

@memento_function
def leaf(v, w=None):
    return v


@memento_function
def mid(v, f=None):
    return [leaf(v), leaf(v, w=[v, {"k": v}])]


@memento_function
def top(a, b, when=None, fn=None):
    return [mid(a), mid(b, f=fn), leaf(when)]


@memento_function
def keyed(year, quarter):
    return KeyOverrideResult(result="report %s q%s" % (year, quarter), key_override="reports/%s#q%s" % (year, quarter))


@memento_function
def failing(x):
    raise ValueError("boom %r" % (x,))


LOCAL = {  # name -> (function, parameter names)
    "target": (target, ["x", "y"]), "one": (one, ["a"]), "three": (three, ["a", "b", "c"]),
    "kwo": (kwo, ["a", "k", "m"]), "clustered": (clustered, ["x"]), "colon_version": (colon_version, ["p", "q"]),
    "auto_version": (auto_version, ["n"]), "dcolon_version": (dcolon_version, ["p", "q"]), "dcolon_version2": (dcolon_version2, ["p"]),
}
