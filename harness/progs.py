"""Abstract first-order memento programs (same syntax as Lean `Memento.Runner.FnDef`), their rendering
to real Python packages, and a world that runs top-level operations on the real library and on
the Lean model (`mmodel runner`).

program = {"fns": {id: {"explicit": bool, "stmts": [...], "raise": [mod, rem, cls, msg], "const": int}}}
stmt    = ["call", g, off, ctx, ignore, prevent, catch, hidden, guard] | ["batch", g, [offs], ctx, ignore, prevent, raise_first, hidden, guard]
          (ignore: bit 0 = ignore_result(), bit 1 = force_local() — the latter has no effect on a local runner and is not sent to the model)
          | ["res", h]            ctx = "i" (inherit) | int (0 = with_context_args({}));  guard = [m, r]: only when a % m == r ([0,0] = always)
Functions only call functions with a smaller id (call DAG), so every run terminates.
"""
import importlib
import os
import re
import shutil
import sys
import tempfile

from common import Model

CLS = {"Coded": 5, "ValueError": 0, "Opaque": 1, "NonMemoizedException": 2, "UndeclaredDependencyError": 7, "RuntimeError": 8,
       "MementoException": 9}


class Recorder:
    """execution recorder shared with the generated modules (instance of a plain class: untracked)"""

    def __init__(self):
        self.calls = []

    def enter(self, name, kwargs):
        ctx = None
        try:
            from twosigma.memento.call_stack import CallStack
            fr = CallStack.get().get_calling_frame()
            ca = fr.memento.invocation_metadata.fn_reference_with_args.context_args
            ctx = ctx_id(ca)
        except Exception:
            ctx = None
        self.calls.append((int(name[1:]), dict(kwargs), ctx))


REC = Recorder()


def ctx_id(ca):
    if not ca:
        return 0
    return int(ca.get("k", -1))


def cls_of(e):
    # two rebuildable classes that share their name ("Error") but live in different modules
    if type(e).__name__ == "Error":
        return {"shutil": 3, "configparser": 4}.get(type(e).__module__, 98)
    if type(e).__name__ == "NmSub":       # a subclass of NonMemoizedException is just as non-memoized
        return 2
    return CLS.get(type(e).__name__, 99)


def handler_cls(e):
    """what a handler in a generated body may depend on: opaque exceptions and their replayed form look alike"""
    c = cls_of(e)
    return 9 if c == 1 else c


# messages carry text that means something to str.format / %-formatting / JSON: replaying must preserve it literally
MSG_TAILS = ["", " {k} {0}", " 100% }{", ' {"id": 1, "tags": ["a"]}', " r\udce9sum\udce9.csv \u00e9\u20ac"]   # (4: lone surrogates, as os.fsdecode makes them)


def msg_text(msg):
    return "zq%dzq%s" % (msg, MSG_TAILS[msg % len(MSG_TAILS)])


def msg_of(e):
    # (the message proper: a replayed exception appends the original stack trace, which quotes the original text too)
    text = str(e).split(". Original stack trace follows")[0]
    m = re.search(r"zq(\d+)zq", text)
    if not m:
        return 0
    n = int(m.group(1))
    # the text after the marker must be the original one (a replayed exception may append its stack-trace note)
    tail = MSG_TAILS[n % len(MSG_TAILS)]
    rest = text[m.end():]
    # (an exception with several arguments prints the repr of its argument tuple: the text appears in its escaped form)
    if not (rest.startswith(tail) or rest.startswith(repr(tail)[1:-1])):
        return 990000 + n
    return n


def sum_slots(rs):
    s = 0
    for r in rs:
        if isinstance(r, Exception):
            s += -500
        elif r is not None:
            s += r
    return s


def show_outcome_value(v):
    return "v:None" if v is None else "v:%d" % v


def show_exc(e):
    return "x:%d:%d" % (cls_of(e), msg_of(e))


# ------------------------------------------------------------------------------------------------
# generation
# ------------------------------------------------------------------------------------------------

def gen_program(rng, nfns=None, ctx_rate=0.25, exc_rate=0.3, batch_rate=0.25, hidden_rate=0.06, res_rate=0.15,
                flag_rate=0.1, prevent_rate=0.0, guard_rate=0.25):
    nfns = nfns or rng.randint(2, 6)
    fns = {}
    for f in range(1, nfns + 1):
        stmts = []
        if f > 1:
            for _ in range(rng.randint(0, 3)):
                g = rng.randint(1, f - 1)
                ctx = "i"
                if rng.random() < ctx_rate:
                    ctx = rng.choice([0, 1, 2])
                ign = int(rng.random() < flag_rate) + (2 if rng.random() < flag_rate else 0)
                prev = rng.random() < prevent_rate
                hidden = rng.random() < hidden_rate
                guard = [2, rng.choice([0, 1])] if rng.random() < guard_rate else [0, 0]
                if rng.random() < batch_rate:
                    offs = [rng.choice([0, 0, 1, 2]) for _ in range(rng.randint(0, 3))]
                    stmts.append(["batch", g, offs, ctx, ign, prev, rng.random() < 0.3, hidden, guard])
                else:
                    stmts.append(["call", g, rng.choice([0, 0, 1, 2]), ctx, ign, prev, rng.random() < 0.5, hidden, guard])
                if rng.random() < res_rate:
                    stmts.append(["res", rng.randint(1, 3)])
        rs = [0, 0, 0, 0]
        if rng.random() < exc_rate:
            rs = [rng.choice([2, 3]), rng.choice([0, 1]), rng.choice([0, 0, 1, 2, 3, 4, 5]), rng.randint(1, 9)]
        fns[f] = dict(explicit=rng.random() < 0.15, stmts=stmts, const=rng.randint(0, 9))
        fns[f]["raise"] = rs
    return dict(fns=fns)


def fix(prog):
    """programs loaded from JSON have string keys"""
    prog["fns"] = {int(k): v for k, v in prog["fns"].items()}
    return prog


def declared_pairs(prog):
    """(f, g): g reachable from f through visible (non-hidden) references"""
    fix(prog)
    vis = {f: {s[1] for s in d["stmts"] if s[0] in ("call", "batch") and not s[7]} for f, d in prog["fns"].items()}
    out = set()
    for f in vis:
        seen, todo = set(), list(vis[f])
        while todo:
            g = todo.pop()
            if g in seen:
                continue
            seen.add(g)
            todo += list(vis.get(g, ()))
        out |= {(f, g) for g in seen}
    return sorted(out)


def model_lines(prog):
    fix(prog)
    lines = ["reset"]
    for f, d in sorted(prog["fns"].items()):
        r = d["raise"]
        lines.append("fn %d %d %d %d %d %d %d" % (f, int(d["explicit"]), r[0], r[1], r[2], r[3], d["const"]))
        for s in d["stmts"]:
            if s[0] == "call":
                lines.append("st %d call %d %d %s %d %d %d %d %d" % (f, s[1], s[2], s[3], int(s[4]) & 1, int(s[5]), int(s[6]), s[8][0], s[8][1]))
            elif s[0] == "batch":
                lines.append("st %d batch %d %s %s %d %d %d %d %d" % (f, s[1], ",".join(map(str, s[2])) or "-", s[3], int(s[4]) & 1,
                                                                     int(s[5]), int(s[6]), s[8][0], s[8][1]))
            else:
                lines.append("st %d res %d" % (f, s[1]))
    for f, g in declared_pairs(prog):
        lines.append("decl %d %d" % (f, g))
    return lines


# ------------------------------------------------------------------------------------------------
# rendering to a real module
# ------------------------------------------------------------------------------------------------

def _target(g, ctx, ign, prev, hidden):
    t = 'globals()["f%d"]' % g if hidden else "f%d" % g
    if ctx != "i":
        t += ".with_context_args(%s)" % ("{}" if ctx == 0 else '{"k": %d}' % ctx)
    if int(ign) & 1:
        t += ".ignore_result()"
    if int(ign) & 2:
        t += ".force_local()"
    if prev:
        t += ".with_prevent_further_calls(True)"
    return t


def render(prog, modname):
    fix(prog)
    L = ["from twosigma.memento import memento_function",
         "from twosigma.memento.exception import NonMemoizedException",
         "from twosigma.memento.resource import ResourceHandle",
         "from twosigma.memento.resource_function import resource_function",
         "import progs",
         "import shutil",
         "import configparser",
         "",
         "class Opaque(Exception):",
         "    def __init__(self, a, b):",
         "        super().__init__(a, b)",
         "",
         "class NmSub(NonMemoizedException):",
         "    pass",
         "",
         "class Coded(Exception):",
         "    # an exception whose text is not its argument: raised with a code, it prints the message the code stands for",
         "    def __str__(self):",
         "        a = str(self.args[0]) if self.args else ''",
         "        return progs.msg_text(int(a)) if a.isdigit() else a",
         "",
         "@resource_function(resource_type='vres')        # (the documented way: the type is registered with the library)",
         "def vres(url):",
         "    return ResourceHandle('vres', url, '1')",
         ""]
    for f, d in sorted(prog["fns"].items()):
        ver = ', version="e%d"' % f if d["explicit"] else ""
        L.append('@memento_function(cluster="cp"%s)' % ver)
        L.append("def f%d(a):" % f)
        L.append('    progs.REC.enter("f%d", dict(a=a))' % f)
        L.append("    s = 0")
        for st in d["stmts"]:
            if st[0] == "res":
                L.append('    vres("r%d")' % st[1])
            elif st[0] == "call":
                _, g, off, ctx, ign, prev, catch, hidden, guard = st
                ind = "    "
                if guard[0]:
                    L.append("    if a >= 0 and a %% %d == %d:" % (guard[0], guard[1]))
                    ind = "        "
                call = "%s(a + %d)" % (_target(g, ctx, ign, prev, hidden), off)
                if catch:
                    L += [ind + "try:", ind + "    _r = %s" % call, ind + "    s += 0 if _r is None else _r",
                          ind + "except Exception as _e:", ind + "    s += -1000 - progs.handler_cls(_e)"]
                else:
                    L += [ind + "_r = %s" % call, ind + "s += 0 if _r is None else _r"]
            else:
                _, g, offs, ctx, ign, prev, rf, hidden, guard = st
                ind = "    "
                if guard[0]:
                    L.append("    if a >= 0 and a %% %d == %d:" % (guard[0], guard[1]))
                    ind = "        "
                L.append(ind + "_rs = %s.call_batch([{'a': a + o} for o in %r], raise_first_exception=%s)" % (
                    _target(g, ctx, ign, prev, hidden), tuple(offs), "True" if rf else "False"))
                L.append(ind + "s += progs.sum_slots(_rs)")
        m, r, cls, msg = d["raise"]
        if m:
            t = repr(msg_text(msg))
            exc = {0: 'ValueError(%s)' % t, 1: 'Opaque(%s, 1)' % t, 2: '%s(%s)' % ("NmSub" if msg % 2 else "NonMemoizedException", t),
                   3: 'shutil.Error(%s)' % t, 4: 'configparser.Error(%s)' % t, 5: 'Coded("%d")' % msg}[cls]
            L += ["    if a >= 0 and a %% %d == %d:" % (m, r), "        raise %s" % exc]
        L.append("    return s + %d + 10 * a" % d["const"])      # the value depends on the argument
        L.append("")
    return "\n".join(L) + "\n"


_counter = [0]


class RunWorld:
    """a rendered program + an environment (cluster "cp") + the model"""

    def __init__(self, prog, backend="memory", root=None, use_model=True, budget_mb=None):
        import twosigma.memento as m
        from twosigma.memento import Environment, ConfigurationRepository, FunctionCluster
        from twosigma.memento.storage_memory import MemoryStorageBackend
        from twosigma.memento.storage_filesystem import FilesystemStorageBackend
        self.m = m
        self.prog = prog
        self.backend = backend
        self.budget_mb = budget_mb
        _counter[0] += 1
        self.modname = "cp_%d_%d" % (os.getpid(), _counter[0])
        self.dir = tempfile.mkdtemp(prefix="cprog_", dir=root)
        with open(os.path.join(self.dir, self.modname + ".py"), "w") as f:
            f.write(render(prog, self.modname))
        sys.path.insert(0, self.dir)
        self.mod = importlib.import_module(self.modname)
        sys.path.remove(self.dir)
        self.orig_env = m.Environment.get()
        if backend == "memory":
            st = MemoryStorageBackend()
        else:
            kw = {}
            if backend == "fs+cache":
                kw["memory_cache_mb"] = budget_mb or 0.002
            st = FilesystemStorageBackend(path=os.path.join(self.dir, "store"), **kw)
        self.storage = st
        self.env = Environment(name="cp", base_dir=self.dir, repos=[
            ConfigurationRepository(name="r", clusters={"cp": FunctionCluster(name="cp", storage=st)})])
        m.Environment.set(self.env)
        self.model = Model("runner") if use_model else None
        if self.model:
            for ln in model_lines(prog):
                self.model.send(ln)

    def reopen(self):
        """a new session on the same store: a fresh backend object (empty memory cache) on the same directory"""
        from twosigma.memento import Environment, ConfigurationRepository, FunctionCluster
        from twosigma.memento.storage_filesystem import FilesystemStorageBackend
        if self.backend == "memory":
            return
        kw = {}
        if self.backend == "fs+cache":
            kw["memory_cache_mb"] = self.budget_mb or 0.002
        self.storage = FilesystemStorageBackend(path=os.path.join(self.dir, "store"), **kw)
        self.env = Environment(name="cp", base_dir=self.dir, repos=[
            ConfigurationRepository(name="r", clusters={"cp": FunctionCluster(name="cp", storage=self.storage)})])
        self.m.Environment.set(self.env)

    def activate(self):
        """the environment is process-global: several worlds may be alive at once, each op runs in its own"""
        if self.m.Environment.get() is not self.env:
            self.m.Environment.set(self.env)

    def close(self):
        self.m.Environment.set(self.orig_env)
        if self.model:
            self.model.close()
        sys.modules.pop(self.modname, None)
        shutil.rmtree(self.dir, ignore_errors=True)

    # -- real side -----------------------------------------------------------------------------
    def fn(self, f, ctx="i", ign=False, prev=False):
        self.activate()
        fn = getattr(self.mod, "f%d" % f)
        if ctx != "i":
            fn = fn.with_context_args({} if ctx == 0 else {"k": ctx})
        if int(ign) & 1:
            fn = fn.ignore_result()
        if int(ign) & 2:
            fn = fn.force_local()
        if prev:
            fn = fn.with_prevent_further_calls(True)
        return fn

    @staticmethod
    def trace():
        return [(f, kw.get("a"), c) for (f, kw, c) in REC.calls]

    def show_trace(self, with_ctx=True):
        return "[" + ",".join("%d:%d:%s" % (f, a, c if with_ctx else "?") for (f, a, c) in self.trace()) + "]"

    def op(self, op):
        """op = ["call", f, a, ctx, ign, prev] | ["batch", f, [a..], ctx, ign, prev, rf] | ["forget", f, a, c]
                | ["memento", f, a, c] ; returns (real canonical line, model canonical line)"""
        k = op[0]
        self.activate()
        REC.calls.clear()
        if k == "call":
            _, f, a, ctx, ign, prev = op
            try:
                out = show_outcome_value(self.fn(f, ctx, ign, prev)(a))
            except Exception as e:
                out = show_exc(e)
            real = out + " execs=" + self.show_trace()
            line = "call %d %d %s %d %d" % (f, a, ctx, int(ign) & 1, int(prev))
        elif k == "batch":
            _, f, args, ctx, ign, prev, rf = op
            try:
                rs = self.fn(f, ctx, ign, prev).call_batch([{"a": x} for x in args], raise_first_exception=bool(rf))
                out = "[" + " ".join(show_exc(r) if isinstance(r, Exception) else show_outcome_value(r) for r in rs) + "]"
            except Exception as e:
                out = "raised " + show_exc(e)
            real = out + " execs=" + self.show_trace()
            line = "batch %d %s %s %d %d %d" % (f, ",".join(map(str, args)) or "-", ctx, int(ign) & 1, int(prev), int(rf))
        elif k == "forget":
            _, f, a, c = op
            self.fn(f, c).forget(a)
            real = "ok"
            line = "forget %d %d %d" % (f, a, c)
        elif k == "memento":
            _, f, a, c = op
            try:
                mm = self.fn(f, c).memento(a)
                real = self.show_memento(mm)
            except Exception as e:
                real = "err:" + type(e).__name__
            line = "memento %d %d %d" % (f, a, c)
        else:
            raise ValueError(op)
        mout = None
        if self.model:
            mout = self.model.send(line)
            if k == "memento" and mout and " out=" in mout:
                mout = mout.split(" out=")[0]
        return real, mout

    def show_memento(self, mm):
        if mm is None:
            return "none"
        im = mm.invocation_metadata
        invs = []
        for fr in im.invocations:
            name = fr.fn_reference.function_name
            invs.append("%d:%d:%d" % (int(name[1:]), fr.effective_kwargs.get("a"), ctx_id(fr.context_args)))
        res = [h.url[1:] for h in im.resources]
        deps = sorted(int(r.function_name[1:]) for r in mm.function_dependencies)
        return "invs=[" + ",".join(invs) + "] res=[" + ",".join(res) + "] deps=[" + ",".join(map(str, deps)) + "]"

    def unmemoized(self, f, a, ctx="i", ign=False, prev=False):
        """the property's reference: the same call on a null storage (nothing found, nothing kept)"""
        from twosigma.memento import Environment, ConfigurationRepository, FunctionCluster
        from twosigma.memento.storage_null import NullStorageBackend
        self.activate()
        cur = self.m.Environment.get()
        self.m.Environment.set(Environment(name="cpn", base_dir=self.dir, repos=[
            ConfigurationRepository(name="r", clusters={"cp": FunctionCluster(name="cp", storage=NullStorageBackend())})]))
        saved = list(REC.calls)
        try:
            try:
                return show_outcome_value(self.fn(f, ctx, ign, prev)(a))
            except Exception as e:
                return show_exc(e)
        finally:
            REC.calls[:] = saved
            self.m.Environment.set(cur)


def norm_exc(s):
    """opaque exceptions are replayed as MementoException: identify the two for transparency"""
    return re.sub(r"x:1:", "x:9:", s)
