"""Real memento functions and memento builders used by the storage-level harnesses.

Counters live in an instance of a plain class (memento cannot serialise it, so it is not
tracked as a global variable and does not influence versions).
"""
import datetime

from twosigma.memento import memento_function, Memento, InvocationMetadata
from twosigma.memento.metadata import ResultType
from twosigma.memento.reference import FunctionReference, FunctionReferenceWithArguments


class _Rec:
    """execution recorder (an instance of a plain class: not a tracked global variable)"""

    def __init__(self):
        self.calls = []


REC = _Rec()


@memento_function(version="1")
def fa(x):
    return x


@memento_function(version="1")
def fb(x):
    return x


@memento_function(cluster="vc", version="1")
def ga(x):
    REC.calls.append(("ga", x))
    return x


@memento_function(cluster="vc", version="1")
def gb(x):
    REC.calls.append(("gb", x))
    return [x, "gb"]


@memento_function(cluster="vc", version="1")
def gx(x):
    REC.calls.append(("gx", x))
    raise ValueError("gx fails for %d" % x)


@memento_function(cluster="vc", version="1")
def gcatch(x):
    REC.calls.append(("gcatch", x))
    try:
        gx(x)
    except ValueError:
        return "caught"
    return "not-raised"


@memento_function(cluster="vc", version="1")
def gp(x):
    """a result staged on disk while the body runs"""
    from twosigma.memento.storage_filesystem import OnDiskPartition
    REC.calls.append(("gp", x))
    p = OnDiskPartition()
    p["a"] = [x, "a"]
    p["b"] = bytes(range(200)) * 4
    return p


@memento_function(cluster="vl", version="1")
def outer_local(x):
    """a function of an ordinary (local runner) cluster whose body calls functions of the cluster "vc"""
    REC.calls.append(("outer_local", x))
    return [ga(x), gb(x + 1), ga.call_batch([{"x": x + 2}])]


def fn_ref(fn, version=None):
    """reference to `fn` under an arbitrary version string (a non-current one decodes as external)"""
    if version is None:
        return fn.fn_reference()
    return FunctionReference(fn, cluster_name=fn.cluster_name, version=version)


def with_args(ref, arg):
    return FunctionReferenceWithArguments(ref, (arg,), {})


def make_memento(ref_with_args, result_type=ResultType.number, content_key=None, seq=0):
    now = datetime.datetime(2024, 1, 1, tzinfo=datetime.timezone.utc) + datetime.timedelta(seconds=seq)
    return Memento(
        time=now,
        invocation_metadata=InvocationMetadata(
            runtime=datetime.timedelta(seconds=1.0),
            fn_reference_with_args=ref_with_args,
            result_type=result_type,
            invocations=[],
            resources=[],
        ),
        function_dependencies={ref_with_args.fn_reference},
        runner={},
        correlation_id="cid%d" % seq,
        content_key=content_key,
    )
