"""Child process for the versioning checks. Usage: vchild.py '<json spec>'
spec = {root, pkg, store|null, actions: [...]}. Prints one JSON list (one entry per action).
"""
import importlib
import json
import linecache
import logging
import os
import sys


def main():
    spec = json.loads(sys.argv[1])
    sys.path.insert(0, os.path.dirname(os.path.abspath(__file__)))
    sys.path.insert(0, spec["root"])
    import twosigma.memento as m
    logging.getLogger("memento").setLevel(logging.CRITICAL + 1)
    from twosigma.memento import Environment, ConfigurationRepository, FunctionCluster
    from twosigma.memento.storage_filesystem import FilesystemStorageBackend
    from twosigma.memento.storage_null import NullStorageBackend
    from twosigma.memento.types import MementoFunctionType
    import vrec

    def env(storage):
        return Environment(name="vp", base_dir=spec["root"], repos=[
            ConfigurationRepository(name="r", clusters={"vp": FunctionCluster(name="vp", storage=storage),
                                                        # a second cluster without functions (C13 locks it: nothing may freeze)
                                                        "vq": FunctionCluster(name="vq", storage=NullStorageBackend())})])

    real_store = FilesystemStorageBackend(path=spec["store"]) if spec.get("store") else NullStorageBackend()
    m.Environment.set(env(real_store))
    pkg = spec["pkg"]
    mods = {}
    objs = {}          # extra objects created by actions (clones, wrappers)
    out = []
    nexec = [0]

    def module(where):
        if where not in mods:
            mods[where] = importlib.import_module(pkg + "." + where)
        return mods[where]

    def lookup(name):
        if name in objs:
            return objs[name]
        for w in ("mod", "aux"):
            mod = module(w)
            if hasattr(mod, name):
                return getattr(mod, name)
        raise KeyError(name)

    def jsonable(v):
        """canonical, order-independent, JSON-able rendering of a result (dict insertion order is not part of a value)"""
        if isinstance(v, dict):
            return {"__dict__": sorted([[jsonable(k), jsonable(x)] for k, x in v.items()], key=lambda kv: json.dumps(kv[0], sort_keys=True))}
        if isinstance(v, (list, tuple)):
            return [jsonable(x) for x in v]
        if isinstance(v, (set, frozenset)):
            return {"__set__": sorted((jsonable(x) for x in v), key=lambda x: json.dumps(x, sort_keys=True))}
        if isinstance(v, complex):
            return {"__complex__": [v.real, v.imag]}
        try:
            json.dumps(v)
            return v
        except TypeError:
            return repr(v)

    def call(fn, x):
        vrec.REC.calls.clear()
        try:
            r = ["ok", jsonable(fn(x))]
        except Exception as e:
            r = ["raise", type(e).__name__, str(e)[:120]]
        return dict(result=r, trace=list(vrec.REC.calls))

    for act in spec["actions"]:
        k = act[0]
        try:
            if k == "import":
                # optional argument: import an unrelated module (one more memento function) before / after
                when = act[1] if len(act) > 1 else None
                if when == "other-first":
                    module("other")
                if isinstance(when, list):
                    # an explicit import order of the package's modules (circular imports, plug-in modules)
                    for w in when:
                        module(w)
                module("aux")
                module("mod")
                if when == "other-last":
                    module("other")
                out.append("ok")
            elif k == "versions":
                res = {}
                names = act[1] if len(act) > 1 else None
                cands = dict(objs)
                for w in ("aux", "mod"):
                    for n, o in vars(module(w)).items():
                        if isinstance(o, MementoFunctionType) and not n.startswith("a_") and n != "unrelated":
                            cands.setdefault(n, o)
                for n, o in cands.items():
                    if names is not None and n not in names:
                        continue
                    if not isinstance(o, MementoFunctionType):
                        continue
                    try:
                        res[n] = o.version()
                        # the reference the function is stored and looked up under carries the same version
                        qn = o.fn_reference().qualified_name
                        if not qn.endswith("#" + res[n]):
                            res[n] = "err:stale-reference:" + qn.rsplit("#", 1)[-1] + "!=" + res[n]
                    except Exception as e:
                        res[n] = "err:" + type(e).__name__
                out.append(res)
            elif k == "rules":
                # diagnostic: the rule set behind a function's version
                f = lookup(act[1])
                f.version()
                out.append(sorted(r.describe().split(" {")[0] for r in f.hash_rules()))
            elif k == "deps":
                f = lookup(act[1])
                g = f.dependencies()
                short = lambda fn: fn.qualified_name_without_version.split(":")[-1]
                df = g.df()
                edges = sorted([[r["src"].split(":")[-1], r["target"].split(":")[-1]] for _, r in df.iterrows()]) if df is not None else []
                out.append(dict(trans=sorted(short(x) for x in g.transitive_memento_fn_dependencies()),
                                direct=sorted(short(x) for x in g.direct_memento_fn_dependencies()), edges=edges))
            elif k == "call":
                out.append(call(lookup(act[1]), act[2]))
            elif k == "unmemo":
                cur = m.Environment.get()
                m.Environment.set(env(NullStorageBackend()))
                try:
                    out.append(call(lookup(act[1]), act[2]))
                finally:
                    m.Environment.set(cur)
            elif k == "exec":
                where, src = act[1], act[2]
                nexec[0] += 1
                fname = "<vexec-%d>" % nexec[0]
                linecache.cache[fname] = (len(src), None, src.splitlines(True), fname)
                code = compile(src, fname, "exec")
                exec(code, vars(module(where)))
                out.append("ok")
            elif k == "setvar":
                setattr(module(act[1]), act[2], eval(act[3]))
                out.append("ok")
            elif k == "bind":
                setattr(module(act[1]), act[2], lookup(act[3]))
                out.append("ok")
            elif k == "callargs":
                # call a function with explicit args given as python expressions evaluated in the module namespace
                fn = lookup(act[1])
                ns = dict(vars(module("mod")))
                args = [eval(a, ns) for a in act[2]]
                vrec.REC.calls.clear()
                try:
                    r = ["ok", jsonable(fn(*args))]
                except Exception as e:
                    r = ["raise", type(e).__name__, str(e)[:120]]
                out.append(dict(result=r, trace=list(vrec.REC.calls)))
            elif k == "delvar":
                if hasattr(module(act[1]), act[2]):
                    delattr(module(act[1]), act[2])
                out.append("ok")
            elif k == "mutate":
                v = getattr(module(act[1]), act[2])
                if isinstance(v, list):
                    v.append(act[3])
                elif isinstance(v, dict):
                    v["k%s" % act[3]] = act[3]
                out.append("ok")
            elif k == "clone":
                base = lookup(act[2])
                how = act[3]
                if how == "partial":
                    objs[act[1]] = base.partial()
                elif how == "ignore":
                    objs[act[1]] = base.ignore_result()
                elif how == "ctx":
                    objs[act[1]] = base.with_context_args({"k": 1})
                elif how == "force_local":
                    objs[act[1]] = base.force_local()
                out.append("ok")
            elif k == "wrapper":
                # an unregistered MementoFunction around the same plain function
                from twosigma.memento.memento import MementoFunction
                base = lookup(act[2])
                objs[act[1]] = MementoFunction(fn=base.fn, cluster_name="vp", version=base.explicit_version, register_fn=False)
                out.append("ok")
            elif k == "lock":
                m.Environment.get().get_cluster(act[2] if len(act) > 2 else "vp").locked = bool(act[1])
                out.append("ok")
            else:
                out.append("bad-action")
        except Exception as e:
            out.append(dict(error=type(e).__name__, message=str(e)[:200]))
    sys.stdout.write(json.dumps(out) + "\n")


if __name__ == "__main__":
    main()
