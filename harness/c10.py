"""C10 — provenance is exact and independent of what was already memoized.

Lean: Props/C10.lean on Model/Runner.lean. Correspondence: the record `memento(...)` returns for a
root call (direct invocations in order with argument identity and context, resource handles,
dependency set) vs the model's record. Oracle: the record is identical for every subset of the
sub-calls memoized beforehand (all 2^n subsets for n <= 6 in the thorough tier), identical for a
single call and for a batch containing it, and identical on every backend.
"""
import itertools
import os
import shutil
import tempfile
import json
import sys

import common
from common import run_check
import progs

PROP = "C10"


def record_for(prog, backend, pre, root, via_batch, use_model, root_dir, also=()):
    """fresh world; memoize `pre` keys (top-level calls); call root; return (record, model record, trace keys).
    `also`: keys of sub-calls whose own records are appended to the root's (they must be store-independent too)"""
    w = progs.RunWorld(prog, backend=backend, root=root_dir, use_model=use_model)
    try:
        for (f, a, c) in pre:
            w.op(["call", f, a, c if c else "i", False, False])
        f, a, c = root
        if via_batch:
            w.op(["batch", f, [a + 1, a, a], c if c else "i", False, False, False])
        else:
            w.op(["call", f, a, c if c else "i", False, False])
        tr = [(x[0], x[1], x[2] or 0) for x in w.trace()]
        real, mout = w.op(["memento", f, a, c])
        for (g, b, d) in also:
            r2, m2 = w.op(["memento", g, b, d])
            real += " || %s(%s,%s): %s" % (g, b, d, r2)
            if mout is not None:
                mout += " || %s(%s,%s): %s" % (g, b, d, m2)
        return real, mout, tr
    finally:
        w.close()


MUT_SRC = """from twosigma.memento import memento_function


@memento_function(cluster="cp")
def total(xs, tag=None):
    return [sum(xs), len(xs), tag]


@memento_function(cluster="cp")
def collect(n):
    xs = []
    opts = {"k": 0}
    out = []
    for i in range(n):
        xs.append(i)                 # the same list object is passed again and again and changed in between
        opts["k"] = i
        out.append(total(xs, tag=opts))
    return out
"""


def mutable_args_scenario(chk):
    """the body passes one mutable object to several sub-calls and changes it in between: each recorded invocation carries the
    argument values of *its* call. Checked against the argument hashes of independent copies, cold and with sub-calls
    memoized beforehand, on both backends."""
    import importlib
    import linecache
    import types
    import twosigma.memento as m
    from twosigma.memento import Environment, ConfigurationRepository, FunctionCluster
    from twosigma.memento.storage_memory import MemoryStorageBackend
    from twosigma.memento.storage_filesystem import FilesystemStorageBackend
    prev = m.Environment.get()
    fails = []
    try:
        for backend in ("fs", "memory"):
            for pre in ([], [1], [0, 2]):
                d = tempfile.mkdtemp(prefix="c10m_", dir=chk.tmpdir())
                st = MemoryStorageBackend() if backend == "memory" else FilesystemStorageBackend(path=os.path.join(d, "s"))
                m.Environment.set(Environment(name="cp", base_dir=d, repos=[ConfigurationRepository(name="r", clusters={"cp": FunctionCluster(name="cp", storage=st)})]))
                _mut_n[0] += 1
                modname = "c10mut_%d_%d" % (os.getpid(), _mut_n[0])
                fname = "<%s>" % modname
                linecache.cache[fname] = (len(MUT_SRC), None, MUT_SRC.splitlines(True), fname)
                mod = types.ModuleType(modname)
                sys.modules[modname] = mod
                exec(compile(MUT_SRC, fname, "exec"), mod.__dict__)
                try:
                    want = [mod.total.fn_reference().with_args(list(range(i + 1)), tag={"k": i}).arg_hash for i in range(3)]
                    for i in pre:
                        mod.total(list(range(i + 1)), tag={"k": i})
                    mod.collect(3)
                    got = [inv.arg_hash for inv in mod.collect.memento(3).invocation_metadata.invocations]
                    # a reader that decodes the stored record from scratch must see the same
                    if backend == "fs":
                        st2 = FilesystemStorageBackend(path=os.path.join(d, "s"))
                        m.Environment.set(Environment(name="cp", base_dir=d, repos=[ConfigurationRepository(name="r", clusters={"cp": FunctionCluster(name="cp", storage=st2)})]))
                        got2 = [inv.arg_hash for inv in mod.collect.memento(3).invocation_metadata.invocations]
                    else:
                        got2 = got
                    chk.case(["mutable-arguments", backend, pre], nontrivial=True, sample=dict(kind="mutable arguments", backend=backend, pre=pre))
                    chk.count("mode:mutable-arguments")
                    if got != want or got2 != want:
                        fails.append(dict(clause="provenance-exact", scenario="mutable-arguments", backend=backend, pre=pre,
                                          recorded=[h[:12] for h in got], reread=[h[:12] for h in got2], expected=[h[:12] for h in want]))
                finally:
                    sys.modules.pop(modname, None)
                    shutil.rmtree(d, ignore_errors=True)
    finally:
        m.Environment.set(prev)
    return fails


TYPED_SRC = """import datetime
from twosigma.memento import memento_function


@memento_function(cluster="cp")
def scale(a, x, unit="u"):
    return [a, x, unit]


@memento_function(cluster="cp")
def price(ts):
    return ts.isoformat()


@memento_function(cluster="cp")
def report(x):
    out = [scale.partial(a=1)(x), scale.partial(a=2)(x), scale.partial(1, unit="m")(x), scale(3, x)]
    out += scale.partial(a=4).call_batch([{"x": x}, {"x": x + 1}])
    tz = datetime.timezone(datetime.timedelta(hours=5, minutes=30))
    base = datetime.datetime(2024, 3, 1, 9, 30, tzinfo=tz)
    out += [price(base), price(base + datetime.timedelta(hours=1)), price(datetime.datetime(2024, 3, 1, 9, 30)),
            price(datetime.date(2024, 3, 1)), price(datetime.datetime(2024, 3, 1, 4, 0, tzinfo=datetime.timezone.utc))]
    return out
"""


def typed_args_scenario(chk):
    """sub-calls through differently bound partial applications of one function, and with date / naive / zone-aware
    timestamp arguments: every recorded invocation carries the identity (function, argument hash) of *its* call, cold and
    with sub-calls memoized beforehand, as recorded and as re-read by a backend object that decodes the stored record."""
    import datetime
    import linecache
    import types
    import twosigma.memento as m
    from twosigma.memento import Environment, ConfigurationRepository, FunctionCluster
    from twosigma.memento.storage_memory import MemoryStorageBackend
    from twosigma.memento.storage_filesystem import FilesystemStorageBackend
    prev = m.Environment.get()
    fails = []
    try:
        for backend in ("fs", "memory", "fs+cache"):
            for pre in ([], [0, 1, 6], list(range(11))):
                d = tempfile.mkdtemp(prefix="c10t_", dir=chk.tmpdir())

                def mk():
                    if backend == "memory":
                        return MemoryStorageBackend()
                    return FilesystemStorageBackend(path=os.path.join(d, "s"), **({"memory_cache_mb": 1} if backend == "fs+cache" else {}))
                st = mk()
                m.Environment.set(Environment(name="cp", base_dir=d, repos=[ConfigurationRepository(name="r", clusters={"cp": FunctionCluster(name="cp", storage=st)})]))
                _mut_n[0] += 1
                modname = "c10typ_%d_%d" % (os.getpid(), _mut_n[0])
                fname = "<%s>" % modname
                linecache.cache[fname] = (len(TYPED_SRC), None, TYPED_SRC.splitlines(True), fname)
                mod = types.ModuleType(modname)
                sys.modules[modname] = mod
                exec(compile(TYPED_SRC, fname, "exec"), mod.__dict__)
                try:
                    x = 5
                    tz = datetime.timezone(datetime.timedelta(hours=5, minutes=30))
                    base = datetime.datetime(2024, 3, 1, 9, 30, tzinfo=tz)
                    calls = [(mod.scale.partial(a=1), (x,)), (mod.scale.partial(a=2), (x,)), (mod.scale.partial(1, unit="m"), (x,)), (mod.scale, (3, x)),
                             (mod.scale.partial(a=4), (x,)), (mod.scale.partial(a=4), (x + 1,)),
                             (mod.price, (base,)), (mod.price, (base + datetime.timedelta(hours=1),)), (mod.price, (datetime.datetime(2024, 3, 1, 9, 30),)),
                             (mod.price, (datetime.date(2024, 3, 1),)), (mod.price, (datetime.datetime(2024, 3, 1, 4, 0, tzinfo=datetime.timezone.utc),))]
                    want = [(f.fn_reference().qualified_name, f.fn_reference().with_args(*a).arg_hash) for f, a in calls]
                    for i in pre:
                        calls[i][0](*calls[i][1])
                    mod.report(x)
                    got = [(inv.fn_reference.qualified_name, inv.arg_hash) for inv in mod.report.memento(x).invocation_metadata.invocations]
                    if backend != "memory":
                        m.Environment.set(Environment(name="cp", base_dir=d, repos=[ConfigurationRepository(name="r", clusters={"cp": FunctionCluster(name="cp", storage=mk())})]))
                        mm = mod.report.memento(x)
                        got2 = [(inv.fn_reference.qualified_name, inv.arg_hash) for inv in mm.invocation_metadata.invocations]
                        # ... and every recorded invocation names a call whose memento exists
                        st3 = m.Environment.get().get_cluster("cp").storage
                        dangling = [h[:12] for (q, h), inv in zip(got2, mm.invocation_metadata.invocations)
                                    if st3.get_mementos([inv.fn_reference_with_arg_hash()])[0] is None]
                    else:
                        got2, dangling = got, []
                    chk.case(["typed-arguments", backend, pre], nontrivial=True, sample=dict(kind="partial variants and timestamp arguments", backend=backend, pre=pre))
                    chk.count("mode:typed-arguments")
                    if got != want or got2 != want or dangling:
                        fails.append(dict(clause="provenance-exact", scenario="typed-arguments", backend=backend, pre=pre,
                                          recorded=[h[:12] for _, h in got], reread=[h[:12] for _, h in got2], expected=[h[:12] for _, h in want],
                                          no_memento_for=dangling))
                finally:
                    sys.modules.pop(modname, None)
                    shutil.rmtree(d, ignore_errors=True)
    finally:
        m.Environment.set(prev)
    return fails


_mut_n = [0]


def lost_result_scenario(chk):
    """the memoized result of a call becomes unreadable (its data files vanish) and the call is made again: the recomputation
    must leave the record of the call as it was (no invocation or resource listed twice), with a memory cache too."""
    Z = [0, 0]
    noexc = {"raise": [0, 0, 0, 0]}
    prog = dict(fns={1: dict(explicit=False, stmts=[["res", 1]], const=1, **noexc),
                     2: dict(explicit=False, stmts=[["call", 1, 0, "i", False, False, False, False, Z], ["res", 2], ["call", 1, 1, "i", False, False, False, False, Z]],
                             const=2, **noexc)})
    fails = []
    for backend in ("fs", "fs+cache"):
        w = progs.RunWorld(prog, backend=backend, root=chk.tmpdir(), use_model=False, budget_mb=4)
        try:
            w.op(["call", 2, 1, "i", False, False])
            before, _ = w.op(["memento", 2, 1, 0])
            cdir = os.path.join(w.dir, "store", "c", ".versions")
            for u in os.listdir(cdir):
                shutil.rmtree(os.path.join(cdir, u))
            w.reopen()                                            # a new session: nothing is resident in the memory cache
            for _ in range(2):
                w.op(["call", 2, 1, "i", False, False])          # unreadable result: recomputed
            after, _ = w.op(["memento", 2, 1, 0])
            chk.case(["lost-result", backend], nontrivial=True, sample=dict(kind="result data lost, call repeated", backend=backend, record=after))
            chk.count("mode:lost-result")
            if after != before:
                fails.append(dict(clause="provenance-store-independent", scenario="lost-result", backend=backend, before=before, after=after))
        finally:
            w.close()
    return fails


def concurrent_subcall(chk):
    """the sub-call is being computed by another thread while the caller's body reaches it (the caller then finds the
    result inside the per-call mutex). The quantifier of C10 is sequential; this scenario can only add coverage: whatever
    the timing, the caller's record must equal the record of a cold sequential run."""
    import threading
    Z = [0, 0]
    leaf = dict(explicit=False, stmts=[], const=1, **{"raise": [0, 0, 0, 0]})
    prog = dict(fns={1: leaf, 2: dict(explicit=False, stmts=[["call", 1, 0, "i", False, False, False, False, Z]], const=2, **{"raise": [0, 0, 0, 0]}),
                     3: dict(explicit=False, stmts=[["call", 2, 0, "i", False, False, False, False, Z]], const=3, **{"raise": [0, 0, 0, 0]})})
    for backend in ("memory", "fs"):
        cold, _, _ = record_for(prog, backend, [], (3, 1, 0), False, False, chk.tmpdir())
        w = progs.RunWorld(prog, backend=backend, root=chk.tmpdir(), use_model=False)
        started, go = threading.Event(), threading.Event()
        orig_enter = progs.REC.enter
        first = []

        def enter(name, kwargs):
            orig_enter(name, kwargs)
            if name == "f2" and not first:
                first.append(1)
                started.set()
                go.wait(10)
        try:
            progs.REC.__dict__["enter"] = enter
            errs = []

            def run(f):
                try:
                    w.fn(f)(1)
                except Exception as e:          # noqa
                    errs.append(repr(e))
            ta = threading.Thread(target=run, args=(2,))
            ta.start()
            started.wait(10)
            tb = threading.Thread(target=run, args=(3,))
            tb.start()
            tb.join(0.4)                        # give the caller time to block on the sub-call's mutex
            go.set()
            ta.join(20)
            tb.join(20)
            # (the recorder hook is part of the program the bodies call: it stays in place until the record has been read, so
            # that the functions' versions are the same for the calls and for the query)
            rec, _ = w.op(["memento", 3, 1, 0])
        finally:
            progs.REC.__dict__.pop("enter", None)
            go.set()
            w.close()
        chk.case(["concurrent-subcall", backend], nontrivial=True, sample=dict(backend=backend, record=rec, cold=cold))
        chk.count("mode:concurrent-subcall")
        if errs or rec != cold:
            chk.violation({"what": "provenance of f3(1) differs when its sub-call f2(1) is computed by another thread at the same time",
                           "class": {"clause": "provenance-store-independent", "concurrent": True}, "program": prog, "backend": backend,
                           "root": [3, 1, 0], "pre": [], "concurrent": True, "cold_record": cold, "record": rec, "errors": errs,
                           "source": progs.render(prog, "replay")})


def main(chk, replay=None):
    if replay is not None and replay.get("extra_scenario"):
        class _C2:
            def tmpdir(self):
                return None
            def case(self, *a, **k):
                pass
            def count(self, *a, **k):
                pass
        fl = {"mutable-arguments": mutable_args_scenario, "typed-arguments": typed_args_scenario}.get(replay["extra_scenario"], lost_result_scenario)(_C2())
        print(json.dumps(dict(still_fails=bool(fl), observed=fl[:2]), default=str))
        return 1 if fl else 0
    if replay is not None and replay.get("concurrent"):
        class _C:
            def __init__(self):
                self.v = []
            def tmpdir(self):
                return None
            def case(self, *a, **k):
                pass
            def count(self, *a, **k):
                pass
            def violation(self, d):
                self.v.append(d)
        c = _C()
        concurrent_subcall(c)
        print(json.dumps(dict(still_fails=bool(c.v), observed=[dict(record=x["record"], cold=x["cold_record"]) for x in c.v][:2])))
        return 1 if c.v else 0
    if replay is not None:
        also = [tuple(x) for x in replay.get("also", [])]
        replay["program"]["fns"] = {int(k): v for k, v in replay["program"]["fns"].items()}
        r0, _, _ = record_for(replay["program"], replay["backend"], [], tuple(replay["root"]), False, False, None, also)
        r1, _, _ = record_for(replay["program"], replay["backend"], [tuple(x) for x in replay["pre"]], tuple(replay["root"]),
                              replay.get("via_batch", False), False, None, also)
        bad = r0 != r1
        print(json.dumps(dict(still_fails=bad, cold=r0, with_pre=r1)))
        return 1 if bad else 0
    chk.rule = ("generated call-DAG programs with repeated, batched, failing (memoized and non-memoized) sub-calls, context "
                "overrides and resources; for a root call the recorded provenance is compared with the model and across "
                "pre-memoized subsets of the distinct sub-calls (quick: 10 random subsets; thorough: all 2^n for n <= 6), "
                "single vs batch invocation, memory vs filesystem backend; directed: mutable arguments changed between sub-calls, sub-calls through differently bound partial applications and with date / naive / zone-aware timestamp arguments (as recorded and as re-read from disk), lost result data. Distinct = distinct (program, root, subset, mode); "
                "non-trivial = root has >= 1 sub-call.")
    proof_ok = chk.build_and_audit()
    quick = chk.tier == "quick"
    rng = chk.rng
    nprog = 14 if quick else 150
    reported = 0
    Z = [0, 0]
    leaf = lambda: dict(explicit=False, stmts=[], const=1, **{"raise": [0, 0, 0, 0]})
    corpus = [
        # a batch with repeated elements: every subset memoized beforehand must leave the recorded order unchanged
        dict(fns={1: leaf(), 2: dict(explicit=False, stmts=[["batch", 1, [1, 2, 0, 3, 2], "i", False, False, False, False, Z]], const=2,
                                     **{"raise": [0, 0, 0, 0]})}),
        # a chain of depth 4: with a memory cache the mementos of inner calls are live objects shared between calls
        dict(fns={1: leaf(), 2: dict(explicit=False, stmts=[["call", 1, 0, "i", False, False, False, False, Z]], const=2, **{"raise": [0, 0, 0, 0]}),
                  3: dict(explicit=False, stmts=[["call", 2, 0, "i", False, False, False, False, Z], ["call", 1, 1, "i", False, False, False, False, Z]],
                          const=3, **{"raise": [0, 0, 0, 0]}),
                  4: dict(explicit=False, stmts=[["call", 3, 0, "i", False, False, False, False, Z], ["call", 2, 1, "i", False, False, False, False, Z]],
                          const=4, **{"raise": [0, 0, 0, 0]})}),
        # a sub-call that raises a non-memoized exception after making calls of its own, handled by the caller (single and batch)
        dict(fns={1: leaf(), 2: dict(explicit=False, stmts=[["call", 1, 0, "i", False, False, False, False, Z]], const=2, **{"raise": [1, 0, 2, 5]}),
                  3: dict(explicit=False, stmts=[["call", 2, 0, "i", False, False, True, False, Z], ["call", 1, 1, "i", False, False, False, False, Z],
                                                 ["batch", 2, [0, 1], "i", False, False, False, False, Z]], const=3, **{"raise": [0, 0, 0, 0]})}),
        # the same with a memoized exception and with an exception that cannot be rebuilt
        dict(fns={1: leaf(), 2: dict(explicit=False, stmts=[["call", 1, 0, "i", False, False, False, False, Z]], const=2, **{"raise": [2, 1, 0, 5]}),
                  3: dict(explicit=False, stmts=[["call", 1, 2, "i", False, False, False, False, Z]], const=2, **{"raise": [1, 0, 1, 6]}),
                  4: dict(explicit=False, stmts=[["call", 2, 0, "i", False, False, True, False, Z], ["call", 3, 0, "i", False, False, True, False, Z],
                                                 ["batch", 3, [0, 1], "i", False, False, False, False, Z]], const=3, **{"raise": [0, 0, 0, 0]})}),
    ]
    corpus += [
        # depth four, the second level leaves through a non-memoized exception after its own sub-call, the root handles it:
        # the root's dependency set still covers the leaf
        dict(fns={1: leaf(), 2: dict(explicit=False, stmts=[["call", 1, 0, "i", False, False, False, False, Z]], const=2, **{"raise": [0, 0, 0, 0]}),
                  3: dict(explicit=False, stmts=[["call", 2, 0, "i", False, False, False, False, Z]], const=3, **{"raise": [1, 0, 2, 5]}),
                  4: dict(explicit=False, stmts=[["call", 3, 0, "i", False, False, True, False, Z]], const=4, **{"raise": [0, 0, 0, 0]})}),
        # a batch inside a function whose elements make calls of their own: an element that has to be computed followed by
        # elements that are already in the store (all subsets memoized beforehand)
        dict(fns={1: leaf(), 2: dict(explicit=False, stmts=[["call", 1, 0, "i", False, False, False, False, Z]], const=2, **{"raise": [0, 0, 0, 0]}),
                  3: dict(explicit=False, stmts=[["batch", 2, [0, 1, 2], "i", False, False, False, False, Z], ["call", 1, 5, "i", False, False, False, False, Z]], const=3,
                          **{"raise": [0, 0, 0, 0]})}),
    ]
    corpus += [
        # a sub-call made with further calls prevented, whose body attempts (and survives) a call that the root makes itself
        # afterwards: whether that call is in the store beforehand or not, it is refused beneath the prevented call and recorded nowhere there
        dict(fns={1: leaf(), 2: dict(explicit=False, stmts=[["call", 1, 0, "i", False, False, True, False, Z]], const=2, **{"raise": [0, 0, 0, 0]}),
                  3: dict(explicit=False, stmts=[["call", 2, 0, "i", False, True, True, False, Z], ["call", 1, 0, "i", False, False, False, False, Z],
                                                 ["batch", 2, [0, 1], "i", False, True, True, False, Z]], const=3, **{"raise": [0, 0, 0, 0]})},
             pre_only=[1]),
    ]
    concurrent_subcall(chk)
    for fl in (mutable_args_scenario(chk) + typed_args_scenario(chk) + lost_result_scenario(chk))[:3]:
        chk.violation({"what": "provenance (%s): %s" % (fl["scenario"], fl["clause"]), "class": {"clause": fl["clause"], "scenario": fl["scenario"]},
                       "extra_scenario": fl["scenario"], "observed": fl})
    for pi in range(nprog + 2 * len(corpus)):
        directed = pi < 2 * len(corpus)
        if directed:
            prog = json.loads(json.dumps(corpus[pi // 2]))
            prog["fns"] = {int(k): v for k, v in prog["fns"].items()}
        else:
            prog = progs.gen_program(rng, nfns=rng.randint(3, 6), hidden_rate=0.03, res_rate=0.3, guard_rate=0.5)
        # make sure some parent calls the same function twice with arguments of different parity
        top = max(prog["fns"])
        if not directed and top >= 3 and rng.random() < 0.6:
            g = rng.randint(2, top - 1)
            prog["fns"][top]["stmts"] += [["call", g, 0, "i", False, False, True, False, [0, 0]],
                                           ["call", g, 1, "i", False, False, True, False, [0, 0]]]
        root = (max(prog["fns"]), rng.choice([0, 1, 2]), rng.choice([0, 0, 1]))
        backend = rng.choice(["memory", "fs", "fs+cache"])
        if directed:
            root = (max(prog["fns"]), 1, 0)
            backend = ["fs+cache", "fs"][pi % 2]
        _, _, tr0 = record_for(prog, backend, [], root, False, False, chk.tmpdir())
        also = [k for k in dict.fromkeys(tr0) if k != root][:6]
        cold, mcold, tr = record_for(prog, backend, [], root, False, proof_ok, chk.tmpdir(), also)
        subs = [k for k in dict.fromkeys(tr) if k != root]
        if prog.get("pre_only"):
            # (a call computed with further calls prevented is memoized with what it could do then — prevention is not part of a
            #  call's identity; memoizing such a call beforehand, without prevention, is another history, not another store)
            subs = [k for k in subs if k[0] in prog["pre_only"]]
        if proof_ok and mcold != cold:
            chk.correspondence_break("provenance-record", dict(program=prog, root=root, backend=backend, real=cold, model=mcold))
        if cold.split(" || ")[0] == "none":
            chk.count("root-not-memoized")
            continue
        # exactness of the dependency set: on a cold store every function beneath the root ran, so the set of
        # functions in the execution trace is exactly "the function versions invoked transitively, itself included"
        try:
            deps = sorted(int(x) for x in cold.split(" || ")[0].split("deps=[")[1].rstrip("]").split(",") if x)
        except Exception:
            deps = None
        exp = sorted({t[0] for t in tr} | {root[0]})
        if deps is not None and deps != exp and reported < 4:
            reported += 1
            chk.violation({"what": "dependency set of %s is %s but the functions invoked beneath it are %s" % (root, deps, exp),
                           "class": {"clause": "dependency-set-exact"}, "program": prog, "backend": backend, "root": root, "pre": [],
                           "record": cold, "trace": tr, "source": progs.render(prog, "replay")})
        n = min(len(subs), 6)
        subs = subs[:n]
        if (quick and not directed) or n > 6:
            subsets = [tuple(s for s in subs if rng.random() < 0.5) for _ in range(10)]
        else:
            subsets = [c for r in range(n + 1) for c in itertools.combinations(subs, r)]
        other = "fs" if backend == "memory" else "memory"
        trials = [(list(s), False, backend) for s in subsets] + [([], True, backend), (list(subs), True, backend), ([], False, other)]
        for pre, via_batch, be in trials:
            rec, mrec, _ = record_for(prog, be, pre, root, via_batch, proof_ok, chk.tmpdir(), also)
            chk.case([prog, root, pre, via_batch, be], nontrivial=bool(subs),
                     sample=dict(root=root, pre=pre, via_batch=via_batch, backend=be, record=rec))
            chk.count("mode:" + ("batch" if via_batch else "single"))
            chk.count("subset-size:%d" % len(pre))
            if proof_ok and mrec != rec:
                chk.correspondence_break("provenance-record", dict(program=prog, root=root, pre=pre, via_batch=via_batch, backend=be,
                                                                   real=rec, model=mrec))
            if rec != cold:
                if reported < 4:
                    reported += 1
                    chk.violation({"what": "provenance of %s differs when %s was memoized beforehand%s" % (
                        root, pre, " (batch)" if via_batch else ""),
                        "class": {"clause": "provenance-store-independent", "via_batch": via_batch},
                        "program": prog, "backend": be, "root": root, "pre": pre, "via_batch": via_batch, "also": also,
                        "cold_record": cold, "record": rec, "source": progs.render(prog, "replay")})
        if reported >= 4:
            break


if __name__ == "__main__":
    sys.exit(run_check(PROP, main, sys.argv[1:]))
