import Generated.ArgTypes

/-!
Theorems over the argument-encoding tables regenerated from the running code (`harness/gen_tables.py`): the `type` tags of
the typed `{type, value}` argument encoding other language implementations read, and the argument domain of the hasher.
Re-checked by `lake build Generated` on every C11 run.
-/
namespace Memento.Generated

def wireOf (k : String) : Option String := ((argWire.find? (fun p => p.1 == k)).map (·.2)).getD none
def hashed (k : String) : Bool := ((argHashed.find? (fun p => p.1 == k)).map (·.2)).getD false

/-- the fixed tags of the wire format -/
theorem arg_wire_tags : wireOf "None" = some "null" ∧ wireOf "bool" = some "boolean" ∧ wireOf "int" = some "number" ∧
    wireOf "int-big" = some "number" ∧ wireOf "float" = some "number" ∧ wireOf "float-nan" = some "number" ∧ wireOf "str" = some "string" ∧
    wireOf "date" = some "date" ∧ wireOf "datetime" = some "timestamp" ∧ wireOf "datetime-aware" = some "timestamp" ∧
    wireOf "list" = some "list_result" ∧ wireOf "list-empty" = some "list_result" ∧ wireOf "dict" = some "dictionary" ∧
    wireOf "dict-empty" = some "dictionary" := by decide

/-- booleans are not numbers, dates are not timestamps -/
theorem arg_wire_separates : wireOf "bool" ≠ wireOf "int" ∧ wireOf "date" ≠ wireOf "datetime" ∧ wireOf "str" ≠ wireOf "int" := by decide

/-- everything the argument hasher accepts can be written in the typed encoding (no argument that keys a call is unencodable) -/
theorem hashed_arguments_are_encodable : argHashed.all (fun p => !p.2 || (wireOf p.1).isSome) = true := by decide

/-- outside the argument domain: rejected by the hasher -/
theorem unsupported_arguments_rejected : ["bytes", "tuple", "set", "complex", "np.int64", "object"].all (fun k => !hashed k) = true := by decide

theorem supported_arguments_hashed : ["None", "bool", "int", "int-big", "float", "float-nan", "str", "date", "datetime", "datetime-aware",
    "list", "list-empty", "dict", "dict-empty"].all hashed = true := by decide

end Memento.Generated
