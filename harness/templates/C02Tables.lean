import Generated.ResultTypes

/-!
Theorems over the tables regenerated from the running code (`harness/gen_tables.py`), decided over the whole
finite tables. Copied next to the generated module and re-checked by `lake build Generated` on every C02 run.
-/
namespace Memento.Generated

def lookup (t : List (String × Option String)) (k : String) : Option (Option String) :=
  (t.find? (fun p => p.1 == k)).map (·.2)

def rtOf (k : String) : Option String := (lookup classify k).getD none

/-- the documented result domain: every class is accepted -/
def documented : List String :=
  ["None", "bool", "int", "float", "str", "bytes", "date", "datetime", "datetime-aware", "pd.Timestamp", "pd.Timestamp-aware",
   "list", "dict", "ndarray-bool", "ndarray-int8", "ndarray-int16", "ndarray-int32", "ndarray-int64", "ndarray-float32",
   "ndarray-float64", "pd.Index", "pd.Series", "pd.DataFrame", "InMemoryPartition", "OnDiskPartition", "MementoException"]

theorem documented_types_accepted : documented.all (fun k => (rtOf k).isSome) = true := by decide

/-- booleans are not numbers, numbers are one type -/
theorem bool_is_not_number : rtOf "bool" = some "boolean" ∧ rtOf "int" = some "number" ∧ rtOf "float" = some "number" ∧
    rtOf "int-subclass" = some "number" := by decide

/-- every kind of datetime (naive, aware, subclasses, pandas Timestamp) is a timestamp; a date is a date -/
theorem timestamps_and_dates : rtOf "datetime" = some "timestamp" ∧ rtOf "datetime-aware" = some "timestamp" ∧
    rtOf "datetime-subclass" = some "timestamp" ∧ rtOf "pd.Timestamp" = some "timestamp" ∧
    rtOf "pd.Timestamp-aware" = some "timestamp" ∧ rtOf "date" = some "date" := by decide

theorem text_and_containers : rtOf "None" = some "null" ∧ rtOf "str" = some "string" ∧ rtOf "bytes" = some "binary" ∧
    rtOf "list" = some "list_result" ∧ rtOf "dict" = some "dictionary" ∧ rtOf "dict-subclass" = some "dictionary" := by decide

/-- arrays are typed by their element type -/
theorem arrays_by_dtype : rtOf "ndarray-bool" = some "array_boolean" ∧ rtOf "ndarray-int8" = some "array_int8" ∧
    rtOf "ndarray-int16" = some "array_int16" ∧ rtOf "ndarray-int32" = some "array_int32" ∧
    rtOf "ndarray-int64" = some "array_int64" ∧ rtOf "ndarray-float32" = some "array_float32" ∧
    rtOf "ndarray-float64" = some "array_float64" := by decide

theorem pandas_and_partitions : rtOf "pd.Index" = some "index" ∧ rtOf "pd.MultiIndex" = some "index" ∧ rtOf "pd.Series" = some "series" ∧
    rtOf "pd.DataFrame" = some "data_frame" ∧ rtOf "InMemoryPartition" = some "partition" ∧ rtOf "OnDiskPartition" = some "partition" ∧
    rtOf "MementoException" = some "exception" := by decide

/-- what is outside the domain is rejected, not mis-filed -/
theorem unsupported_rejected : ["complex", "tuple", "set", "frozenset", "ndarray-uint8", "ndarray-float16", "ndarray-object", "ndarray-str",
    "object", "function", "type", "time", "timedelta", "bytearray", "ValueError-instance"].all (fun k => lookup classify k == some none) = true := by
  decide

/-- every result type that can be produced has a serialisation strategy -/
theorem every_type_has_a_strategy :
    classify.all (fun p => match p.2 with
      | none => true
      | some rt => strategies.any (fun s => s.1 == rt)) = true := by decide

/-- the wire names are fixed -/
theorem result_type_names_fixed : resultTypeNames =
    ["exception", "null", "boolean", "string", "binary", "number", "date", "timestamp", "list_result", "dictionary",
     "array_boolean", "array_int8", "array_int16", "array_int32", "array_int64", "array_float32", "array_float64",
     "index", "series", "data_frame", "partition", "memento_function"] := by decide

/-- and every strategy belongs to a result type -/
theorem strategies_are_for_result_types : strategies.all (fun s => resultTypeNames.contains s.1) = true := by decide

end Memento.Generated
