import Generated.NameTables
import MementoModel.Model.QName

/-!
Theorems over the file-name tables regenerated from the running code (`harness/gen_tables.py`): the character-level model
of `Model/QName.lean` (`escape`, `unquote`) agrees with the code on **every** entry — every single character 0..255 (and
three beyond Latin-1) for `_escape_key`, every `%XX` below 0x80 in both hex cases and a set of malformed escapes for
`unquote`. Re-checked by the kernel (`decide +kernel`) on every C12 run: a change of the escaping breaks this build.
-/
namespace Memento.Generated
open Memento.QName

def toStr (l : List Nat) : List Char := l.map Char.ofNat

/-- the model's `escape` is the code's `_escape_key`, character by character -/
theorem escape_agrees : escTable.all (fun p => escape [Char.ofNat p.1] == toStr p.2) = true := by decide +kernel

/-- the model's `unquote` is the code's on every table entry -/
theorem unquote_agrees : unqTable.all (fun p => unquote (toStr p.1) == toStr p.2) = true := by decide +kernel

/-- what the listing relies on, on the code's own table: un-quoting an escaped character gives the character back -/
theorem unquote_escape_table : escTable.all (fun p => unquote (toStr p.2) == [Char.ofNat p.1]) = true := by decide +kernel

/-- only ':' is rewritten -/
theorem only_colon_escaped : escTable.all (fun p => p.1 == 58 || p.2 == [p.1]) = true := by decide +kernel

end Memento.Generated
