"""a memento function returning one value of every supported result type (C02 value matrix)"""
import datetime

import numpy as np
import pandas as pd

from twosigma.memento import memento_function
from twosigma.memento.partition import InMemoryPartition


class _Rec:
    def __init__(self):
        self.calls = []

    def add(self, item):          # (bodies of other modules record through a method: an attribute chain ending in the list would be hashed)
        self.calls.append(item)


REC = _Rec()


def _ondisk(items):
    from twosigma.memento.storage_filesystem import OnDiskPartition
    p = OnDiskPartition()
    for k, v in items.items():
        p[k] = v
    return p


def make(i):
    tz = datetime.timezone
    table = [
        ("null", lambda: None), ("bool-true", lambda: True), ("bool-false", lambda: False), ("int", lambda: 7), ("int-big", lambda: 2 ** 80),
        ("int-neg", lambda: -3), ("float", lambda: 1.5), ("float-nan", lambda: float("nan")), ("float-inf", lambda: float("inf")),
        ("float-negzero", lambda: -0.0), ("str", lambda: "hé😀"), ("str-empty", lambda: ""), ("bytes", lambda: b"\x00\xff"),
        ("date", lambda: datetime.date(2020, 2, 29)), ("datetime-naive", lambda: datetime.datetime(2020, 1, 1, 1, 2, 3, 4)),
        ("datetime-aware", lambda: datetime.datetime(2020, 1, 1, tzinfo=tz(datetime.timedelta(hours=-3, minutes=-30)))),
        ("pd-timestamp", lambda: pd.Timestamp("2020-01-01T00:00:00")),
        ("list", lambda: [1, "a", None, [2.5]]), ("list-empty", lambda: []), ("dict", lambda: {"a": 1, "b": {"c": [True]}}),
        ("dict-empty", lambda: {}),
        ("arr-bool", lambda: np.array([True, False])), ("arr-int8", lambda: np.array([1, -2], dtype=np.int8)),
        ("arr-int16", lambda: np.array([1, -2], dtype=np.int16)), ("arr-int32", lambda: np.array([1, -2], dtype=np.int32)),
        ("arr-int64", lambda: np.array([1, -2], dtype=np.int64)), ("arr-float32", lambda: np.array([1.5, np.nan], dtype=np.float32)),
        ("arr-float64", lambda: np.array([1.5, np.inf], dtype=np.float64)), ("arr-empty", lambda: np.array([], dtype=np.float64)),
        ("arr-2d", lambda: np.arange(6, dtype=np.int64).reshape(2, 3)),
        ("arr-0d", lambda: np.array(5, dtype=np.int64)), ("arr-0d-float", lambda: np.array(2.5, dtype=np.float64)),
        ("arr-3d", lambda: np.arange(24, dtype=np.int32).reshape(2, 3, 4)), ("arr-transposed", lambda: np.arange(6, dtype=np.int64).reshape(2, 3).T),
        ("arr-strided", lambda: np.arange(10, dtype=np.int16)[::2]), ("arr-fortran", lambda: np.asfortranarray(np.arange(6, dtype=np.float32).reshape(2, 3))),
        ("arr-1x0", lambda: np.zeros((1, 0), dtype=np.int8)),
        ("index", lambda: pd.Index([3, 1, 2])), ("series", lambda: pd.Series([1.0, 2.0], index=["x", "y"], name="s")),
        ("series-empty", lambda: pd.Series([], dtype="float64")),
        ("frame", lambda: pd.DataFrame({"a": [1, 2], "b": ["x", None]})), ("frame-empty", lambda: pd.DataFrame()),
        ("partition", lambda: InMemoryPartition({"k1": 1, "k2": [2, "x"], "k3": None})),
        ("partition-empty", lambda: InMemoryPartition({})),
        ("partition-ondisk", lambda: _ondisk({"k1": 1, "k2": [2, "x"], "k3": None, "k4": np.array([1.5, 2.5])})),
        ("partition-ondisk-nulls", lambda: _ondisk({"a": None, "b": None})),
        # results of more than 100 rows (the memory cache estimates the size of large pandas objects from a sample)
        ("index-strings-150", lambda: pd.Index(["t%03d" % i * (1 + i % 3) for i in range(150)])),
        ("index-dates-150", lambda: pd.date_range("2020-01-01", periods=150)),
        ("index-multi-120", lambda: pd.MultiIndex.from_product([range(12), list("abcdefghij")])),
        ("series-300", lambda: pd.Series([float(i) for i in range(300)], name="big")),
        ("frame-200", lambda: pd.DataFrame({"a": list(range(200)), "b": ["r%d" % i for i in range(200)]})),
    ]
    return table[i][0], table[i][1]()


NVALUES = 51


@memento_function(cluster="cv", version="1")
def tv(i):
    REC.calls.append(i)
    return make(i)[1]
