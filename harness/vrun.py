"""helpers to run vchild.py"""
import json
import os
import subprocess

import common

CHILD = os.path.join(os.path.dirname(os.path.abspath(__file__)), "vchild.py")


def child(spec, hashseed=None, timeout=180):
    env = dict(os.environ)
    env["PYTHONPATH"] = common.REPO + os.pathsep + os.path.dirname(CHILD)
    if hashseed is not None:
        env["PYTHONHASHSEED"] = str(hashseed)
    p = subprocess.run([common.PY, "-B", CHILD, json.dumps(spec)], stdout=subprocess.PIPE, stderr=subprocess.PIPE, text=True,
                       timeout=timeout, env=env)
    lines = [l for l in p.stdout.split("\n") if l.startswith("[")]
    if not lines:
        raise common.Infra("vchild produced no output (rc=%s): %s" % (p.returncode, p.stderr[-1500:]))
    return json.loads(lines[-1])
