"""C18 — declarative configuration is honoured, ordered, and reproducible from its dump.

Lean: Model/Config.lean + Props/C18.lean. Correspondence / oracle: the matrix of option combinations
(path, metadata_path, memory_cache_mb, readonly; storage and runner type) given through constructor
arguments, an inline dict, a JSON environment file and a YAML repository file with template
parameters; repository orders with duplicated cluster names; dump -> load round trips. What a backend
*does* is measured behaviourally (where data and metadata files appear, whether a repeated call opens
any file, whether anything is written, whether bodies run) and compared with the model and between
equivalent ways of giving the options.
"""
import itertools
import json
import linecache
import os
import shutil
import sys
import tempfile
import types

import common
from common import run_check
import fsaudit

PROP = "C18"
_n = [0]


class Rec:
    def __init__(self):
        self.calls = []


REC = Rec()


def probe_function(cluster_name):
    """a memento function bound to the named cluster (the body records its execution in an untracked object)"""
    _n[0] += 1
    modname = "c18m_%d_%d" % (os.getpid(), _n[0])
    src = ("from twosigma.memento import memento_function\nimport c18\n\n\n"
           "@memento_function(cluster=%r, version='1')\ndef probe(x):\n    c18.REC.calls.append(x)\n    return [x, 'payload']\n" % cluster_name)
    fname = "<%s>" % modname
    linecache.cache[fname] = (len(src), None, src.splitlines(True), fname)
    mod = types.ModuleType(modname)
    sys.modules[modname] = mod
    exec(compile(src, fname, "exec"), mod.__dict__)
    return mod.probe


def files_under(root):
    out = []
    if root and os.path.isdir(root):
        for d, _, fs in os.walk(root):
            for f in fs:
                out.append(os.path.relpath(os.path.join(d, f), root))
    return out


def behaviour(env, cluster_name, roots, x):
    """behavioural signature of the cluster `cluster_name` of `env`; roots: {label: dir} candidates where files may appear"""
    import twosigma.memento as m
    prev = m.Environment.get()
    m.Environment.set(env)
    sys.modules.setdefault("c18", sys.modules[__name__])
    try:
        cl = env.get_cluster(cluster_name)
        if cl is None:
            return dict(found=False)
        fn = probe_function(cluster_name)
        REC.calls.clear()
        before = {lab: set(files_under(r)) for lab, r in roots.items()}
        try:
            r1 = fn(x)
        except RuntimeError as e:
            return dict(found=True, runner="null" if "Null runner" in str(e) else "error:" + str(e)[:60])
        ran1 = len(REC.calls)
        new = {lab: sorted(set(files_under(r)) - before[lab]) for lab, r in roots.items()}
        data_at = sorted(lab for lab, fs in new.items() if any(f.startswith("c" + os.sep) for f in fs))
        meta_at = sorted(lab for lab, fs in new.items() if any(f.startswith("m" + os.sep) for f in fs))
        with fsaudit.Recorder(list(roots.values())) as rec:
            r2 = fn(x)
        ran2 = len(REC.calls) - ran1
        opens = len([e for e in rec.events if e[0] == "open-r"])
        wrote2 = len(rec.mutations)
        sig = dict(found=True, runner="local", data_at=data_at, meta_at=meta_at, wrote=bool(data_at or meta_at),
                   second_call_ran=bool(ran2), second_call_opened_files=bool(opens), second_call_wrote=bool(wrote2))
        # classify
        if sig["wrote"]:
            sig["kind"] = "filesystem"
            sig["cache"] = not sig["second_call_opened_files"]
            sig["read_only"] = False
        elif not ran2:
            sig["kind"] = "memory"
            sig["read_only"] = False
        else:
            sig["kind"] = "null-or-readonly"
            sig["read_only"] = True
        d = cl.storage.to_dict()
        sig["dict"] = d
        return sig
    finally:
        m.Environment.set(prev)


def storage_cfg(opts, roots):
    cfg = {"type": "filesystem"}
    if opts.get("path") is not None:
        cfg["path"] = roots[opts["path"]]
    if opts.get("meta") is not None:
        cfg["metadata_path"] = roots[opts["meta"]]
    if opts.get("cache") is not None:
        cfg["memory_cache_mb"] = opts["cache"]
    if opts.get("ro") is not None:
        cfg["readonly"] = opts["ro"]
    return cfg


def build_env(source, name, cfg_opts, arg_opts, roots, scratch):
    """an environment with one cluster `name` whose filesystem storage gets cfg_opts through `source` and arg_opts as
    constructor arguments (only for source == 'constructor' / 'dict')"""
    from twosigma.memento import Environment, ConfigurationRepository, FunctionCluster
    from twosigma.memento.storage_filesystem import FilesystemStorageBackend
    cfg = storage_cfg(cfg_opts, roots)
    if source == "dict" and _n[0] % 2:
        # the same configuration object was used before, together with explicit path arguments, for another backend:
        # a constructor reads its configuration, it does not write to it
        FilesystemStorageBackend(config=cfg, path=os.path.join(scratch, "elsewhere", "d"), metadata_path=os.path.join(scratch, "elsewhere", "m"))
    if source in ("constructor", "dict"):
        kw = {}
        if arg_opts.get("path") is not None:
            kw["path"] = roots[arg_opts["path"]]
        if arg_opts.get("meta") is not None:
            kw["metadata_path"] = roots[arg_opts["meta"]]
        if arg_opts.get("cache") is not None:
            kw["memory_cache_mb"] = arg_opts["cache"]
        if arg_opts.get("ro") is not None:
            kw["read_only"] = arg_opts["ro"]
        if source == "constructor" or kw:
            st = FilesystemStorageBackend(config=cfg, **kw)
            cl = FunctionCluster(name=name, storage=st)
        else:
            cl = FunctionCluster(config={"name": name, "storage": cfg})
        return Environment(name="e", base_dir=scratch, repos=[ConfigurationRepository(name="r", clusters={name: cl})])
    if source == "json":
        path = os.path.join(scratch, "env_%d.json" % _n[0])
        _n[0] += 1
        json.dump({"name": "e", "repos": [{"name": "r", "clusters": {name: {"name": name, "storage": cfg}}}]}, open(path, "w"))
        return Environment.from_file(path)
    if source == "yaml":
        # a repository file that is a template: the directories are parameters
        path = os.path.join(scratch, "repo_%d.yaml" % _n[0])
        _n[0] += 1
        lines = ["name: r", "clusters:", "  %s:" % name, "    name: %s" % name, "    storage:", "      type: filesystem"]
        params = {}
        for key, opt in (("path", "path"), ("metadata_path", "meta")):
            if cfg_opts.get(opt) is not None:
                lines.append("      %s: '{{ %s_dir }}'" % (key, opt))
                params["%s_dir" % opt] = roots[cfg_opts[opt]]
        inline = _n[0] % 2 == 1
        if cfg_opts.get("cache") is not None and inline:
            # options switched on by template parameters, each block on one line of its own inside the mapping
            lines.append("      {% if cache_mb %}memory_cache_mb: {{ cache_mb }}{% endif %}")
            params["cache_mb"] = cfg_opts["cache"]
        elif cfg_opts.get("cache") is not None:
            lines.append("      memory_cache_mb: {{ cache_mb }}")
            params["cache_mb"] = cfg_opts["cache"]
        if cfg_opts.get("ro") is not None and inline:
            lines.append("      {% if read_only %}readonly: true{% else %}readonly: false{% endif %}")
            params["read_only"] = bool(cfg_opts["ro"])
        elif cfg_opts.get("ro") is not None:
            lines.append("      readonly: %s" % ("true" if cfg_opts["ro"] else "false"))
        if params and _n[0] % 3 == 0:
            # the template carries its values as defaults and is loaded without any parameter
            text = "\n".join(lines) + "\n"
            for k, v in params.items():
                text = text.replace("{{ %s }}" % k, "{{ %s | default(%r) }}" % (k, v))
                text = text.replace("{%% if %s %%}" % k, "{%% if %s | default(%r) %%}" % (k, v))
            open(path, "w").write(text)
            return Environment(name="e", base_dir=scratch, repos=[ConfigurationRepository.from_file(path)])
        open(path, "w").write("\n".join(lines) + "\n")
        if params:
            # the same template was rendered before, in this process, with other values for the same parameters
            decoy = {k: (os.path.join(scratch, "decoy", k) if k.endswith("_dir") else (not v) if isinstance(v, bool) else 77) for k, v in params.items()}
            ConfigurationRepository.from_file(path, **decoy)
        repo = ConfigurationRepository.from_file(path, **params)
        return Environment(name="e", base_dir=scratch, repos=[repo])
    raise ValueError(source)


def halves(mb):
    """cache sizes go to the model in half megabytes (sizes such as 0.5 and 2.5 MB are in the domain)"""
    return int(round(mb * 2))


def model_sig(cfg_opts, arg_opts, labels):
    idx = {lab: i + 1 for i, lab in enumerate(labels)}

    def o(d, k, f=lambda v: v):
        v = d.get(k)
        return "-" if v is None else str(f(v))
    line = "mk %d 0 %s %s %s %s %s %s %s %s" % (
        idx["home"], o(cfg_opts, "path", idx.get), o(cfg_opts, "meta", idx.get), o(cfg_opts, "cache", halves), o(cfg_opts, "ro", int),
        o(arg_opts, "path", idx.get), o(arg_opts, "meta", idx.get), o(arg_opts, "cache", halves), o(arg_opts, "ro", int))
    out = common.model_batch("config", [line])[0]
    sig, dct = out.split(" | ")
    _, ty, p, mp, c, ro = sig.split(" ")
    rl = {str(i): lab for lab, i in idx.items()}
    _, dp, dm, dc, dr = dct.split(" ")
    return dict(path=rl[p], meta=rl[mp], cache=(None if c == "-" else int(c)), read_only=ro == "1",
                dict=dict(path=rl.get(dp), meta=rl.get(dm), cache=(None if dc == "-" else int(dc)), readonly=(None if dr == "-" else dr == "1")))


def check_storage(case, scratch):
    """one option combination given one way; returns (fails, model diffs, observed)"""
    # directory names with characters that mean something to HTML / template engines (not to YAML or JSON strings)
    roots = {lab: os.path.join(scratch, {"A": "A&B <x>", "B": "B;{y}&amp;"}.get(lab, lab)) for lab in ("home", "A", "B", "C")}
    roots["home"] = os.path.join(scratch, "homedir", ".memento", "data")
    os.environ["HOME"] = os.path.join(scratch, "homedir")
    name = "c18_%d" % _n[0]
    _n[0] += 1
    try:
        env = build_env(case["source"], name, case["cfg"], case["args"], roots, scratch)
    except Exception as e:          # noqa: a configuration of the documented form must load
        return [dict(clause="configuration-loads", source=case["source"], options=case["cfg"], error="%s: %s" % (type(e).__name__, str(e)[:200]))], [], {}
    obs = behaviour(env, name, roots, 7)
    ms = model_sig(case["cfg"], case["args"], ["home", "A", "B", "C"])
    diffs, fails = [], []
    want_kind = "null-or-readonly" if ms["read_only"] else "filesystem"
    if obs.get("kind") != want_kind:
        diffs.append(dict(component="read-only", model=ms["read_only"], observed=obs))
    elif not ms["read_only"]:
        if obs["data_at"] != [ms["path"]]:
            diffs.append(dict(component="path", model=ms["path"], observed=obs["data_at"]))
        if obs["meta_at"] != [ms["meta"]]:
            diffs.append(dict(component="metadata_path", model=ms["meta"], observed=obs["meta_at"]))
        if obs["cache"] != (ms["cache"] is not None):
            diffs.append(dict(component="memory_cache_mb", model=ms["cache"], observed_cache=obs["cache"]))
    d = obs.get("dict", {})
    back = {v: k for k, v in roots.items()}
    got_dict = dict(path=back.get(d.get("path")), meta=back.get(d.get("metadata_path")),
                    cache=(None if d.get("memory_cache_mb") is None else halves(d["memory_cache_mb"])), readonly=d.get("readonly"))
    if got_dict != ms["dict"]:
        diffs.append(dict(component="to_dict", model=ms["dict"], observed=got_dict))
    # the property itself: the same options as constructor arguments behave the same (only for config-only cases)
    if not any(v is not None for v in case["args"].values()):
        name2 = "c18_%d" % _n[0]
        _n[0] += 1
        env2 = build_env("constructor", name2, {}, case["cfg"], roots2 := {k: v + "_x" for k, v in roots.items()}, scratch)
        os.environ["HOME"] = os.path.join(scratch, "homedir")
        roots2["home"] = roots["home"]
        obs2 = behaviour(env2, name2, roots2, 8)
        keys = ("kind", "data_at", "meta_at", "cache", "read_only")
        if obs.get("kind") == "filesystem" or obs2.get("kind") == "filesystem" or obs.get("kind") != obs2.get("kind"):
            a = {k: obs.get(k) for k in keys}
            b = {k: obs2.get(k) for k in keys}
            if a != b:
                fails.append(dict(clause="config-equals-argument", source=case["source"], options=case["cfg"], via_config=a, via_arguments=b))
    else:
        # explicit arguments override the configuration
        for opt, comp in (("path", "data_at"), ("meta", "meta_at")):
            if case["args"].get(opt) is not None and obs.get("kind") == "filesystem" and obs[comp] != [case["args"][opt]]:
                fails.append(dict(clause="argument-overrides-config", option=opt, config=case["cfg"], arguments=case["args"], observed=obs[comp]))
        if case["args"].get("ro") is not None and obs.get("read_only") != case["args"]["ro"]:
            fails.append(dict(clause="argument-overrides-config", option="readonly", config=case["cfg"], arguments=case["args"], observed=obs.get("read_only")))
        if case["args"].get("cache") is not None and obs.get("kind") == "filesystem" and obs["cache"] != bool(case["args"]["cache"]):
            fails.append(dict(clause="argument-overrides-config", option="memory_cache_mb", config=case["cfg"], arguments=case["args"], observed=obs["cache"]))
    # dump -> load
    from twosigma.memento import Environment
    env3 = Environment(env.to_dict())
    obs3 = behaviour(env3, name, roots, 9)
    keys = ("kind", "meta_at", "cache", "read_only", "runner")
    a = {k: obs.get(k) for k in keys}
    b = {k: obs3.get(k) for k in keys}
    # (data written by the first probe is already there: compare where the metadata of the new call goes and the kind)
    if a != b or (obs.get("kind") == "filesystem" and obs3.get("data_at") not in ([], obs["data_at"])):
        fails.append(dict(clause="dump-roundtrip", source=case["source"], options=case["cfg"], arguments=case["args"], original=a, rebuilt=b,
                          rebuilt_data_at=obs3.get("data_at")))
    return fails, diffs, obs


def check_order(rng, scratch, force=None):
    """repositories in priority order with duplicated cluster names; which one wins is observed by where files appear"""
    from twosigma.memento import Environment, ConfigurationRepository, FunctionCluster
    from twosigma.memento.storage_filesystem import FilesystemStorageBackend
    from twosigma.memento.runner_null import NullRunnerBackend
    names = ["ca", "cb", "cc", "default"]        # (a repository may define a cluster under the key "default" too)
    nrepo = rng.randint(1, 4)
    samename = rng.random() < 0.4
    if force:
        nrepo, samename = force[0], force[1]
    pool = ["zeta", "alpha", "mid", "beta"]
    rng.shuffle(pool)                                               # priority order is not the alphabetical order of the names
    rname = lambda ri: pool[ri % 2 if samename else ri]             # repositories may share a name: priority is by position only
    repos, roots, ident, spec = [], {}, {}, []
    cid = 0
    for ri in range(nrepo):
        clusters = {}
        rs = []
        for nm in rng.sample(names, rng.randint(0, 4)):
            cid += 1
            lab = "R%d" % cid
            roots[lab] = os.path.join(scratch, lab)
            # the key a repository maps a cluster under is what names it; the cluster's own `name` may differ
            clusters[nm] = FunctionCluster(name=(nm if rng.random() < 0.5 else "own_" + nm + str(cid)), storage=FilesystemStorageBackend(path=roots[lab]))
            rs.append("%d:%d" % (names.index(nm) + 1, cid))
            ident[cid] = lab
        if rng.random() < 0.4:
            # the repository also has a configuration with clusters of its own: the explicit `clusters` argument replaces them
            decoys = {}
            for nm in rng.sample(names, rng.randint(1, 3)):
                cid += 1
                lab = "D%d" % cid
                roots[lab] = os.path.join(scratch, lab)
                decoys[nm] = {"name": nm, "storage": {"type": "filesystem", "path": roots[lab]}}
            repos.append(ConfigurationRepository(config={"name": "zz", "clusters": decoys}, name=rname(ri), clusters=clusters))
        else:
            repos.append(ConfigurationRepository(name=rname(ri), clusters=clusters))
        spec.append(",".join(rs) or "-")
    env = Environment(name="e", base_dir=scratch, repos=repos)
    how = force[2] if force else rng.choice(["as-built", "prepend", "append", "dump"])
    if how == "prepend" and len(repos) > 1:
        env = Environment(name="e", base_dir=scratch, repos=repos[1:])
        for nm in names:
            env.get_cluster(nm)          # names are resolved before the repository list changes: the answer must follow it
        env.prepend_repo(repos[0])
    elif how == "append" and len(repos) > 1:
        env = Environment(name="e", base_dir=scratch, repos=repos[:-1])
        for nm in names:
            env.get_cluster(nm)
        env.append_repo(repos[-1])
    elif how == "dump":
        env = Environment(env.to_dict())
    fails, diffs = [], []
    for nm in names:
        want = common.model_batch("config", ["getcluster %d %s" % (names.index(nm) + 1, " ".join(spec))])[0]
        # the property's own words: first repository in priority order that defines the name
        first = next((r.split(",") for r in spec if any(e.split(":")[0] == str(names.index(nm) + 1) for e in r.split(",") if e != "-")), None)
        exp = None
        if first:
            exp = ident[int(next(e.split(":")[1] for e in first if e.split(":")[0] == str(names.index(nm) + 1)))]
        obs = behaviour(env, nm, roots, names.index(nm) * 10 + cid)
        got = (obs.get("data_at") or [None])[0] if obs.get("found") else None
        if got != exp:
            fails.append(dict(clause="first-repository-wins", cluster=nm, repos=spec, built=how, expected=exp, observed=got))
        mexp = None if want == "none" else ident[int(want)]
        if got != mexp:
            diffs.append(dict(component="get_cluster", cluster=nm, repos=spec, model=mexp, observed=got))
    return fails, diffs, dict(repos=spec, built=how)


def check_types(scratch):
    """storage and runner types from configuration; dump round trip keeps them"""
    from twosigma.memento import Environment
    fails = []
    roots = {"A": os.path.join(scratch, "TA")}
    for st, rn in itertools.product(["filesystem", "memory", "null"], [None, "local", "null"]):
        name = "c18t_%d" % _n[0]
        _n[0] += 1
        ccfg = {"name": name, "storage": {"type": st}}
        if st == "filesystem":
            ccfg["storage"]["path"] = roots["A"]
        if rn:
            ccfg["runner"] = {"type": rn}
        env = Environment({"name": "e", "base_dir": scratch, "repos": [{"name": "r", "clusters": {name: ccfg}}]})
        obs = behaviour(env, name, roots, 3)
        want_runner = "null" if rn == "null" else "local"
        if obs.get("runner") != want_runner:
            fails.append(dict(clause="runner-type-honoured", storage=st, runner=rn, observed=obs.get("runner")))
        elif want_runner == "local":
            want_kind = {"filesystem": "filesystem", "memory": "memory", "null": "null-or-readonly"}[st]
            if obs.get("kind") != want_kind:
                fails.append(dict(clause="storage-type-honoured", storage=st, runner=rn, observed=obs.get("kind")))
        env2 = Environment(env.to_dict())
        obs2 = behaviour(env2, name, roots, 4)
        if (obs.get("runner"), obs.get("kind")) != (obs2.get("runner"), obs2.get("kind")):
            fails.append(dict(clause="dump-roundtrip", storage=st, runner=rn, original=(obs.get("runner"), obs.get("kind")),
                              rebuilt=(obs2.get("runner"), obs2.get("kind"))))
    return fails


def check_environment_arguments(scratch):
    """`name=` / `base_dir=` given to Environment override the configuration object, for the built-in default cluster too; the dump
    of such an environment rebuilds the same default cluster"""
    from twosigma.memento import Environment
    fails = []
    d1, d2 = os.path.join(scratch, "from_cfg"), os.path.join(scratch, "from_arg")
    os.environ["HOME"] = os.path.join(scratch, "homedir")
    roots = {"cfg": os.path.join(d1, "cluster", "default"), "arg": os.path.join(d2, "cluster", "default")}
    env_a = Environment({"name": "n_cfg", "base_dir": d1}, base_dir=d2)
    env_b = Environment({"name": "n_cfg", "base_dir": d2})
    oa, ob = behaviour(env_a, None, roots, 11), behaviour(env_b, None, dict(roots), 12)
    if oa.get("data_at") != ["arg"] or oa.get("meta_at") != ["arg"]:
        fails.append(dict(clause="argument-overrides-config", option="base_dir", observed=dict(data_at=oa.get("data_at"), meta_at=oa.get("meta_at")),
                          expected="default cluster under the base_dir given as argument"))
    if oa.get("dict") != ob.get("dict"):
        fails.append(dict(clause="config-equals-argument", option="base_dir", via_config=ob.get("dict"), via_arguments=oa.get("dict")))
    env_c = Environment(env_a.to_dict())
    oc = behaviour(env_c, None, roots, 13)
    if oc.get("dict") != oa.get("dict") or oc.get("data_at") not in ([], ["arg"]) or oc.get("meta_at") != ["arg"]:
        fails.append(dict(clause="dump-roundtrip", option="base_dir", original=oa.get("dict"), rebuilt=oc.get("dict"),
                          rebuilt_at=dict(data_at=oc.get("data_at"), meta_at=oc.get("meta_at"))))
    # name: the default cluster of an environment without base_dir lives under ~/.memento/env/<name>
    h = os.path.join(scratch, "homedir", ".memento", "env")
    roots = {"cfg": os.path.join(h, "n_cfg", "cluster", "default"), "arg": os.path.join(h, "n_arg", "cluster", "default")}
    env_a = Environment({"name": "n_cfg"}, name="n_arg")
    env_b = Environment({"name": "n_arg"})
    oa, ob = behaviour(env_a, None, roots, 14), behaviour(env_b, None, dict(roots), 15)
    if oa.get("data_at") != ["arg"] or oa.get("meta_at") != ["arg"]:
        fails.append(dict(clause="argument-overrides-config", option="name", observed=dict(data_at=oa.get("data_at"), meta_at=oa.get("meta_at")),
                          expected="default cluster under the environment name given as argument"))
    if oa.get("dict") != ob.get("dict"):
        fails.append(dict(clause="config-equals-argument", option="name", via_config=ob.get("dict"), via_arguments=oa.get("dict")))
    env_c = Environment(env_a.to_dict())
    oc = behaviour(env_c, None, roots, 16)
    if oc.get("dict") != oa.get("dict") or oc.get("meta_at") != ["arg"]:
        fails.append(dict(clause="dump-roundtrip", option="name", original=oa.get("dict"), rebuilt=oc.get("dict")))
    return fails


def check_path_spellings(scratch):
    """paths that are not absolute (relative to the working directory, starting with `~`, with `..` components): the same string
    as configuration value and as constructor argument names the same store"""
    from twosigma.memento import Environment, ConfigurationRepository, FunctionCluster
    from twosigma.memento.storage_filesystem import FilesystemStorageBackend
    fails = []
    os.environ["HOME"] = os.path.join(scratch, "homedir")
    cwd = os.getcwd()
    work = os.path.join(scratch, "work")
    os.makedirs(work)
    os.makedirs(os.environ["HOME"], exist_ok=True)
    os.chdir(work)
    try:
        for i, (pth, mpth) in enumerate([("~/md%d", None), ("~/md%d", "~/mm%d"), ("rel%d/data", None), ("rel%d/data", "rel%d/meta"),
                                         ("./a%d/../b%d", None), ("$HOME/e%d", None)]):
            pth = pth.replace("%d", str(i)); mpth = mpth.replace("%d", str(i)) if mpth else None
            cfg = {"type": "filesystem", "path": pth}
            kw = dict(path=pth)
            if mpth:
                cfg["metadata_path"] = mpth
                kw["metadata_path"] = mpth
            sigs = {}
            for j, how in enumerate(("config", "arguments", "cluster-config", "config+arguments")):
                name = "c18p_%d" % _n[0]
                _n[0] += 1
                if how == "config":
                    cl = FunctionCluster(name=name, storage=FilesystemStorageBackend(config=dict(cfg)))
                elif how == "arguments":
                    cl = FunctionCluster(name=name, storage=FilesystemStorageBackend(**kw))
                elif how == "cluster-config":
                    cl = FunctionCluster(config={"name": name, "storage": dict(cfg)})
                else:
                    other = {"type": "filesystem", "path": "~/other"}
                    if mpth:
                        other["metadata_path"] = "~/otherm"
                    cl = FunctionCluster(name=name, storage=FilesystemStorageBackend(config=other, **kw))
                env = Environment(name="e", base_dir=scratch, repos=[ConfigurationRepository(name="r", clusters={name: cl})])
                before = set(files_under(scratch))
                obs = behaviour(env, name, {}, 100 + 10 * i + j)
                new = sorted(set(files_under(scratch)) - before)
                tops = sorted({os.sep.join(f.split(os.sep)[:3]) for f in new if (os.sep + "c" + os.sep) in f or (os.sep + "m" + os.sep) in f})
                d = obs.get("dict", {})
                sigs[how] = dict(dict_path=d.get("path"), dict_meta=d.get("metadata_path"), second_call_ran=obs.get("second_call_ran"))
                sigs[how]["files"] = sorted({f.split(os.sep + "c" + os.sep)[0].split(os.sep + "m" + os.sep)[0] for f in new
                                             if (os.sep + "c" + os.sep) in f or (os.sep + "m" + os.sep) in f})
                # the next way of giving the same options finds what this one stored: forget it again
                try:
                    env.get_cluster(name).storage.forget_everything()
                except Exception:
                    pass
            ref = sigs["arguments"]
            for how, sg in sigs.items():
                if sg != ref:
                    fails.append(dict(clause="config-equals-argument", option="path", source=how, options=cfg, via_config=sg, via_arguments=ref))
                    break
    finally:
        os.chdir(cwd)
    return fails


def storage_cases(rng, quick):
    """the full matrix of presence patterns for config-only cases x sources; argument-overrides sampled"""
    vals = dict(path=["A", "B"], meta=["B", "C", "A"], cache=[8, 0, 2, 0.5, 2.5], ro=[False, True])
    cases = []
    for pres in itertools.product([False, True], repeat=4):
        cfg = {}
        for on, k in zip(pres, ("path", "meta", "cache", "ro")):
            cfg[k] = rng.choice(vals[k]) if on else None
        if cfg["meta"] is not None and cfg["meta"] == cfg["path"]:
            cfg["meta"] = "C"
        for source in ("dict", "json", "yaml"):
            cases.append(dict(source=source, cfg=cfg, args=dict(path=None, meta=None, cache=None, ro=None)))
    n_over = 24 if quick else 200
    for _ in range(n_over):
        cfg = {k: (rng.choice(vals[k]) if rng.random() < 0.6 else None) for k in vals}
        args = {k: (rng.choice(vals[k]) if rng.random() < 0.5 else None) for k in vals}
        if not any(v is not None for v in args.values()):
            args["ro"] = False
        cases.append(dict(source="dict", cfg=cfg, args=args))
    if quick:
        keep = [c for c in cases if any(v is not None for v in c["args"].values())]
        rest = [c for c in cases if c not in keep]
        rng.shuffle(rest)
        cases = rest[:30] + keep
    return cases


def main(chk, replay=None):
    if replay is not None:
        scratch = tempfile.mkdtemp(prefix="c18r_")
        home = os.environ.get("HOME")
        try:
            fails, diffs, obs = check_storage(replay["case"], scratch)
            print(json.dumps(dict(still_fails=bool(fails), observed=fails[:2], model_diffs=diffs[:2]), default=str))
            return 1 if fails else 0
        finally:
            if home is not None:
                os.environ["HOME"] = home
            shutil.rmtree(scratch, ignore_errors=True)
    chk.rule = ("option combinations: all 16 presence patterns of (path, metadata_path, memory_cache_mb, readonly) x sources {inline "
                "dict, JSON environment file, YAML repository template with parameters} compared with the same options as constructor "
                "arguments; sampled argument-overrides-config combinations; storage types {filesystem, memory, null} x runner types "
                "{default, local, null}; repository lists (1-4 repositories, duplicated cluster names, built directly / by prepend / "
                "append / from a dump); every environment also rebuilt from its to_dict(). Distinct = distinct case; non-trivial = at "
                "least one option present.")
    proof_ok = chk.build_and_audit()
    quick = chk.tier == "quick"
    rng = chk.rng
    home = os.environ.get("HOME")
    reported = 0
    try:
        for case in storage_cases(rng, quick):
            scratch = tempfile.mkdtemp(prefix="c18_", dir=chk.tmpdir())
            try:
                fails, diffs, obs = check_storage(case, scratch)
            finally:
                shutil.rmtree(scratch, ignore_errors=True)
            chk.case(case, nontrivial=any(v is not None for v in list(case["cfg"].values()) + list(case["args"].values())),
                     sample=dict(case=case, observed={k: obs.get(k) for k in ("kind", "data_at", "meta_at", "cache", "read_only")}))
            chk.count("source:" + case["source"])
            chk.count("with-arguments" if any(v is not None for v in case["args"].values()) else "config-only")
            for d in diffs[:2]:
                chk.correspondence_break("config-model:" + d["component"], dict(diff=d, case=case))
            for f in fails:
                if reported < 6:
                    p = chk.violation({"what": "configuration: %s (%s)" % (f["clause"], json.dumps({k: v for k, v in f.items() if k in ("option", "source", "options")})),
                                       "class": {"clause": f["clause"]}, "case": case, "observed": f})
                    reported += bool(p)
        forced = [(3, True, "prepend"), (3, True, "append"), (4, True, "prepend"), (4, True, "append"), (3, False, "dump"), (4, False, "dump")]
        for i in range((12 if quick else 150) + 2 * len(forced)):
            scratch = tempfile.mkdtemp(prefix="c18o_", dir=chk.tmpdir())
            try:
                # (first: repositories that share a name, one of them added to the front / the end afterwards)
                fails, diffs, info = check_order(rng, scratch, forced[i % len(forced)] if i < 2 * len(forced) else None)
            finally:
                shutil.rmtree(scratch, ignore_errors=True)
            chk.case(["order", info], sample=dict(order=info))
            chk.count("repository-order:" + info["built"])
            for d in diffs[:1]:
                chk.correspondence_break("config-model:get_cluster", dict(diff=d))
            for f in fails[:1]:
                if reported < 6:
                    p = chk.violation({"what": "configuration: %s for %s" % (f["clause"], f["cluster"]), "class": {"clause": f["clause"]},
                                       "observed": f, "case": None})
                    reported += bool(p)
        scratch = tempfile.mkdtemp(prefix="c18t_", dir=chk.tmpdir())
        for f in check_types(scratch):
            chk.violation({"what": "configuration: %s" % f["clause"], "class": {"clause": f["clause"]}, "observed": f, "case": None})
        chk.case(["types"], sample=dict(types="3 storage types x 3 runner settings"))
        chk.count("storage-runner-type-combinations", 9)
        scratch = tempfile.mkdtemp(prefix="c18e_", dir=chk.tmpdir())
        for f in check_environment_arguments(scratch):
            chk.violation({"what": "configuration: %s (Environment option %s)" % (f["clause"], f["option"]), "class": {"clause": f["clause"], "option": f["option"]},
                           "observed": f, "case": None})
        chk.case(["environment-arguments"], nontrivial=True, sample=dict(options=["name", "base_dir"], cluster="default"))
        chk.count("environment-argument-overrides", 2)
        scratch = tempfile.mkdtemp(prefix="c18p_", dir=chk.tmpdir())
        for f in check_path_spellings(scratch):
            chk.violation({"what": "configuration: %s (path spelled %r: %s)" % (f["clause"], f["options"]["path"], f["source"]),
                           "class": {"clause": f["clause"], "option": "path-spelling"}, "observed": f, "case": None})
        chk.case(["path-spellings"], nontrivial=True, sample=dict(paths=["~/x", "rel/x", "./a/../b", "$HOME/x"]))
        chk.count("path-spellings", 6)
    finally:
        if home is not None:
            os.environ["HOME"] = home


if __name__ == "__main__":
    sys.exit(run_check(PROP, main, sys.argv[1:]))
