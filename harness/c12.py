"""C12 — whatever was stored stays listable and readable as names and code evolve.

Lean: Model/QName.lean (build / parse = the regular expression as explicit searches / escape / unquote /
listing names / resolve / readMemento / getMemento / listFunctions), Lemmas/QNameLemmas.lean,
Props/C12.lean (round trip for all admissible parts incl. every version string, totality of
resolution, bound iff module+function+version match, reading never raises for every later code base).

Correspondence streams (real code vs `mmodel qname`):
  parse        FunctionReference.parse_qualified_name on exhaustive small + random strings
  build        UnboundExternalMementoFunction(...).fn_reference().qualified_name on part tuples
  escape/unquote/listing   _escape_key, the module's unquote, real list_keys_nonversioned on real entries
  resolve      FunctionReference.from_qualified_name against real modules (described by introspection)
  real-name / lsfs / readm   names of real registered functions, real on-disk directories and the
               names inside real stored memento JSON, decoded by the real code under a later edition
Property oracle (on the real code only): admissible parts split back exactly; stored entries are found
again by call / memento / list_mementos / list_memoized_functions (memory and filesystem backends);
after an evolution of a caller/callee pair (in-process re-definition and fresh child processes) no read
raises, the pinned caller is served without re-execution, and the callee reference is external exactly
when no function with that module, name and version exists any more.
"""
import importlib
import itertools
import json
import keyword
import os
import re as _re
import shutil
import string
import subprocess
import sys

import common
from common import run_check, model_batch, Infra, hexs, unhexs

PROP = "C12"
CHILD = os.path.join(os.path.dirname(os.path.abspath(__file__)), "c12child.py")
ALPHA = string.ascii_letters + string.digits + "._-+=:#@"


def oh(x):
    return "~" if x is None else hexs(x)


def unoh(t):
    return None if t == "~" else unhexs(t)


def plist(ps):
    """parameter-name list token: ~ = None, [] = empty, else comma-separated hex"""
    if ps is None:
        return "~"
    return "[]" if not ps else ",".join(hexs(x) for x in ps)


def unplist(t):
    if t == "~":
        return None
    return [] if t == "[]" else [unhexs(x) for x in t.split(",")]


def r3(ref):
    """(external, qualified name, cluster) of an observed reference"""
    return ref[:3]


# ----------------------------------------------------------------------------------------------
# admissibility (the domain of theorem `parse_build`), restated in Python
# ----------------------------------------------------------------------------------------------

def adm_cluster(c):
    return c is None or ("#" not in c and "::" not in c and not c.endswith(":"))


def adm_module(m):
    return ":" not in m and "#" not in m


def adm_function(f):
    return "#" not in f and "::" not in f and not f.startswith(":")


def adm_version(v):
    return v is None or "\n" not in v


def adm(c, m, f, v):
    return adm_cluster(c) and adm_module(m) and adm_function(f) and adm_version(v)


def canonical_name(c, m, f, v):
    return ("" if c is None else c + "::") + m + ":" + f + ("" if v is None else "#" + v)


def importable_name(m):
    return not m.startswith(".")


# ----------------------------------------------------------------------------------------------
# generators
# ----------------------------------------------------------------------------------------------

CORNER_VERSIONS = ["1", "v:1", "a::b:c", "#", "##", ":", "::", "1#2", "x.link", ".link", "a.memento.json", "1:", ":1",
                   "c::m:f#v", "-", "=", "a@b", "1.0+build=7", "", "10", "#:", ":#", ":::", "k::m:f", "m:f", "1_2-3"]
CORNER_CLUSTERS = ["k", "k:c", "k.c", "a-b+c=d@e", ":k", "K_1", "a:b:c", "1", ".k", ".scratch", "-", "@"]
VER_PIECES = ["1", "2", "a", "v", "x", "Z", "0", ".", "_", "-", "+", "=", ":", "::", "#", "@", ".link", "m:f", "k::"]
IDENT_HEAD = string.ascii_letters + "_"
IDENT_TAIL = string.ascii_letters + string.digits + "_"


def gen_ident(rng, maxlen=6):
    s = rng.choice(IDENT_HEAD) + "".join(rng.choice(IDENT_TAIL) for _ in range(rng.randint(0, maxlen - 1)))
    if s.startswith("__"):
        s = "u" + s
    return s + "_" if keyword.iskeyword(s) or keyword.issoftkeyword(s) or s in ("REC", "memento_function", "types") else s


def gen_version(rng):
    if rng.random() < 0.3:
        return rng.choice(CORNER_VERSIONS)
    return "".join(rng.choice(VER_PIECES) for _ in range(rng.randint(1, 6)))


def gen_cluster(rng):
    """admissible cluster name over the alphabet (or None = default cluster)"""
    r = rng.random()
    if r < 0.3:
        return None
    if r < 0.6:
        return rng.choice(CORNER_CLUSTERS)
    while True:
        c = "".join(rng.choice("kcAZ09._-+=:@") for _ in range(rng.randint(1, 6)))
        if adm_cluster(c):
            return c


def gen_parts(rng):
    """mostly admissible (cluster, module, function, version); sometimes one part is spoiled"""
    c = gen_cluster(rng)
    m = ".".join(gen_ident(rng, 4) for _ in range(rng.randint(1, 3)))
    f = gen_ident(rng, 5)
    if rng.random() < 0.15:
        f = f + rng.choice([":", ".", ":g", ".<locals>.h", ":a:b"])        # still admissible for the grammar
    v = None if rng.random() < 0.15 else gen_version(rng)
    if rng.random() < 0.25:
        which = rng.randint(0, 3)
        junk = rng.choice([":", "::", "#", "\n", ".", ""])
        if which == 0 and c is not None:
            c = rng.choice([c + junk, junk + c, c[:1] + junk + c[1:]])
        elif which == 1:
            m = rng.choice([m + junk, junk + m])
        elif which == 2:
            f = rng.choice([f + junk, junk + f])
        elif v is not None:
            v = rng.choice([v + junk, junk + v])
    return c, m, f, v


def small_strings(alpha, maxlen):
    for n in range(maxlen + 1):
        for t in itertools.product(alpha, repeat=n):
            yield "".join(t)


# ----------------------------------------------------------------------------------------------
# real-code adapters
# ----------------------------------------------------------------------------------------------

def real_parse(s):
    from twosigma.memento.reference import FunctionReference
    try:
        d = FunctionReference.parse_qualified_name(s)
    except ValueError:
        return "err:ValueError"
    return (d["cluster"], d["module"], d["function"], d["version"])


def real_build(c, m, f, v):
    from twosigma.memento.external import UnboundExternalMementoFunction
    try:
        return UnboundExternalMementoFunction(cluster_name=c, module_name=m, function_name=f, version=v,
                                              parameter_names=[]).fn_reference().qualified_name
    except Exception as e:  # noqa: BLE001 - ValueError = "the stub's own name does not parse"; anything else is reported
        return ("err", type(e).__name__)


def show_parts(p):
    return p if isinstance(p, str) else " ".join([oh(p[0]), hexs(p[1]), hexs(p[2]), oh(p[3])])


class Script:
    """collects driver lines + handlers; one batch run"""

    def __init__(self):
        self.lines = []
        self.handlers = []

    def add(self, line, handler=None):
        self.lines.append(line)
        self.handlers.append(handler)

    def run(self, enabled=True):
        if not enabled or not self.lines:
            return
        outs = model_batch("qname", self.lines)
        for o, h in zip(outs, self.handlers):
            if h is not None:
                h(o)


# ----------------------------------------------------------------------------------------------
# the check
# ----------------------------------------------------------------------------------------------

class Ctx:
    def __init__(self, chk, proof_ok):
        self.chk = chk
        self.proof_ok = proof_ok
        self.reported = {}
        self.owned = set()
        self.nroot = 0

    def viol(self, what, cls, replay):
        """at most 2 replays per root-cause key (clause, api, exception, '.link' involved); the full class goes into the replay"""
        link = ".link" in json.dumps(replay)
        cls = dict(cls, link_suffix_involved=link)
        key = json.dumps([cls.get("clause"), cls.get("api"), cls.get("exception"), link])
        self.per_stream = getattr(self, "per_stream", {})
        if self.reported.get(key, 0) >= 2 or self.per_stream.get(replay.get("kind"), 0) >= 4:
            self.chk.count("violation-suppressed-duplicate")
            return
        self.reported[key] = self.reported.get(key, 0) + 1
        self.per_stream[replay.get("kind")] = self.per_stream.get(replay.get("kind"), 0) + 1
        self.chk.violation(dict(what=what, **{"class": cls}, replay=replay))

    def new_root(self):
        self.nroot += 1
        d = os.path.join(self.chk.tmpdir(), "r%d" % self.nroot)
        os.makedirs(d)
        return d


# ---- stream A: names ----------------------------------------------------------------------------

def names_case(parts):
    """property oracle for one tuple of parts on the real code; returns a failure dict or None"""
    c, m, f, v = parts
    if not adm(c, m, f, v):
        return None
    b = real_build(c, m, f, v)
    if isinstance(b, tuple):
        return dict(what="building the name of admissible parts raised " + b[1], parts=list(parts), exception=b[1])
    p = real_parse(b)
    if p != (c, m, f, v):
        return dict(what="the qualified name of admissible parts does not split back into exactly its parts",
                    parts=list(parts), name=b, parsed=list(p) if not isinstance(p, str) else p)
    return None


def version_class(v):
    if v is None:
        return "none"
    for tag, t in (("double-colon", "::"), ("colon", ":"), ("hash", "#")):
        if t in v:
            return tag
    return "plain"


def stream_names(ctx, quick):
    chk, rng = ctx.chk, ctx.chk.rng
    sc = Script()
    # A1: parse on exhaustive small strings + random strings
    strings = list(small_strings("a:#.", 7 if quick else 8))
    if not quick:
        strings += list(small_strings("a:#\n", 6))
    extra = ALPHA + "\n%<> /"
    for _ in range(6000 if quick else 50000):
        n = rng.randint(0, 24)
        strings.append("".join(rng.choice(extra if rng.random() < 0.3 else "ab1.:#") for _ in range(n)))
    for s in strings:
        rp = show_parts(real_parse(s))
        chk.count("parse:" + ("err" if rp.startswith("err") else "ok"))

        def h(o, s=s, rp=rp):
            if o != rp:
                chk.correspondence_break("parse", dict(string=s, real=rp, model=o))
        sc.add("parse " + hexs(s), h)
    chk.case(["parse-strings", len(strings)], nontrivial=False)
    # A2: build + round trip
    tuples = []
    one = [None, "", "a", ":", "#", "."]
    for c in one:
        for m in one[1:]:
            for f in one[1:]:
                for v in one:
                    tuples.append((c, m, f, v))
    if not quick:
        two = list(small_strings("a:#", 2))
        for c in [None] + two:
            for m in two:
                for f in two:
                    for v in [None] + two:
                        tuples.append((c, m, f, v))
    for v in CORNER_VERSIONS:
        for c in [None] + CORNER_CLUSTERS:
            tuples.append((c, "pkg.mod", "fn", v))
    for _ in range(6000 if quick else 50000):
        tuples.append(gen_parts(rng))
    pending = []
    for parts in tuples:
        c, m, f, v = parts
        a = adm(*parts)
        b = real_build(*parts)
        chk.case(["parts", list(parts)], nontrivial=a and v is not None and version_class(v) != "plain",
                 sample=dict(parts=list(parts), name=b if isinstance(b, str) else "ValueError") if a and version_class(v) == "double-colon" else None)
        chk.count("parts:" + ("admissible" if a else "inadmissible") + ":version-" + version_class(v))
        fail = names_case(parts)
        if fail:
            ctx.viol(fail["what"], {"clause": "roundtrip", "version": version_class(v), "cluster": "default" if c is None else "named",
                                    "exception": fail.get("exception")},
                     dict(kind="names", parts=list(parts), detail=fail))
        line = "build %s %s %s %s" % (oh(c), hexs(m), hexs(f), oh(v))
        if isinstance(b, str):
            def h(o, parts=parts, b=b):
                if o != hexs(b):
                    chk.correspondence_break("build", dict(parts=list(parts), real=b, model=unhexs(o) if o != "bad-op" else o))
            sc.add(line, h)
            rp = show_parts(real_parse(b))

            def h2(o, b=b, rp=rp):
                if o != rp:
                    chk.correspondence_break("parse", dict(string=b, real=rp, model=o))
            sc.add("parse " + hexs(b), h2)
        else:
            # the stub constructor re-parses its own name: ValueError <=> the built name does not parse
            def h(o, parts=parts):
                pending.append((parts, o))
            if b[1] == "ValueError":
                sc.add(line, h)
            else:
                chk.correspondence_break("build", dict(parts=list(parts), real="raised " + b[1], model="(never raises)"))
            chk.count("build:" + b[1])
    sc.run(ctx.proof_ok)
    sc2 = Script()
    for parts, o in pending:
        if o == "bad-op":
            chk.correspondence_break("build", dict(parts=list(parts), model=o))
            continue

        def h3(o2, parts=parts, name=o):
            if o2 != "err:ValueError":
                chk.correspondence_break("build", dict(parts=list(parts), real="ValueError (stub name unparsable)",
                                                       model_name=unhexs(name), model_parse=o2))
        sc2.add("parse " + o, h3)
    sc2.run(ctx.proof_ok)


# ---- stream A3: file names ----------------------------------------------------------------------

def listing_case(root, names):
    """names: list of [key, is_dir]. Creates real entries under root/d, lists them with the real
    _FilesystemDataSource; returns (entries on disk, listed keys)"""
    from twosigma.memento.storage_filesystem import _FilesystemDataSource
    from twosigma.memento.types import DataSourceKey
    ds = _FilesystemDataSource(root)
    d = os.path.join(root, "d")
    os.makedirs(d, exist_ok=True)
    entries = []
    for key, is_dir in names:
        e = ds._escape_key(key)
        p = os.path.join(d, e if is_dir else e + ".link")
        if is_dir:
            os.makedirs(p, exist_ok=True)
        else:
            open(p, "w").close()
        entries.append([e if is_dir else e + ".link", is_dir])
    listed = sorted(k.key for k in ds.list_keys_nonversioned(DataSourceKey("d")))
    return entries, listed


def stream_files(ctx, quick):
    chk, rng = ctx.chk, ctx.chk.rng
    from twosigma.memento import storage_filesystem as sfs
    ds = sfs._FilesystemDataSource(ctx.new_root())
    sc = Script()
    pool = "ab1.:#@%34Aaf-"
    unquote = getattr(sfs, "unquote", None)
    if unquote is None:
        # the module no longer decodes file names with the function the model describes: the character-level stream cannot be
        # compared; the listings of real entries below still say whether names come back as they were stored
        chk.correspondence_break("unquote-unavailable", dict(note="storage_filesystem has no name `unquote` any more"))
    strings = ["", ":", "::", "%3A", "%3a", "%", "%%", "%4", "%41", "%zz", "a%3Ab", "x.link", ".link", "%2Elink", "a:b.link"]
    for _ in range(1500 if quick else 30000):
        strings.append("".join(rng.choice(pool) for _ in range(rng.randint(0, 14))))
    for s in strings:
        try:
            re_ = ds._escape_key(s)
        except Exception as e:
            ctx.viol("a key over admissible name characters is refused by the file-name escaping", {"clause": "escape-accepts"},
                     dict(kind="escape", string=s, error=repr(e)[:200]))
            continue

        def h(o, s=s, re_=re_):
            if o != hexs(re_):
                chk.correspondence_break("escape", dict(string=s, real=re_, model=o))
        sc.add("esc " + hexs(s), h)
        if unquote is not None and not _re.search(r"%[89a-fA-F][0-9a-fA-F]", s):       # non-ASCII bytes: UTF-8 decoding is not modelled
            ru = unquote(s)

            def h2(o, s=s, ru=ru):
                if o != hexs(ru):
                    chk.correspondence_break("unquote", dict(string=s, real=ru, model=o))
            sc.add("unq " + hexs(s), h2)
        chk.count("file-name-strings")
        # oracle: unquote(escape(s)) == s for names without '%'
        if unquote is not None and "%" not in s and unquote(re_) != s:
            ctx.viol("unquote(_escape_key(s)) differs from s", {"clause": "escape-roundtrip"}, dict(kind="escape", string=s))
    # real listings of real entries (directories and link files)
    for it in range(6 if quick else 60):
        root = ctx.new_root()
        names = []
        seen = set()
        cands = ["m:f#x.link", "m:f#x", "k::m:f#1", "a.link", "a", "b.link.link", "plain", "v:1#.link", "c%41", ".linkx", "m:f#1.0+build.5", "a+b", "+"]
        for _ in range(12):
            cands.append("".join(rng.choice("ab1.:#@-+") for _ in range(rng.randint(1, 8))) + rng.choice(["", "", ".link", ".memento.json"]))
        for key in cands:
            is_dir = rng.random() < 0.5
            try:
                e = sfs._FilesystemDataSource._escape_key(None, key) + ("" if is_dir else ".link")
            except Exception:
                continue            # (refused keys are reported by the escaping stream above)
            if key in (".", "..") or e in seen or e in (".versions", ".tmp") or "/" in key:
                continue
            seen.add(e)
            names.append([key, is_dir])
        entries, listed = listing_case(root, names)
        chk.case(["listing", names], nontrivial=True)
        chk.count("listing-entries", len(entries))
        expect = sorted("d/" + k for k, _ in names if "%" not in k)
        missing = [k for k in expect if k not in listed]
        if missing:
            ctx.viol("a stored key is not listed under its own name by list_keys_nonversioned",
                     {"clause": "listing-name", "entry": "directory" if any(dk for kk, dk in names if "d/" + kk in missing) else "file",
                      "suffix": ".link" if any(kk.endswith(".link") for kk, dk in names if "d/" + kk in missing) else "other"},
                     dict(kind="listing", names=names, missing=missing, listed=listed))
        got = []

        def mk(i):
            def h(o):
                got.append(o)
            return h
        sc_l = Script()
        for i, (e, is_dir) in enumerate(entries):
            sc_l.add("lsname %d %s" % (1 if is_dir else 0, hexs(e)), mk(i))
        sc_l.run(ctx.proof_ok)
        if ctx.proof_ok:
            model_listed = sorted("d/" + unhexs(o) for o in got)
            if model_listed != listed:
                chk.correspondence_break("listing", dict(entries=entries, real=listed, model=model_listed))
    sc.run(ctx.proof_ok)


# ---- stream B: resolve ----------------------------------------------------------------------------

def codebase_lines(desc):
    lines = ["reset"]
    for mn, attrs in desc:
        lines.append("mod " + hexs(mn))
        for path, kind, c, fm, q, ver, ps in attrs:
            if kind == "mfn":
                lines.append("def %s %s mfn %s %s %s %s %s" % (hexs(mn), hexs(path), oh(c), hexs(fm), hexs(q), hexs(ver), plist(ps)))
            else:
                lines.append("def %s %s %s" % (hexs(mn), hexs(path), kind))
    return lines


def matches(desc, m, f, v):
    """module, function and version all match a memento function of the described code base"""
    if m == "" or "<locals>" in f:
        return False
    for mn, attrs in desc:
        if mn != m:
            continue
        found = None
        for path, kind, c, fm, q, ver, ps in attrs:
            if path == f:
                found = (kind, ver)       # later definitions rebind: keep the last
        if found and found[0] == "mfn" and (v is None or v == found[1]):
            return True
        return False
    return False


def real_resolve(q, pn=None):
    from twosigma.memento.reference import FunctionReference
    import c12world as W
    ok, r = W.guarded(lambda: W.ref_tuple(FunctionReference.from_qualified_name(q, parameter_names=pn)))
    return ok, r


def show_model_ref(o):
    """'bound QN C PS' / 'external QN C PS' -> [external, qn, cluster, params] ; errors stay strings"""
    t = o.split(" ")
    if t[0] in ("bound", "external") and len(t) == 4:
        return [t[0] == "external", unhexs(t[1]), unoh(t[2]), unplist(t[3])]
    return o


def short_model_ref(tok):
    k, q, c, ps = tok.split(":")
    return [k == "e", unhexs(q), unoh(c), unplist(ps)]


def resolve_case(ctx, case):
    """case: {modules: {name: source}, describe: [module names], queries: [qualified names]}"""
    import c12world as W
    chk = ctx.chk
    W.install_edition(case["modules"], ctx.owned)
    W.make_env(ctx.new_root(), {None: None}, "fs")
    desc = W.describe_codebase(case["describe"])
    fails = []
    sc = Script()
    for ln in codebase_lines(desc):
        sc.add(ln)
    for qi, q in enumerate(case["queries"]):
        pn = [None, ["a"], [], ["x", "y"]][qi % 4]
        ok, r = real_resolve(q, pn)
        p = real_parse(q)
        chk.count("resolve:" + ("raised:" + r["exception"] if not ok else ("external" if r[0] else "bound")))
        # admissible stored name = exactly the name built from admissible parts (e.g. no newline after the version)
        if not isinstance(p, str) and adm(*p) and importable_name(p[1]) and canonical_name(*p) == q:
            if not ok:
                fails.append(dict(what="from_qualified_name raised on a stored name with admissible parts", query=q, error=r,
                                  cls={"clause": "resolve-total", "exception": r["exception"], "cluster": "default" if p[0] is None else "named"}))
            else:
                mt = matches(desc, p[1], p[2], p[3])
                if r[0] != (not mt):
                    fails.append(dict(what="a reference is %s although module, function and version %s" %
                                      ("external" if r[0] else "bound", "all match" if mt else "do not all match"), query=q, got=r,
                                      cls={"clause": "bound-iff-match", "got": "external" if r[0] else "bound"}))
                if r[0] and (r[1] != q or r[2] != p[0] or r[3] != (pn or [])):
                    fails.append(dict(what="an external reference does not carry the stored name and cluster", query=q, got=r,
                                      cls={"clause": "external-keeps-name"}))
        real_canon = r if ok else "err:" + r["exception"]

        def h(o, q=q, real_canon=real_canon):
            mo = show_model_ref(o)
            if mo != real_canon:
                chk.correspondence_break("resolve", dict(query=q, real=real_canon, model=mo, codebase=desc))
        sc.add("resolve %s 0 %s" % (hexs(q), plist(pn)), h)
    sc.run(ctx.proof_ok)
    return fails


def gen_resolve_case(rng, idx):
    import c12world as W
    pfx = "c12r%d" % idx
    mods = {}
    infos = []       # (module, attr, kind, cluster, version)
    names = [pfx + "_a", pfx + "_p.sub", pfx + "_b"][:rng.randint(1, 3)]
    for mn in names:
        src = W.HEADER + "import types\n"
        for j in range(rng.randint(1, 3)):
            an = gen_ident(rng, 4) + str(j)
            kind = rng.choice(["mfn", "mfn", "mfn", "plain", "value"])
            if kind == "mfn":
                c, v = gen_cluster(rng), gen_version(rng)
                src += "%s\ndef %s(x):\n    return x\n" % (W.deco(c, v if rng.random() < 0.8 else None), an)
                infos.append((mn, an, "mfn", c, v))
                if rng.random() < 0.3:
                    src += "ns%d = types.SimpleNamespace(g=%s, k=3)\n" % (j, an)
                    infos.append((mn, "ns%d.g" % j, "mfn", c, v))
                    infos.append((mn, "ns%d.k" % j, "value", None, None))
                if rng.random() < 0.2:
                    src += "al%d = %s\n" % (j, an)
                    infos.append((mn, "al%d" % j, "mfn", c, v))
            elif kind == "plain":
                src += "def %s(x):\n    return x\n" % an
                infos.append((mn, an, "plain", None, None))
            else:
                src += "%s = 7\n" % an
                infos.append((mn, an, "value", None, None))
        mods[mn] = src
    return dict(modules=mods, describe=names + [pfx + "_missing"], infos=infos)


def resolve_queries(rng, case, desc):
    from twosigma.memento.external import UnboundExternalMementoFunction  # noqa: F401
    qs = []
    pfx_missing = case["describe"][-1]

    def name(c, m, f, v):
        return ("" if c is None else c + "::") + m + ":" + f + ("" if v is None else "#" + v)
    for mn, attrs in desc:
        for path, kind, c, fm, q, ver, ps in attrs:
            if path in ("memento_function", "REC", "types"):
                if rng.random() < 0.9:
                    continue
            vs = [ver, None, gen_version(rng)] if kind == "mfn" else [None, gen_version(rng)]
            if kind == "mfn":
                vs += [ver + "0", ver[:-1], ver + ".link", ver.upper()]
            for v in vs:
                for cc in {c, None, gen_cluster(rng)}:
                    if rng.random() < 0.6:
                        qs.append(name(cc, mn, path, v))
            qs.append(name(c, mn, path + "x", ver))
            qs.append(name(c, mn, "<locals>." + path, ver))
            qs.append(name(c, pfx_missing, path, ver))
            qs.append(name(c, mn + ".nope", path, ver))
            qs.append(name(c, "", path, ver))
            if rng.random() < 0.3:
                qs.append(name(c, "." + mn, path, ver))          # relative module: TypeError on both sides (inadmissible)
        qs.append(name(None, mn, "", None))
    for _ in range(6):
        c, m, f, v = gen_parts(rng)
        qs.append(name(c, "c12q_" + m.lstrip("."), f, v))
    qs += ["no-colon-here", "#", "a#b:c", ""]
    rng.shuffle(qs)
    return qs[:60]


def stream_resolve(ctx, quick):
    import c12world as W
    chk, rng = ctx.chk, ctx.chk.rng
    for i in range(30 if quick else 200):
        case = gen_resolve_case(rng, i)
        W.install_edition(case["modules"], ctx.owned)
        desc = W.describe_codebase(case["describe"])
        case["queries"] = resolve_queries(rng, case, desc)
        case.pop("infos")
        fails = resolve_case(ctx, case)
        chk.case(["resolve", sorted(case["modules"].items()), case["queries"]], nontrivial=True,
                 sample=dict(stream="resolve", modules=list(case["modules"]), queries=case["queries"][:3]) if i == 0 else None)
        for fl in fails:
            ctx.viol(fl["what"], fl["cls"], dict(kind="resolve", case=dict(modules=case["modules"], describe=case["describe"],
                                                                            queries=[fl["query"]]), detail={k: v for k, v in fl.items() if k != "cls"}))


# ---- stream C: stored entries are found again ---------------------------------------------------

def store_src(c, f, v):
    import c12world as W
    return W.HEADER + "%s\ndef %s(x):\n    REC.calls.append((%r, x))\n    return [x, %r]\n" % (W.deco(c, v), f, f, "r:" + v)


def store_case(ctx, case):
    """case: {backend, cluster, module, function, versions: [v1, v2], arg}
    edition 1 (version v1): call twice; edition 2 (v2): call twice; back to edition 1: served again.
    Every step: body executed exactly when nothing is stored under the current name; memento /
    list_mementos / list_memoized_functions find the entries under exactly their names."""
    import c12world as W
    chk = ctx.chk
    backend, c, m, f, arg = case["backend"], case["cluster"], case["module"], case["function"], case["arg"]
    v1, v2 = case["versions"]
    root = ctx.new_root()
    clusters = {None: None, c: None} if c is not None else {None: None}
    if backend == "mem":
        from twosigma.memento.storage_memory import MemoryStorageBackend
        clusters = {k: MemoryStorageBackend() for k in clusters}
    fails = []
    stored = []          # versions stored so far
    sc = Script()
    cls_base = {"clause": "found-again", "backend": backend, "cluster": "default" if c is None else "named"}

    def fail(what, step, **kw):
        fails.append(dict(what=what, step=step, cls=dict(cls_base, api=kw.pop("api")), **kw))

    for step, v in enumerate([v1, v2, v1]):
        W.install_edition({m: store_src(c, f, v)}, ctx.owned)
        W.make_env(root, clusters, backend)              # fresh backend objects: fs reads come from disk
        fn = getattr(importlib.import_module(m), f)
        ok, qn = W.guarded(lambda: fn.fn_reference().qualified_name)
        if not ok:
            fail("fn_reference() raised", step, api="fn_reference", error=qn)
            break
        expect_qn = ("" if c is None else c + "::") + m + ":" + f + "#" + v
        p = real_parse(qn)
        if p != (c, m, f, v):
            fail("the qualified name of a registered function does not split back into exactly its parts", step,
                 api="parse_qualified_name", name=qn, parsed=p if isinstance(p, str) else list(p))

        def hq(o, qn=qn, v=v):
            if o != hexs(qn):
                chk.correspondence_break("real-name", dict(parts=[c, m, f, v], real=qn, model=unhexs(o) if o != "bad-op" else o))
        sc.add("real %s %s %s %s" % (oh(c), hexs(m), hexs(f), hexs(v)), hq)
        first = v not in stored
        n0 = len(W.REC.calls)
        ok, r = W.guarded(lambda: fn(arg))
        if not ok:
            fail("calling the function raised", step, api="call", error=r, name=expect_qn)
            break
        ex = len(W.REC.calls) - n0
        if ex != (1 if first else 0):
            fail("the body was %sexecuted although %s is stored under the function's current name" %
                 ("" if ex else "not ", "nothing" if first else "a result"), step, api="call", executed=ex, name=expect_qn)
        if first:
            stored.append(v)
        W.make_env(root, clusters, backend)
        obs = W.observe_function(m, f, arg, [c])
        chk.count("store-observations")
        if not obs["call"][0] or obs["executed"] != 0 or obs["call"][1] != repr([arg, "r:" + v]):
            fail("a second call did not serve the stored result", step, api="call", obs=obs["call"], executed=obs["executed"], name=expect_qn)
        okm, me = obs["memento"]
        if not okm or me is None or r3(me["own"]) != [False, qn, c]:
            fail("memento() does not find the stored entry under its name", step, api="memento", got=me, name=expect_qn)
        okl, lm = obs["list_mementos"]
        if not okl or len(lm) != 1 or r3(lm[0]["own"]) != [False, qn, c]:
            fail("list_mementos() does not return exactly the stored entry", step, api="list_mementos", got=lm, name=expect_qn)
        okf, lf = obs["list_functions"]["~" if c is None else c]
        want = sorted([[v != sv, ("" if c is None else c + "::") + m + ":" + f + "#" + sv, c] for sv in set(stored)], key=json.dumps)
        if not okf or [r3(x) for x in lf] != want:
            fail("list_memoized_functions() does not list the stored functions under exactly their names "
                 "(current version bound, other versions external)", step, api="list_memoized_functions", got=lf, expected=want)
        if backend == "fs":
            dirs = W.function_dirs(root, clusters, c)
            desc = W.describe_codebase([m])
            for ln in codebase_lines(desc):
                sc.add(ln)

            def hl(o, lf=lf, okf=okf, dirs=dirs):
                if o.startswith("ok"):
                    mo = sorted((short_model_ref(t) for t in o.split(" ")[1:]), key=json.dumps)
                else:
                    mo = o
                if not okf or mo != lf:
                    chk.correspondence_break("lsfs", dict(dirs=dirs, real=lf, model=mo))
            sc.add("lsfs " + " ".join(hexs(d) for d in dirs), hl)
    sc.run(ctx.proof_ok)
    return fails


def gen_store_case(rng, idx, backend):
    c = gen_cluster(rng)
    # the first characters of the module name vary (listings strip a directory prefix "m/" from keys)
    m = "%s12s%d_%s" % (rng.choice(["c", "m", "mm", "m_m", "M", "n"]), idx, ".".join(gen_ident(rng, 3) for _ in range(rng.randint(1, 2))))
    f = gen_ident(rng, 5)
    v1 = gen_version(rng)
    r = rng.random()
    if r < 0.2:
        v2 = v1 + rng.choice(["0", ".link", ":", "#", "::x", ".memento.json"])
    elif r < 0.35 and len(v1) > 1:
        v2 = v1[:-1]
    elif r < 0.45:
        v2 = v1.swapcase() if v1.swapcase() != v1 else v1 + "_"
    else:
        v2 = gen_version(rng)
    if v2 == v1:
        v2 = v1 + "b"
    return dict(backend=backend, cluster=c, module=m, function=f, versions=[v1, v2], arg=rng.randint(0, 9))


def stream_store(ctx, quick):
    chk, rng = ctx.chk, ctx.chk.rng
    n = 150 if quick else 1200
    fixed = [dict(backend=b, cluster=c, module=("c12sf%d.m" if i % 2 else "m12sf%d.m") % i, function="f", versions=vs, arg=1)
             for i, (b, c, vs) in enumerate([(b, c, vs) for b in ("fs", "mem") for c in (None, "k:c")
                                             for vs in (["v:1", "v:10"], ["x", "x.link"], ["a::b:c", "a#b"], ["1", ""])])]
    cases = fixed + [gen_store_case(rng, i, "fs" if i % 3 else "mem") for i in range(n)]
    for i, case in enumerate(cases):
        fails = store_case(ctx, case)
        vc = version_class(case["versions"][0])
        chk.case(["store", case], nontrivial=True, sample=dict(stream="store", **case) if i in (0, 17) else None)
        chk.count("store:%s:%s:version-%s" % (case["backend"], "default" if case["cluster"] is None else "named", vc))
        for fl in fails:
            ctx.viol(fl["what"], fl["cls"], dict(kind="store", case=case, detail={k: v for k, v in fl.items() if k != "cls"}))


# ---- stream D: evolutions -------------------------------------------------------------------------

EVOS = ["same", "edit", "edit_keepver", "remove", "rename", "alias", "recluster", "plain", "value", "modgone", "caller_body", "edit_deps"]


def evo_editions(sc):
    """the two editions {module: source} of scenario `sc`"""
    import c12world as W
    fm, gm, cf, cg, vf, vg, evo = sc["fmod"], sc["gmod"], sc["cf"], sc["cg"], sc["vf"], sc["vg"], sc["evo"]

    def gdef(cluster, version, body="x * 2", name="g"):
        return "%s\ndef %s(x):\n    return %s\n" % (W.deco(cluster, version), name, body)

    def fdef(call="g(x)", extra=""):
        return "%s\ndef f(x):\n    REC.calls.append(('f', x))\n%s    return [%s, 1]\n" % (W.deco(cf, vf), extra, call)

    def assemble(gsrc, fsrc, with_g=True):
        if fm == gm:
            return {fm: W.HEADER + gsrc + fsrc}
        eds = {fm: W.HEADER + (("from %s import %s\n" % (gm, with_g)) if with_g else "") + fsrc}
        if gsrc is not None:
            eds[gm] = W.HEADER + gsrc
        return eds
    e0 = assemble(gdef(cg, vg), fdef(), "g")
    if evo == "same":
        e1 = assemble(gdef(cg, vg), fdef(), "g")
    elif evo == "edit":
        e1 = assemble(gdef(cg, None if vg is None else vg + sc.get("bump", "2"), body="x * 3"), fdef(), "g")
    elif evo == "edit_deps":
        # the edited callee now calls two more memento functions of its module (its version changes with its code)
        helpers = gdef(cg, None, body="x + 1", name="h1") + gdef(cg, "h:2", body="x + 2", name="h2")
        e1 = assemble(helpers + gdef(cg, None if vg is None else vg + sc.get("bump", "2"), body="h1(x) * h2(x)"), fdef(), "g")
    elif evo == "edit_keepver":
        e1 = assemble(gdef(cg, vg, body="x * 3") if vg is not None else gdef(cg, vg), fdef(), "g")
    elif evo == "remove":
        e1 = assemble("", fdef(call="x"), False)
    elif evo == "rename":
        e1 = assemble(gdef(cg, vg, name="g_new"), fdef(call="g_new(x)"), "g_new")
    elif evo == "alias":
        e1 = assemble(gdef(cg, vg, name="g_new") + "g = g_new\n", fdef(call="g(x)"), "g")
    elif evo == "recluster":
        e1 = assemble(gdef(sc["cg2"], vg), fdef(), "g")
    elif evo == "plain":
        e1 = assemble("def g(x):\n    return x * 2\n", fdef(call="x"), "g")
    elif evo == "value":
        e1 = assemble("g = 5\n", fdef(call="x"), "g")
    elif evo == "modgone":
        e1 = assemble(None if fm != gm else "", fdef(call="x"), False)
    elif evo == "midgone":
        # the callee's module is `top.mid.leaf`: the package `top.mid` disappears while `top` stays
        e1 = assemble(None, fdef(call="x"), False)
        e1[gm.split(".")[0] + ".keep"] = W.HEADER
    elif evo == "caller_body":
        e1 = assemble(gdef(cg, vg), fdef(extra="    y = x + 100\n"), "g")
    else:
        raise ValueError(evo)
    return e0, e1


def run_child(spec, timeout=120):
    env = dict(os.environ)
    env["PYTHONPATH"] = common.REPO + os.pathsep + os.path.dirname(CHILD)
    env["PYTHONDONTWRITEBYTECODE"] = "1"
    p = subprocess.run([common.PY, "-B", CHILD, json.dumps(spec)], stdout=subprocess.PIPE, stderr=subprocess.PIPE,
                       text=True, timeout=timeout, env=env)
    lines = [ln for ln in p.stdout.split("\n") if ln.startswith("{")]
    if not lines:
        raise Infra("c12 child produced no output (rc=%s): %s" % (p.returncode, p.stderr[-800:]))
    return json.loads(lines[-1])


def evo_phase(ctx, sc, edition, root, clusters, pkgdir):
    """install `edition` and observe f(arg); returns (obs, codebase description)"""
    import c12world as W
    describe = sorted({sc["fmod"], sc["gmod"]})
    lst = sorted({sc["cf"], sc["cg"]}, key=lambda x: (x is not None, x))
    if sc["mode"] == "child":
        W.write_edition(edition, pkgdir)
        out = run_child(dict(root=root, pkgdir=pkgdir, clusters=list(clusters), describe=describe,
                             observe=dict(module=sc["fmod"], function="f", arg=sc["arg"], list=lst)))
        ok, obs = out["obs"]
        if not ok:
            return None, out["codebase"], obs
        return obs, out["codebase"], None
    W.install_edition(edition, ctx.owned)
    W.make_env(root, clusters, sc["backend"])
    ok, obs = W.guarded(lambda: W.observe_function(sc["fmod"], "f", sc["arg"], lst))
    desc = W.describe_codebase(describe)
    if not ok:
        return None, desc, obs
    return obs, desc, None


def evo_case(ctx, sc):
    import c12world as W
    chk = ctx.chk
    fails = []
    root = ctx.new_root()
    pkgdir = os.path.join(root, "pkg")
    cl_names = []
    for c in (None, sc["cf"], sc["cg"], sc.get("cg2")):
        if c not in cl_names:
            cl_names.append(c)
    clusters = {c: None for c in cl_names}
    if sc["backend"] == "mem":
        from twosigma.memento.storage_memory import MemoryStorageBackend
        clusters = {c: MemoryStorageBackend() for c in cl_names}
    e0, e1 = evo_editions(sc)
    base = {"clause": "evolution", "evo": sc["evo"], "caller_cluster": "default" if sc["cf"] is None else "named",
            "callee_cluster": "default" if sc["cg"] is None else "named", "backend": sc["backend"]}

    def fail(what, api, **kw):
        fails.append(dict(what=what, cls=dict(base, api=api), **kw))

    obs0, desc0, err0 = evo_phase(ctx, sc, e0, root, clusters, pkgdir)
    if obs0 is None or not obs0["call"][0] or not obs0["memento"][0] or obs0["memento"][1] is None:
        fail("storing the caller's result under the first edition failed", "store", obs=obs0, error=err0)
        return fails
    fqn = obs0["qn"]
    me0 = obs0["memento"][1]
    if len(me0["invocations"]) != 1:
        raise Infra("scenario did not record exactly one invocation: %r" % (me0,))
    gqn = me0["invocations"][0][1]
    obs1, desc1, err1 = evo_phase(ctx, sc, e1, root, clusters, pkgdir)
    chk.count("evolution:%s:%s" % (sc["mode"], sc["evo"]))
    if obs1 is None:
        fail("observing the caller under the evolved code base raised", "observe", error=err1)
        return fails
    # --- the property's oracle -------------------------------------------------------------
    gp = real_parse(gqn)
    g_exists = matches(desc1, gp[1], gp[2], gp[3])
    chk.count("callee-reference:" + ("still-exists" if g_exists else "vanished"))
    for api in ("call", "memento", "list_mementos", "trace_graph"):
        if not obs1[api][0]:
            fail("%s raised after the code base evolved" % api, api, error=obs1[api][1], stored_reference=gqn)
    for cname, (ok, v) in obs1["list_functions"].items():
        if not ok:
            fail("list_memoized_functions raised after the code base evolved", "list_memoized_functions", error=v,
                 cluster=cname, stored_reference=gqn)
    if sc["evo"] in ("edit", "same", "caller_body", "edit_deps"):
        # the callee's old entry is still in the store under its stored name: a memento query through the reference the
        # caller's memento carries for it (external after an edit) finds it
        oki, inv = obs1.get("invocation_entries", [True, None])
        if not oki:
            fail("a memento query through a recorded invocation's reference raised", "memento", error=inv, stored_reference=gqn)
        elif inv and not all(found for _, found in inv):
            fail("the stored entry of a recorded invocation is not found through the reference the caller's memento carries", "memento",
                 got=inv, stored_reference=gqn)
    if obs1["qn"] != fqn:
        raise Infra("the pinned caller changed its name: %r -> %r" % (fqn, obs1["qn"]))
    if obs1["call"][0] and (obs1["executed"] != 0 or obs1["call"][1] != obs0["call"][1]):
        fail("the caller's own version is current but its stored result was not served", "call",
             executed=obs1["executed"], before=obs0["call"][1], after=obs1["call"][1])
    views = []
    if obs1["memento"][0]:
        me1 = obs1["memento"][1]
        if me1 is None:
            fail("memento() returns None although the caller's own version is current", "memento", stored_reference=gqn)
        else:
            views.append(("memento", me1))
    if obs1["list_mementos"][0]:
        lm = obs1["list_mementos"][1]
        if len(lm) != 1:
            fail("list_mementos() does not return the stored entry", "list_mementos", got=lm)
        else:
            views.append(("list_mementos", lm[0]))
    for api, me in views:
        if r3(me["own"]) != [False, fqn, sc["cf"]]:
            fail("the caller's own reference is not bound under its name", api, got=me["own"])
        if sc["backend"] == "mem":
            continue          # live objects, nothing is decoded: the references are those of the storing edition
        if len(me["invocations"]) != 1 or me["invocations"][0][0] != (not g_exists):
            fail("the stored reference to the callee is reported %s although a function with that module, name and "
                 "version %s" % ("external" if me["invocations"] and me["invocations"][0][0] else "bound",
                                 "still exists" if g_exists else "no longer exists"), api, got=me["invocations"], stored_reference=gqn)
        elif me["invocations"][0][0] and me["invocations"][0][1] != gqn:
            fail("the external reference does not carry the stored name", api, got=me["invocations"], stored_reference=gqn)
    okf, lf = obs1["list_functions"]["~" if sc["cf"] is None else sc["cf"]]
    if okf and [False, fqn, sc["cf"]] not in [r3(x) for x in lf]:
        fail("the caller is not listed (bound, under its name) by list_memoized_functions", "list_memoized_functions", got=lf)
    okg, lg = obs1["list_functions"]["~" if sc["cg"] is None else sc["cg"]]
    # (a bound reference carries the name of the function found, which may differ by cluster or alias)
    if okg and not any((not r[0] and real_parse(r[1])[3] == gp[3]) if g_exists else (r[0] and r[1] == gqn) for r in lg):
        fail("the callee's stored entry is not listed as %s" % ("bound" if g_exists else "external"), "list_memoized_functions",
             got=lg, stored_reference=gqn)
    # --- correspondence: the names in the stored JSON, decoded by the model under edition 1 ---
    if ctx.proof_ok and sc["backend"] == "fs":
        names = W.stored_names(root, clusters, sc["cf"], fqn, me0["arg_hash"])
        # hypothesis `AdmCall` of theorem read_never_raises, checked on what the encoder really wrote
        for call in [names["own"]] + names["invocations"]:
            if call[1] is None or call[2] > len(call[1]):
                chk.correspondence_break("stored-call", dict(scenario=sc, stored=call, expected="parameterNames recorded and "
                                                             "covering the stored positional arguments (AdmCall)"))
        s = Script()
        for ln in codebase_lines(desc1):
            s.add(ln)
        me1 = obs1["memento"][1] if obs1["memento"][0] else "raised " + obs1["memento"][1]["exception"]

        def h(o):
            if not o.startswith("ok ") or not isinstance(me1, dict):
                if not (o.startswith("err:") and isinstance(me1, str) and me1 == "raised " + o[4:]):
                    chk.correspondence_break("readm", dict(scenario=sc, stored=names, real=me1, model=o))
                return
            toks = o.split(" ")[1:]
            bar = toks.index("|")
            refs = [short_model_ref(t) for t in toks[:bar]]
            deps = [short_model_ref(t) for t in toks[bar + 1:]]
            # function_dependencies is a set of references (equality by qualified name): duplicates collapse
            mo = dict(own=refs[0], invocations=refs[1:],
                      deps=sorted((json.loads(x) for x in {json.dumps(d) for d in deps}), key=json.dumps))
            real = dict(own=me1["own"], invocations=me1["invocations"], deps=me1["deps"])
            if mo != real:
                chk.correspondence_break("readm", dict(scenario=sc, stored=names, real=real, model=mo, codebase=desc1))

        def ctok(x):
            return "%s/%s/%d" % (hexs(x[0]), plist(x[1]), x[2])
        s.add("readm %s %s | %s" % (ctok(names["own"]), " ".join(ctok(x) for x in names["invocations"]),
                                    " ".join(ctok(x) for x in names["deps"])), h)
        for cname in {sc["cf"], sc["cg"]}:
            okx, lx = obs1["list_functions"]["~" if cname is None else cname]
            dirs = W.function_dirs(root, clusters, cname)

            def hl(o, lx=lx, okx=okx, dirs=dirs):
                mo = sorted((short_model_ref(t) for t in o.split(" ")[1:]), key=json.dumps) if o.startswith("ok") else o
                if not okx or mo != lx:
                    chk.correspondence_break("lsfs", dict(scenario=sc, dirs=dirs, real=lx, model=mo))
            s.add("lsfs " + " ".join(hexs(d) for d in dirs), hl)
        s.run()
    return fails


def gen_evo(rng, idx, mode, backend, evo=None, cf="?", cg="?"):
    cf = gen_cluster(rng) if cf == "?" else cf
    cg = (cf if rng.random() < 0.5 else gen_cluster(rng)) if cg == "?" else cg
    evo = evo or rng.choice(EVOS)
    fm = "c12e%d_a" % idx
    gm = fm if rng.random() < 0.5 else "c12e%d_p.b" % idx
    if evo == "modgone":
        gm = "c12e%d_p.b" % idx
    if evo == "midgone":
        gm = "c12e%d_p.q.b" % idx
    vg = None if rng.random() < 0.6 else gen_version(rng)
    if evo == "edit_keepver" and vg is None:
        vg = gen_version(rng)
    cg2 = gen_cluster(rng)
    while cg2 == cg:
        cg2 = gen_cluster(rng)
    vf = gen_version(rng)
    return dict(mode=mode, backend=backend, fmod=fm, gmod=gm, cf=cf, cg=cg, cg2=cg2, vf=vf, vg=vg, evo=evo, arg=rng.randint(0, 9),
                bump=rng.choice(["2", ".link", ":", "#1", "0"]))


def stream_evolution(ctx, quick):
    chk, rng = ctx.chk, ctx.chk.rng
    scs = []
    i = 0
    # every evolution x {default, named} caller/callee clusters, in-process on the filesystem backend
    for evo in EVOS:
        for cf, cg in ((None, None), ("k:c", "k:c"), (None, "kd"), ("kc", None)):
            scs.append(gen_evo(rng, i, "inproc", "fs", evo, cf, cg))
            i += 1
    for _ in range(40 if quick else 400):
        scs.append(gen_evo(rng, i, "inproc", "fs" if rng.random() < 0.75 else "mem"))
        i += 1
    nchild = 10 if quick else 90
    child_evos = ["edit", "remove", "recluster", "modgone", "edit_deps", "midgone", "rename", "midgone"] + EVOS
    for k in range(nchild):
        evo = child_evos[k % len(child_evos)]
        cl = [(None, None), ("k:c", "k:c"), (None, "kd"), ("kc", None)][(k // 2 + k) % 4] if k >= 2 else [(None, None), ("k:c", "k:c")][k]
        scs.append(gen_evo(rng, i, "child", "fs", evo, cl[0], cl[1]))
        i += 1
    for n, sc in enumerate(scs):
        if sc["mode"] == "child" and chk.budget_left(50 if quick else 560) < 3:
            chk.count("evolution:child-skipped-for-time")
            continue
        fails = evo_case(ctx, sc)
        chk.case(["evolution", sc], nontrivial=True, sample=dict(stream="evolution", **sc) if n in (1, len(scs) - 1) else None)
        for fl in fails:
            ctx.viol(fl["what"], fl["cls"], dict(kind="evolution", case=sc, detail={k: v for k, v in fl.items() if k != "cls"}))


def hof_case(ctx, sc):
    """a pinned caller passes its callee as an *argument* to another memento function: the stored invocation then holds a
    function reference among its arguments. After the callee is re-versioned / removed every read must still work and the
    caller's own entry must still be served."""
    import c12world as W
    cf, evo, idx = sc["cf"], sc["evo"], sc["idx"]
    fm = "c12h%d_a" % idx

    def src(gversion, gbody, with_g=True):
        g = "%s\ndef g(x):\n    return %s\n" % (W.deco(cf, gversion), gbody) if with_g else ""
        call = "ap(g, x)" if with_g else "x"
        return {fm: W.HEADER + g +
                "%s\ndef ap(fn, x):\n    return fn(x) if fn is not None else x\n" % W.deco(cf, "ap1") +
                "%s\ndef f(x):\n    REC.calls.append(('f', x))\n    return [%s, 1]\n" % (W.deco(cf, "f1"), call)}
    e0 = src("a:1", "x * 2")
    e1 = {"reversion": src("a:2", "x * 3"), "remove": src(None, None, with_g=False), "same": src("a:1", "x * 2")}[evo]
    root = ctx.new_root()
    clusters = {c: None for c in ([None] if cf is None else [None, cf])}
    fails = []
    base = {"clause": "evolution", "evo": "function-argument:" + evo, "caller_cluster": "default" if cf is None else "named", "backend": "fs"}

    def phase(ed):
        W.install_edition(ed, ctx.owned)
        W.make_env(root, clusters, "fs")
        return W.guarded(lambda: W.observe_function(fm, "f", 3, [cf]))
    ok0, obs0 = phase(e0)
    if not ok0 or not obs0["call"][0] or not obs0["memento"][0] or obs0["memento"][1] is None:
        return [dict(what="storing the caller's result under the first edition failed", cls=dict(base, api="store"), obs=obs0)]
    ok1, obs1 = phase(e1)
    if not ok1:
        return [dict(what="observing the caller under the evolved code base raised", cls=dict(base, api="observe"), error=obs1)]
    for api in ("call", "memento", "list_mementos", "trace_graph"):
        if not obs1[api][0]:
            fails.append(dict(what="%s raised after the function passed as an argument evolved" % api, cls=dict(base, api=api), error=obs1[api][1]))
    for cname, (ok, v) in obs1["list_functions"].items():
        if not ok:
            fails.append(dict(what="list_memoized_functions raised after the function passed as an argument evolved",
                              cls=dict(base, api="list_memoized_functions"), error=v))
    if obs1["call"][0] and (obs1["executed"] != 0 or obs1["call"][1] != obs0["call"][1]):
        fails.append(dict(what="the caller's own version is current but its stored result was not served", cls=dict(base, api="call"),
                          executed=obs1["executed"], before=obs0["call"][1], after=obs1["call"][1]))
    if obs1["memento"][0] and obs1["memento"][1] is None:
        fails.append(dict(what="memento() returns None although the caller's own version is current", cls=dict(base, api="memento")))
    if obs1["list_mementos"][0] and len(obs1["list_mementos"][1]) != 1:
        fails.append(dict(what="list_mementos() does not return the stored entry", cls=dict(base, api="list_mementos"), got=obs1["list_mementos"][1]))
    return fails


def stream_hof(ctx, quick):
    chk = ctx.chk
    i = 0
    for evo in ("same", "reversion", "remove"):
        for cf in (None, "kh"):
            sc = dict(evo=evo, cf=cf, idx=i)
            i += 1
            fails = hof_case(ctx, sc)
            chk.case(["evolution-function-argument", sc], nontrivial=True, sample=dict(stream="evolution-function-argument", **sc) if i == 2 else None)
            chk.count("evolution:function-argument:" + evo)
            for fl in fails:
                ctx.viol(fl["what"], fl["cls"], dict(kind="hof", case=sc, detail={k: v for k, v in fl.items() if k != "cls"}))


# ----------------------------------------------------------------------------------------------

def replay_main(chk, replay):
    r = replay.get("replay") or {}
    kind = r.get("kind")
    ctx = Ctx(chk, proof_ok=os.path.exists(common.MMODEL))
    fails = []
    if kind == "names":
        f = names_case(tuple(r["parts"]))
        fails = [f] if f else []
    elif kind == "escape":
        from twosigma.memento import storage_filesystem as sfs
        ds = sfs._FilesystemDataSource(ctx.new_root())
        if getattr(sfs, "unquote", lambda t: None)(ds._escape_key(r["string"])) != r["string"]:
            fails = [dict(what="unquote(_escape_key(s)) != s")]
    elif kind == "listing":
        entries, listed = listing_case(ctx.new_root(), r["names"])
        missing = [k for k in sorted("d/" + k for k, _ in r["names"] if "%" not in k) if k not in listed]
        fails = [dict(what="not listed under its own name", missing=missing)] if missing else []
    elif kind == "resolve":
        fails = resolve_case(ctx, r["case"])
    elif kind == "store":
        fails = store_case(ctx, r["case"])
    elif kind == "evolution":
        fails = evo_case(ctx, r["case"])
    elif kind == "hof":
        fails = hof_case(ctx, r["case"])
    else:
        print(json.dumps(dict(note="this replay names a broken proof obligation / correspondence stream; re-run the check itself",
                              still_fails=None)))
        return 0
    print(json.dumps(dict(still_fails=bool(fails), failures=fails[:3]), default=str, indent=1))
    return 1 if fails else 0


def main(chk, replay=None):
    if replay is not None:
        return replay_main(chk, replay)
    chk.rule = ("names: every string over {a : # .} up to length 7 (8 + newline alphabet in the thorough tier) and random strings "
                "over the full alphabet through parse; part tuples (cluster, module, function, version) — exhaustive over "
                "{None,'',a,:,#,.}^4 (thorough: all parts of length <= 2 over {a,:,#}), every corner version x corner cluster, random "
                "mostly-admissible parts with ':' '::' '#' '.link' in versions — through build and parse; file names through "
                "_escape_key / unquote / real directory listings; real modules with memento/plain/value/namespaced attributes "
                "through from_qualified_name; real functions with generated cluster/version strings stored in memory and "
                "filesystem backends (version v1, near-miss v2, back to v1); evolutions of a pinned caller and its callee "
                "(same/edit/edit_keepver/remove/rename/alias/recluster/plain/value/modgone/caller_body) x default/named clusters, "
                "in-process and in fresh child processes. Distinct = distinct part tuples / cases; non-trivial = admissible "
                "tuples whose version contains ':' or '#', and every real-code case.")
    chk.assumptions += ["CPython's re, importlib and urllib.parse.unquote are trusted; the model's regular-expression semantics is "
                        "validated against re.match on the exhaustive/random strings of the parse stream",
                        "unquote of %80..%FF (UTF-8 decoding) is not modelled and not exercised; names never contain '%' or '/'",
                        "admissible parts: cluster without '#', '::' and trailing ':'; module without ':' '#' (and no leading '.'); "
                        "function without '#', '::' and leading ':'; version without newline (boundary_* theorems show necessity)"]
    proof_ok = chk.build_and_audit()
    import gen_tables
    gen_tables.attach(chk, "C12Tables")
    quick = chk.tier == "quick"
    ctx = Ctx(chk, proof_ok)
    import twosigma.memento as m
    orig_env = m.Environment.get()
    try:
        import time
        for name, fn in (("names", stream_names), ("files", stream_files), ("resolve", stream_resolve),
                         ("store", stream_store), ("evolution", stream_evolution), ("hof", stream_hof)):
            t0 = time.time()
            fn(ctx, quick)
            chk.extra["stream_%s_s" % name] = round(time.time() - t0, 1)
    finally:
        m.Environment.set(orig_env)


if __name__ == "__main__":
    sys.exit(run_check(PROP, main, sys.argv[1:]))
