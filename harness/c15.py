"""C15 — batch evaluation equals element-wise evaluation, in order.

Lean: Props/C15.lean on Model/Runner.lean. Correspondence: `mmodel runner`. Oracle: the same
pre-history is executed in two fresh worlds; one evaluates the batch (`call_batch`, or
`map_over_range` for duplicate-free ranges), the other the individual calls in order; results are
compared position by position, the final stores (every key touched) record by record, and each
distinct element's body must run at most once.
"""
import itertools
import json
import os
import sys

import common
from common import run_check
import progs

PROP = "C15"


def individual(w, f, args, ctx):
    outs, tr = [], []
    for a in args:
        real, _ = w.op(["call", f, a, ctx, False, False])
        outs.append(real.split(" execs=")[0])
        tr += w.trace()
    return outs, tr


def store_view(w, keys):
    return {str(k): w.op(["memento", k[0], k[1], k[2]])[0] for k in sorted(keys)}


def trial(prog, backend, pre, f, args, ctx, rf, use_map, use_model, root_dir, warm=None):
    """warm: None, or the sub-list of `pre` that is called again after the store was re-opened in a new session (so these
    elements are in the memory cache and the rest of `pre` is on disk only when the batch starts)"""
    res = dict(fails=[], mismatch=[])
    cnum = 0 if ctx == "i" else ctx
    wa = progs.RunWorld(prog, backend=backend, root=root_dir, use_model=use_model)
    wb = progs.RunWorld(prog, backend=backend, root=root_dir, use_model=False)
    try:
        for a in pre:
            wa.op(["call", f, a, ctx, False, False])
            wb.op(["call", f, a, ctx, False, False])
        if warm is not None:
            for w_ in (wa, wb):
                w_.reopen()
                for a in warm:
                    w_.op(["call", f, a, ctx, False, False])
        if use_map:
            progs.REC.calls.clear()
            try:
                # the range is any iterable: a list, a tuple, a generator or an iterator (consumed only once)
                shape = len(args) % 4
                rng_arg = [list(args), tuple(args), (a for a in list(args)), iter(list(args))][shape]
                d = wa.fn(f, ctx).map_over_range(a=rng_arg)
                if sorted(d) != sorted(set(args)):
                    res["fails"].append(dict(clause="map-over-range-covers-the-range", range_kind=["list", "tuple", "generator", "iterator"][shape],
                                             keys=sorted(d), expected=sorted(set(args))))
                    d = {a: d.get(a) for a in args}
                bouts = [progs.show_exc(d[a]) if isinstance(d[a], Exception) else progs.show_outcome_value(d[a]) for a in args]
                braised = None
            except Exception as e:
                bouts, braised = None, progs.show_exc(e)
            btr = wa.trace()
            rf = True
        else:
            real, mout = wa.op(["batch", f, list(args), ctx, False, False, rf])
            if use_model and mout != real:
                res["mismatch"].append(dict(op=["batch", f, list(args), ctx, rf], real=real, model=mout))
            btr = wa.trace()
            body = real.split(" execs=")[0]
            if body.startswith("raised "):
                bouts, braised = None, body[len("raised "):]
            else:
                bouts, braised = body[1:-1].split(" ") if body != "[]" else [], None
        iouts, itr = individual(wb, f, args, ctx)
        first_exc = next((o for o in iouts if o.startswith("x:")), None)
        norm = progs.norm_exc
        if rf and first_exc is not None:
            if braised is None or norm(braised) != norm(first_exc):
                res["fails"].append(dict(clause="raises-first-failure", batch=braised or bouts, individual=iouts))
        else:
            if bouts is None or [norm(x) for x in bouts] != [norm(x) for x in iouts]:
                res["fails"].append(dict(clause="position-by-position", batch=bouts if bouts is not None else braised, individual=iouts))
        # each distinct element's body runs at most once
        for a in set(args):
            n = sum(1 for t in btr if t[0] == f and t[1] == a and (t[2] is None or t[2] == effective_ctx(cnum)))
            if n > 1 and not (first_exc and "x:2:" in first_exc):
                nonmemo = any(o.startswith("x:2:") for o in iouts)
                if not nonmemo:
                    res["fails"].append(dict(clause="element-runs-at-most-once", element=a, runs=n))
        # same final store
        keys = {(t[0], t[1], t[2] or 0) for t in btr + itr} | {(f, a, cnum) for a in args}
        va, vb = store_view(wa, keys), store_view(wb, keys)
        if va != vb:
            diff = {k: (va[k], vb[k]) for k in va if va[k] != vb[k]}
            res["fails"].append(dict(clause="same-final-store", differing=dict(list(diff.items())[:3])))
    finally:
        wa.close()
        wb.close()
    return res


def effective_ctx(c):
    return c


def typed_batches(chk, rng, root_dir, n):
    """elements that compare equal in Python but are different calls (1, 1.0, True; 0, 0.0, False; '1')"""
    import twosigma.memento as m
    from twosigma.memento import Environment, ConfigurationRepository, FunctionCluster
    from twosigma.memento.storage_memory import MemoryStorageBackend
    import c15fns
    fails = []
    orig = m.Environment.get()
    pool = [1, 1.0, True, 0, 0.0, False, "1", 2, 2.0, -0.0]
    try:
        for _ in range(n):
            xs = [rng.choice(pool) for _ in range(rng.randint(2, 5))]
            pre = [x for x in xs if rng.random() < 0.3]
            outs = {}
            for mode in ("batch", "single"):
                m.Environment.set(Environment(name="c15t", repos=[ConfigurationRepository(name="r", clusters={
                    "cp": FunctionCluster(name="cp", storage=MemoryStorageBackend())})]))
                for x in pre:
                    try:
                        c15fns.ty(x)
                    except Exception:
                        pass
                if mode == "batch":
                    rs = c15fns.ty.call_batch([{"x": x} for x in xs], raise_first_exception=False)
                else:
                    rs = []
                    for x in xs:
                        try:
                            rs.append(c15fns.ty(x))
                        except Exception as e:
                            rs.append(e)
                outs[mode] = [("exc:" + type(r).__name__) if isinstance(r, Exception) else r for r in rs]
                outs[mode + "-listed"] = sorted(repr(mm.invocation_metadata.fn_reference_with_args.effective_kwargs) for mm in c15fns.ty.list_mementos())
            chk.case(["typed", repr(xs), repr(pre)], nontrivial=True, sample=dict(kind="typed batch", elements=repr(xs), results=outs["batch"]))
            chk.count("mode:typed-batch")
            if outs["batch"] != outs["single"]:
                fails.append(dict(clause="position-by-position", elements=repr(xs), pre=repr(pre), batch=outs["batch"], individual=outs["single"]))
            elif outs["batch-listed"] != outs["single-listed"]:
                fails.append(dict(clause="same-final-store", elements=repr(xs), batch=outs["batch-listed"], individual=outs["single-listed"]))
    finally:
        m.Environment.set(orig)
    return fails


def api_batches(chk, rng, n):
    """the batch entry points as a caller uses them: default parameter values left unbound, a partial prefix, ignore_result,
    context arguments, and batches issued from inside another memento function (also with further calls prevented) — each
    against the same individual calls in a second fresh store"""
    import twosigma.memento as m
    from twosigma.memento import Environment, ConfigurationRepository, FunctionCluster
    from twosigma.memento.storage_memory import MemoryStorageBackend
    import c15fns
    fails = []
    orig = m.Environment.get()
    child = c15fns.child

    def fresh():
        m.Environment.set(Environment(name="c15a", repos=[ConfigurationRepository(name="r", clusters={
            "cp": FunctionCluster(name="cp", storage=MemoryStorageBackend())})]))
        c15fns.EXECS.clear()

    def show(r):
        return ("exc:" + type(r).__name__) if isinstance(r, BaseException) else r

    def single(fn, kw):
        try:
            return show(fn(**kw))
        except Exception as e:
            return show(e)

    def stored(fn, kws):
        return [fn.memento(**kw) is not None for kw in kws]

    def invs(mm):
        return None if mm is None else sorted(
            (i.fn_reference.function_name, repr(sorted(i.effective_kwargs.items())), repr(sorted((i.context_args or {}).items())))
            for i in mm.invocation_metadata.invocations)
    try:
        for it in range(n):
            mode = ["defaults-batch", "defaults-map", "prefix-map", "kw-prefix-map", "ignore-result", "context", "nested", "nested-prevented", "nested-context"][it % 9]
            xs = [rng.choice([0, 1, 2, 3, 4, 10]) for _ in range(rng.randint(0, 5))]
            pre = sorted({x for x in xs if rng.random() < [0.0, 0.5, 1.0][it // 9 % 3]})
            rf = rng.random() < 0.3
            out = {}
            for side in ("batch", "single"):
                fresh()
                ctx = {"k": 1} if mode in ("context", "nested-context") else None
                base = child.with_context_args(ctx) if ctx else child
                for x in pre:
                    single(base, {"x": x})
                n_pre = len(c15fns.EXECS)
                if mode in ("defaults-batch", "context", "ignore-result"):
                    fn = base.ignore_result() if mode == "ignore-result" else base
                    kws = [{"x": x} for x in xs]
                    if mode == "defaults-batch":
                        # the elements do not all name the same parameters (defaults given in some elements only, in any order)
                        kws = [dict(kw, **[{}, {"factor": 3}, {"offset": 7}, {"offset": 1, "factor": 5}, {}][(j + it) % 5]) for j, kw in enumerate(kws)]
                    if side == "batch":
                        try:
                            rs = [show(r) for r in fn.call_batch(kws, raise_first_exception=rf)]
                        except Exception as e:
                            rs = "raised " + show(e)
                    else:
                        rs = [single(fn, kw) for kw in kws]
                        first = next((r for r in rs if isinstance(r, str) and r.startswith("exc:")), None)
                        if rf and first:
                            rs = "raised " + first
                    out[side] = (rs, stored(base, kws))
                elif mode in ("defaults-map", "prefix-map", "kw-prefix-map"):
                    ux = list(dict.fromkeys(xs))
                    if mode == "defaults-map":
                        fn, par, kws = base, "x", [{"x": x} for x in ux]
                    elif mode == "prefix-map":
                        fn, par, kws = base.partial(2), "factor", [{"x": 2, "factor": x} for x in ux]
                    else:
                        fn, par, kws = base.partial(factor=3), "x", [{"x": x, "factor": 3} for x in ux]
                    if side == "batch":
                        try:
                            d = fn.map_over_range(**{par: list(ux)})
                            rs = [show(d.get(x, "missing")) for x in ux]
                        except Exception as e:
                            rs = "raised " + show(e)
                    else:
                        rs = [single(fn, {par: x}) for x in ux]
                        first = next((r for r in rs if isinstance(r, str) and r.startswith("exc:")), None)
                        if first:
                            rs = "raised " + first
                    out[side] = (rs, stored(base, kws))
                else:
                    caller = c15fns.caller_batch if side == "batch" else c15fns.caller_single
                    bound = caller
                    if mode == "nested-prevented":
                        bound = caller.with_prevent_further_calls(True)
                    elif mode == "nested-context":
                        bound = caller.with_context_args(ctx)
                    rs = single(bound, {"xs": list(xs), "tag": it})
                    mm = (caller.with_context_args(ctx) if ctx else caller).memento(xs=list(xs), tag=it)
                    out[side] = (rs, stored(base, [{"x": x} for x in xs]), invs(mm))
                ex = c15fns.EXECS[n_pre:]
                out[side + "-execs"] = sorted(set(ex)) if len(set(ex)) == len(ex) else "twice: %r" % (ex,)
            chk.case(["api-batch", mode, xs, pre, rf], nontrivial=len(xs) >= 2, sample=dict(kind="api batch", mode=mode, elements=xs, pre=pre, results=repr(out["batch"][0])[:120]))
            chk.count("api-batch:" + mode)
            if out["batch"][0] != out["single"][0]:
                fails.append(dict(clause="position-by-position", mode=mode, elements=xs, pre=pre, raise_first=rf, batch=repr(out["batch"][0]), individual=repr(out["single"][0])))
            elif out["batch"][1:] != out["single"][1:]:
                fails.append(dict(clause="same-final-store", mode=mode, elements=xs, pre=pre, batch=repr(out["batch"][1:]), individual=repr(out["single"][1:])))
            elif isinstance(out["batch-execs"], str):
                fails.append(dict(clause="element-runs-at-most-once", mode=mode, elements=xs, pre=pre, executions=out["batch-execs"]))
            elif out["batch-execs"] != out["single-execs"] and not isinstance(out["single-execs"], str) and not (
                    isinstance(out["batch"][0], str) or isinstance(out["single"][0], str)):
                # (when the batch raised as a whole — raise_first_exception — the elements after the failure are not compared here)
                fails.append(dict(clause="same-final-store", mode=mode, elements=xs, pre=pre, note="bodies run",
                                  batch=repr(out["batch-execs"]), individual=repr(out["single-execs"])))
    finally:
        m.Environment.set(orig)
    return fails


def lost_data_batches(chk, root):
    """elements whose stored result data was lost (the memento is still there, its data files are gone) are recomputed: a batch
    with such elements, also repeated ones, runs the same bodies and returns the same as the individual calls"""
    import shutil
    import tempfile
    import twosigma.memento as m
    from twosigma.memento import Environment, ConfigurationRepository, FunctionCluster
    from twosigma.memento.storage_filesystem import FilesystemStorageBackend
    import logging
    import c15fns
    fails = []
    orig = m.Environment.get()
    lg = logging.getLogger("memento")
    lvl = lg.level
    lg.setLevel(logging.CRITICAL + 1)
    try:
        for xs in ([1, 1], [2, 1, 2], [1, 2], [4, 4, 0, 4]):
            out = {}
            for side in ("batch", "single"):
                d = tempfile.mkdtemp(prefix="c15l_", dir=root)
                mk = lambda: Environment(name="c15l", base_dir=d, repos=[ConfigurationRepository(name="r", clusters={
                    "cp": FunctionCluster(name="cp", storage=FilesystemStorageBackend(path=os.path.join(d, "s")))})])
                m.Environment.set(mk())
                for x in sorted(set(xs)):
                    c15fns.child(x)
                vdir = os.path.join(d, "s", "c", ".versions")
                for u in os.listdir(vdir):
                    shutil.rmtree(os.path.join(vdir, u))
                m.Environment.set(mk())
                c15fns.EXECS.clear()
                try:
                    if side == "batch":
                        rs = c15fns.child.call_batch([{"x": x} for x in xs], raise_first_exception=False)
                    else:
                        rs = []
                        for x in xs:
                            try:
                                rs.append(c15fns.child(x))
                            except Exception as e:
                                rs.append(e)
                    rs = [("exc:" + type(r).__name__) if isinstance(r, BaseException) else r for r in rs]
                except Exception as e:
                    rs = "raised " + type(e).__name__
                out[side] = (rs, [e[1] for e in c15fns.EXECS])
                shutil.rmtree(d, ignore_errors=True)
            chk.case(["lost-data-batch", xs], nontrivial=True, sample=dict(kind="batch over elements whose result data was lost", elements=xs, results=repr(out["batch"][0])[:100]))
            chk.count("api-batch:lost-data")
            if out["batch"][0] != out["single"][0]:
                fails.append(dict(clause="position-by-position", mode="lost-data", elements=xs, batch=repr(out["batch"][0]), individual=repr(out["single"][0])))
            elif out["batch"][1] != out["single"][1]:
                fails.append(dict(clause="same-final-store", mode="lost-data", elements=xs, note="bodies run", batch=out["batch"][1], individual=out["single"][1]))
    finally:
        lg.setLevel(lvl)
        m.Environment.set(orig)
    return fails


def main(chk, replay=None):
    if replay is not None and "program" not in replay:
        # (api / typed batches: self-contained records)
        print(json.dumps(dict(note="self-contained record: see 'observed' (mode, elements, pre-memoized subset)", still_fails=None)))
        return 0
    if replay is not None:
        r = trial(replay["program"], replay["backend"], replay["pre"], replay["f"], replay["args"], replay["ctx"], replay["rf"],
                  replay["use_map"], False, None, replay.get("warm"))
        print(json.dumps(dict(still_fails=bool(r["fails"]), observed=r["fails"][:3]), default=str))
        return 1 if r["fails"] else 0
    chk.rule = ("generated programs; batches of length 0..6 over arguments {0..3} with duplicates and failing elements x subsets "
                "of the elements memoized beforehand (quick: random; thorough: all subsets of the distinct elements) x "
                "raise_first_exception x context x {call_batch, map_over_range on duplicate-free ranges} x backends x {same session, "
                "store re-opened in a new session with a subset cached again}; plus the entry points as a caller uses them (defaults unbound, partial prefixes, ignore_result, context arguments, batches inside another memento function incl. prevented). "
                "Distinct = distinct trial; non-trivial = batch has >= 2 elements.")
    proof_ok = chk.build_and_audit()
    quick = chk.tier == "quick"
    rng = chk.rng
    nprog = 10 if quick else 120
    reported = 0
    for fl in typed_batches(chk, rng, chk.tmpdir(), 30 if quick else 600)[:3]:
        chk.violation({"what": "typed batch differs from element-wise evaluation: %s" % fl["clause"],
                       "class": {"clause": fl["clause"], "stream": "typed-batch"}, "observed": fl})
    for fl in (lost_data_batches(chk, chk.tmpdir()) + api_batches(chk, rng, 54 if quick else 900))[:3]:
        chk.violation({"what": "batch entry point (%s) differs from element-wise evaluation: %s" % (fl["mode"], fl["clause"]),
                       "class": {"clause": fl["clause"], "stream": "api-batch", "mode": fl["mode"]}, "observed": fl})
    # one large batch (more than a thousand distinct elements, the last ones failing), oracle only
    big = dict(fns={1: dict(explicit=False, stmts=[], const=1, **{"raise": [1009, 1005, 0, 6]})})
    for rf_ in (False, True):
        r = trial(big, "memory", [3, 1001], 1, list(range(1010)) + [5], "i", rf_, False, False, chk.tmpdir())
        chk.case(["large-batch", rf_], nontrivial=True, sample=dict(kind="batch of 1011 elements", raise_first=rf_))
        chk.count("mode:large-batch")
        if r["fails"] and reported < 4:
            reported += 1
            chk.violation({"what": "large batch differs from element-wise evaluation: %s" % r["fails"][0]["clause"], "class": {"clause": r["fails"][0]["clause"], "large": True},
                           "program": big, "backend": "memory", "pre": [3, 1001], "f": 1, "args": list(range(1010)) + [5], "ctx": "i", "rf": rf_,
                           "use_map": False, "warm": None, "observed": [dict(f, batch=str(f.get("batch"))[:300], individual=str(f.get("individual"))[:300]) for f in r["fails"][:2]]})
    for _ in range(nprog):
        prog = progs.gen_program(rng, nfns=rng.randint(2, 5), exc_rate=0.5)
        f = rng.choice(sorted(prog["fns"]))
        backend = rng.choice(["memory", "fs", "fs+cache"])
        # directed: a new session in which a cached element precedes elements that are on disk only, and a new element
        for (dargs, dpre, dwarm) in (([2, 0, 1, 3], [0, 1, 2], [2]), ([0, 2, 1, 0], [0, 1, 2], [0, 1])):
            r = trial(prog, "fs+cache", dpre, f, dargs, "i", False, False, proof_ok, chk.tmpdir(), dwarm)
            chk.case([prog, "fs+cache", dpre, f, dargs, "i", False, False, dwarm], nontrivial=True,
                     sample=dict(f=f, args=dargs, pre=dpre, warm=dwarm, backend="fs+cache"))
            chk.count("new-session-before-batch")
            for mm in r["mismatch"]:
                chk.correspondence_break("batch-op", dict(program=prog, backend="fs+cache", pre=dpre, **mm))
            if r["fails"] and reported < 4:
                reported += 1
                fl = r["fails"][0]
                chk.violation({"what": "batch differs from element-wise evaluation: %s" % fl["clause"], "class": {"clause": fl["clause"], "map_over_range": False},
                               "program": prog, "backend": "fs+cache", "pre": dpre, "f": f, "args": dargs, "ctx": "i", "rf": False, "use_map": False,
                               "warm": dwarm, "observed": r["fails"][:2], "source": progs.render(prog, "replay")})
        for _ in range(4 if quick else 6):
            args = [rng.choice([0, 1, 2, 3]) for _ in range(rng.randint(0, 6))]
            ctx = rng.choice(["i", "i", 1, 0])
            rf = rng.random() < 0.4
            distinct = sorted(set(args))
            if quick:
                pres = [[a for a in distinct if rng.random() < 0.5] for _ in range(2)]
            else:
                pres = [list(c) for r in range(len(distinct) + 1) for c in itertools.combinations(distinct, r)]
            for pre in pres:
                use_map = len(set(args)) == len(args) and len(args) > 0 and rng.random() < 0.25
                warm = None
                if backend != "memory" and pre and rng.random() < 0.5:
                    warm = [a for a in pre if rng.random() < 0.5]        # new session: these are cached again, the others are on disk only
                    chk.count("new-session-before-batch")
                r = trial(prog, backend, pre, f, args, ctx, rf, use_map, proof_ok, chk.tmpdir(), warm)
                chk.case([prog, backend, pre, f, args, ctx, rf, use_map], nontrivial=len(args) >= 2,
                         sample=dict(f=f, args=args, pre=pre, ctx=ctx, raise_first=rf, map_over_range=use_map, backend=backend))
                chk.count("mode:" + ("map_over_range" if use_map else "call_batch"))
                chk.count("pre-memoized:%d" % len(pre))
                for mm in r["mismatch"]:
                    chk.correspondence_break("batch-op", dict(program=prog, backend=backend, pre=pre, **mm))
                if r["fails"] and reported < 4:
                    reported += 1
                    fl = r["fails"][0]
                    chk.violation({"what": "batch differs from element-wise evaluation: %s" % fl["clause"],
                                   "class": {"clause": fl["clause"], "map_over_range": use_map},
                                   "program": prog, "backend": backend, "pre": pre, "f": f, "args": args, "ctx": ctx, "rf": rf,
                                   "use_map": use_map, "warm": warm, "observed": r["fails"][:2], "source": progs.render(prog, "replay")})
        if reported >= 4:
            break


if __name__ == "__main__":
    sys.exit(run_check(PROP, main, sys.argv[1:]))
