"""C02 — memoization is transparent: same outcome, body runs once per distinct call.

Lean: Model/Runner.lean (+RunnerProg.lean), Props/C02.lean. Correspondence: generated first-order
programs rendered to real memento functions; histories of call / call_batch / forget / memento on
memory, filesystem and filesystem+cache backends vs `mmodel runner` (outcome, execution trace with
context, provenance). Oracle: the property itself — every result equals an un-memoized execution
(same program on the null storage), immediate repeats execute nothing, forget re-runs exactly that
call, the recorded result type matches the value read back; plus the value-type x backend matrix.
"""
import datetime
import json
import math
import os
import shutil
import tempfile
import sys

import common
from common import run_check, ddmin
import progs

PROP = "C02"
BACKENDS = ["memory", "fs", "fs+cache"]


def gen_ops(rng, prog, n):
    fns = sorted(prog["fns"])
    ops = []
    for _ in range(n):
        f = rng.choice(fns)
        a = rng.choice([0, 0, 1, 2, 3])
        ctx = rng.choice(["i", "i", "i", 0, 1, 2])
        r = rng.random()
        if r < 0.55:
            # (calls under with_prevent_further_calls are C16's: their RuntimeError is memoized under the ordinary key,
            #  so they are not "calls with equal arguments" in the sense of this property)
            ops.append(["call", f, a, ctx, rng.random() < 0.08, False])
            if rng.random() < 0.5:
                ops.append(list(ops[-1]))                       # immediate repeat
        elif r < 0.72:
            args = [rng.choice([0, 1, 2, 3]) for _ in range(rng.randint(0, 4))]
            ops.append(["batch", f, args, ctx, rng.random() < 0.08, False, rng.random() < 0.3])
        elif r < 0.87:
            c = 0 if ctx == "i" else ctx
            ops.append(["forget", f, a, c])
            ops.append(["call", f, a, c if c else "i", False, False])
        else:
            ops.append(["memento", f, a, 0 if ctx == "i" else ctx])
    return ops


def has_nonmemo(prog):
    return any(d["raise"][0] and d["raise"][2] == 2 for d in prog["fns"].values())


def run_history(prog, backend, ops, use_model=True, root=None):
    """returns dict(fails=[...], mismatch=[...], transcript=[...])"""
    w = progs.RunWorld(prog, backend=backend, root=root, use_model=use_model)
    res = dict(fails=[], mismatch=[], transcript=[])
    nm = has_nonmemo(prog)
    try:
        prev = None
        for i, op in enumerate(ops):
            real, mout = w.op(op)
            res["transcript"].append(dict(op=op, real=real, model=mout))
            if use_model and mout != real:
                res["mismatch"].append(dict(step=i, op=op, real=real, model=mout))
            if op[0] == "call":
                out, execs = real.split(" execs=")
                # (O1) transparency: equals the un-memoized execution
                ref = w.unmemoized(op[1], op[2], op[3], op[4], op[5])
                if progs.norm_exc(out) != progs.norm_exc(ref):
                    res["fails"].append(dict(step=i, op=op, clause="transparent-outcome", got=out, unmemoized=ref))
                # (O2) an immediate repeat of a memoized call executes nothing
                if prev is not None and prev[0] == op and not prev[1].startswith("x:2:") and execs != "[]":
                    res["fails"].append(dict(step=i, op=op, clause="repeat-executes-nothing", execs=execs))
                # (O3) without non-memoized exceptions no call executes twice within one top-level call
                tr = w.trace()
                if not nm and len(set(tr)) != len(tr):
                    res["fails"].append(dict(step=i, op=op, clause="body-runs-once", execs=execs))
                # (O4) forget makes exactly that call run again
                if i > 0 and ops[i - 1][0] == "forget" and ops[i - 1][1:3] == op[1:3]:
                    key = (op[1], op[2])
                    n = sum(1 for t in tr if t[:2] == key and (t[2] is None or t[2] == ops[i - 1][3]))
                    if n != 1 and not out.startswith("x:7") and not out.startswith("x:8"):
                        res["fails"].append(dict(step=i, op=op, clause="forget-reruns-exactly-that-call", execs=execs))
                prev = (op, out)
            else:
                prev = None
            if op[0] == "memento" and real not in ("none",) and not real.startswith("err"):
                # (O5) recorded result type matches the value read back
                try:
                    from twosigma.memento.metadata import ResultType
                    mm = w.fn(op[1], op[3]).memento(op[2])
                    v = w.storage.read_result(mm)
                    if ResultType.from_object(v) != mm.invocation_metadata.result_type:
                        res["fails"].append(dict(step=i, op=op, clause="result-type-matches", recorded=str(mm.invocation_metadata.result_type)))
                except Exception as e:
                    res["fails"].append(dict(step=i, op=op, clause="result-type-matches", error=repr(e)))
            if res["fails"] or res["mismatch"]:
                break
    finally:
        w.close()
    return res


# ---- value matrix ---------------------------------------------------------------------------------

def same(a, b):
    import numpy as np
    import pandas as pd
    from twosigma.memento.partition import Partition
    if isinstance(a, Partition) and isinstance(b, Partition):
        ka, kb = list(a.list_keys()), list(b.list_keys())
        return ka == kb and all(same(a.get(k), b.get(k)) for k in ka)
    if type(a) is not type(b):
        # timestamps: pandas Timestamp is a datetime subclass; the read-back type must be the same class
        return False
    if isinstance(a, float):
        return (math.isnan(a) and math.isnan(b)) or (a == b and math.copysign(1, a) == math.copysign(1, b))
    if isinstance(a, np.ndarray):
        return a.dtype == b.dtype and a.shape == b.shape and np.array_equal(a, b, equal_nan=a.dtype.kind == "f")
    if isinstance(a, (pd.Series, pd.DataFrame, pd.Index)):
        return a.equals(b)
    if isinstance(a, list):
        return len(a) == len(b) and all(same(x, y) for x, y in zip(a, b))
    if isinstance(a, dict):
        return list(a) == list(b) and all(same(a[k], b[k]) for k in a)
    return a == b


EXPECTED_RESULT_TYPE = {
    # the documented type of every value of the matrix, by name: independent of ResultType.from_object
    "null": "null", "bool-": "boolean", "int": "number", "float": "number", "str": "string", "bytes": "binary", "date": "date",
    "datetime-": "timestamp", "pd-timestamp": "timestamp", "list": "list_result", "dict": "dictionary", "arr-bool": "array_boolean",
    "arr-int8": "array_int8", "arr-int16": "array_int16", "arr-int32": "array_int32", "arr-int64": "array_int64",
    "arr-float32": "array_float32", "arr-float64": "array_float64", "arr-empty": "array_float64", "arr-2d": "array_int64",
    "arr-0d": "array_int64", "arr-0d-float": "array_float64", "arr-3d": "array_int32", "arr-transposed": "array_int64",
    "arr-strided": "array_int16", "arr-fortran": "array_float32", "arr-1x0": "array_int8",
    "index": "index", "series": "series", "frame": "data_frame", "partition": "partition",
}


def expected_result_type(name):
    best = None
    for k, v in EXPECTED_RESULT_TYPE.items():
        if name == k or name.startswith(k):
            if best is None or len(k) > len(best[0]):
                best = (k, v)
    return best[1] if best else None


def value_matrix(chk, root):
    import twosigma.memento as m
    from twosigma.memento import Environment, ConfigurationRepository, FunctionCluster
    from twosigma.memento.metadata import ResultType
    from twosigma.memento.storage_memory import MemoryStorageBackend
    from twosigma.memento.storage_filesystem import FilesystemStorageBackend
    import tempfile
    import c02fns
    orig = m.Environment.get()
    fails = []
    try:
        for backend in ("memory", "fs", "fs+cache-tiny", "fs+cache-large"):
            d = tempfile.mkdtemp(prefix="c02v_", dir=root)
            if backend == "memory":
                st = MemoryStorageBackend()
            elif backend == "fs":
                st = FilesystemStorageBackend(path=d)
            else:
                st = FilesystemStorageBackend(path=d, memory_cache_mb=(0.0002 if "tiny" in backend else 64))
            m.Environment.set(Environment(name="cv", base_dir=d, repos=[
                ConfigurationRepository(name="r", clusters={"cv": FunctionCluster(name="cv", storage=st)})]))
            for i in range(c02fns.NVALUES):
                name, expected = c02fns.make(i)
                c02fns.REC.calls.clear()
                try:
                    first = c02fns.tv(i)
                    second = c02fns.tv(i)
                    third = c02fns.tv(i)
                    mm = c02fns.tv.memento(i)
                except Exception as e:
                    fails.append(dict(clause="supported-result-accepted", value=name, backend=backend, error=repr(e)[:200]))
                    continue
                chk.case(["value", backend, name], sample=dict(kind="value matrix", backend=backend, value=name,
                                                              result_type=str(mm.invocation_metadata.result_type) if mm else None))
                chk.count("value-matrix")
                if c02fns.REC.calls != [i]:
                    fails.append(dict(clause="body-runs-once", value=name, backend=backend, execs=list(c02fns.REC.calls)))
                try:
                    ok1 = same(first, expected)
                except Exception as e:
                    ok1 = False
                if not ok1:
                    fails.append(dict(clause="first-value-usable", value=name, backend=backend))
                for tag, got in (("second", second), ("third", third)):
                    try:
                        ok = same(got, expected) or (backend.startswith("fs") and name.startswith("partition") and same(got, expected))
                    except Exception as e:
                        ok = False
                    if not ok:
                        fails.append(dict(clause="later-call-equal-value-and-type", value=name, backend=backend, which=tag,
                                          got_type=type(got).__name__, expected_type=type(expected).__name__))
                        break
                # forgetting the call makes exactly that call run again - once - while the caller still holds the
                # first result object
                try:
                    c02fns.REC.calls.clear()
                    c02fns.tv.forget(i)
                    again = c02fns.tv(i)
                    again2 = c02fns.tv(i)
                    if c02fns.REC.calls != [i]:
                        fails.append(dict(clause="forget-reruns-exactly-that-call", value=name, backend=backend,
                                          execs=list(c02fns.REC.calls)))
                    elif not same(again2, expected):
                        fails.append(dict(clause="later-call-equal-value-and-type", value=name, backend=backend, which="after-forget"))
                except Exception as e:
                    fails.append(dict(clause="forget-reruns-exactly-that-call", value=name, backend=backend, error=repr(e)[:200]))
                del first, second, third
                if mm is None:
                    fails.append(dict(clause="memoized", value=name, backend=backend))
                else:
                    try:
                        back = st.read_result(mm)
                        if ResultType.from_object(back) != mm.invocation_metadata.result_type:
                            fails.append(dict(clause="result-type-matches", value=name, backend=backend))
                        elif mm.invocation_metadata.result_type.name != expected_result_type(name):
                            fails.append(dict(clause="result-type-matches", value=name, backend=backend,
                                              recorded=mm.invocation_metadata.result_type.name, documented=expected_result_type(name)))
                    except Exception as e:
                        fails.append(dict(clause="result-type-matches", value=name, backend=backend, error=repr(e)[:200]))
            c02fns.tv.forget_all()
    finally:
        m.Environment.set(orig)
    return fails


LAZY_CHILD = '''import json, sys
root = sys.argv[1]
sys.path.insert(0, root)
import twosigma.memento as m
from twosigma.memento import Environment, ConfigurationRepository, FunctionCluster
from twosigma.memento.storage_filesystem import FilesystemStorageBackend
m.Environment.set(Environment(name="cv", base_dir=root, repos=[ConfigurationRepository(name="r", clusters={
    "cv": FunctionCluster(name="cv", storage=FilesystemStorageBackend(path=root + "/store"))})]))
import c02_lazy
out = []
for n in (3, 3):
    try:
        c02_lazy.check(n)
        out.append(["returned"])
    except Exception as e:
        out.append([type(e).__module__ + ":" + type(e).__name__, str(e).split(". Original stack trace")[0]])
print(json.dumps(dict(outcomes=out, runs=c02_lazy.runs())))
'''


def lazy_exception_scenario(root):
    """an exception whose class lives in a module the body imports itself: a later process (which never runs the body, hence has
    not imported that module) replays the recorded exception as the same class — it can be rebuilt from its message"""
    import subprocess
    import tempfile
    d = tempfile.mkdtemp(prefix="c02lazy_", dir=root)
    open(os.path.join(d, "c02_errs.py"), "w").write("class QuotaExceeded(Exception):\n    pass\n")
    open(os.path.join(d, "c02_lazy.py"), "w").write(
        "import os\nfrom twosigma.memento import memento_function\n\n_LOG = os.path.join(os.path.dirname(os.path.abspath(__file__)), 'runs.log')\n\n\n"
        "def runs():\n    return len(open(_LOG).read()) if os.path.exists(_LOG) else 0\n\n\n"
        "@memento_function(cluster='cv', version='1')\ndef check(n):\n    with open(_LOG, 'a') as f:\n        f.write('x')\n"
        "    from c02_errs import QuotaExceeded\n    raise QuotaExceeded('quota exceeded for account %d' % n)\n")
    env = dict(os.environ, PYTHONPATH=common.REPO, PYTHONDONTWRITEBYTECODE="1")
    fails, outs = [], []
    try:
        for proc in (1, 2):
            p = subprocess.run([common.PY, "-B", "-c", LAZY_CHILD, d], stdout=subprocess.PIPE, stderr=subprocess.PIPE, text=True, env=env, timeout=120)
            lines = [ln for ln in p.stdout.split("\n") if ln.startswith("{")]
            if not lines:
                raise common.Infra("lazy-exception child failed: " + p.stderr[-400:])
            outs.append(json.loads(lines[-1]))
        want = ["c02_errs:QuotaExceeded", "quota exceeded for account 3"]
        for proc, o in enumerate(outs, 1):
            for k, got in enumerate(o["outcomes"]):
                if got != want:
                    fails.append(dict(clause="exception-replayed-same-class", process=proc, call=k + 1, got=got, expected=want))
        if outs[-1]["runs"] != 1:
            fails.append(dict(clause="body-runs-once", runs=outs[-1]["runs"]))
    finally:
        shutil.rmtree(d, ignore_errors=True)
    return fails


MOD_SRC = """from twosigma.memento import memento_function
import c02fns


def helper(x):
    return x * 2


@memento_function(cluster="cv", version_salt="s1")
def salted(x):
    c02fns.REC.add(("salted", x))
    return helper(x) + 1


@memento_function(cluster="cv")
def plain(x):
    c02fns.REC.add(("plain", x))
    return helper(x) + 2


@memento_function(cluster="cv", version="7")
def pinned(x):
    c02fns.REC.add(("pinned", x))
    return helper(x) + 3


@memento_function(cluster="cv", auto_dependencies=False, dependencies=[plain])
def declared(x):
    c02fns.REC.add(("declared", x))
    return plain(x) + 4


@memento_function(cluster="cv", version="1")
def twin_a(x):
    c02fns.REC.add(("twin_a", x))
    return [x, "same bytes"]


@memento_function(cluster="cv", version="1")
def twin_b(x):
    c02fns.REC.add(("twin_b", x))
    return [x, "same bytes"]
"""
LATE_SRC = """from twosigma.memento import memento_function


@memento_function(cluster="cv")
def late_%d(x):
    return x
"""
_mod_n = [0]


def modifier_scenario(chk, root):
    """functions declared in the different ways (version salt, automatic version, explicit version, declared dependencies):
    a call through a modifier clone (force_local / ignore_result / partial / with_context_args({})) is the same distinct call as
    the plain call — also when another memento function is registered between the two (a module imported later). Returns failures."""
    import linecache
    import types
    import twosigma.memento as m
    from twosigma.memento import Environment, ConfigurationRepository, FunctionCluster
    from twosigma.memento.storage_memory import MemoryStorageBackend
    from twosigma.memento.storage_filesystem import FilesystemStorageBackend
    import c02fns
    orig = m.Environment.get()
    fails = []

    def load(src, modname):
        fname = "<%s>" % modname
        linecache.cache[fname] = (len(src), None, src.splitlines(True), fname)
        mod = types.ModuleType(modname)
        mod.__package__ = "c02modpkg"
        sys.modules[modname] = mod
        exec(compile(src, fname, "exec"), mod.__dict__)
        return mod
    try:
        for backend in ("memory", "fs", "fs+cache"):
            for late in (False, True):
                d = tempfile.mkdtemp(prefix="c02m_", dir=root)
                st = MemoryStorageBackend() if backend == "memory" else FilesystemStorageBackend(
                    path=os.path.join(d, "s"), **({"memory_cache_mb": 1} if backend == "fs+cache" else {}))
                m.Environment.set(Environment(name="cv", base_dir=d, repos=[ConfigurationRepository(name="r", clusters={"cv": FunctionCluster(name="cv", storage=st)})]))
                _mod_n[0] += 1
                mod = load(MOD_SRC, "c02mod_%d_%d" % (os.getpid(), _mod_n[0]))
                x = 0
                for fname in ("salted", "plain", "pinned", "declared"):
                    f = getattr(mod, fname)
                    for how, via in (("force_local", lambda g: g.force_local()), ("ignore_result", lambda g: g.ignore_result()),
                                     ("partial", lambda g: g.partial()), ("with_context_args({})", lambda g: g.with_context_args({}))):
                        for first in ("plain-call-first", "modifier-first"):
                            x += 1
                            c02fns.REC.calls.clear()
                            try:
                                a = f(x) if first == "plain-call-first" else via(f)(x)
                                if late:
                                    _mod_n[0] += 1
                                    load(LATE_SRC % _mod_n[0], "c02late_%d_%d" % (os.getpid(), _mod_n[0]))     # one more registration
                                b = via(f)(x) if first == "plain-call-first" else f(x)
                            except Exception as e:
                                fails.append(dict(clause="no-internal-error", fn=fname, modifier=how, order=first, backend=backend, late_registration=late, error=repr(e)[:200]))
                                continue
                            runs = [c for c in c02fns.REC.calls if c == (fname, x)]
                            want = f.fn(x) if False else None
                            chk.case(["modifier", backend, late, fname, how, first], nontrivial=True,
                                     sample=dict(kind="modifier clone vs plain call", fn=fname, modifier=how, order=first, backend=backend, late_registration=late))
                            chk.count("modifier-scenarios")
                            vals = [v for v in (a, b) if v is not None]
                            if len(runs) != 1:
                                fails.append(dict(clause="body-runs-once-per-distinct-call", fn=fname, modifier=how, order=first, backend=backend,
                                                  late_registration=late, executions=len(runs)))
                            elif len(set(vals)) > 1 or (how != "ignore_result" and len(vals) != 2):
                                fails.append(dict(clause="transparent-outcome", fn=fname, modifier=how, order=first, backend=backend, values=[a, b]))
                # forgetting makes exactly that call run again: two functions with byte-equal results, one of them forgotten;
                # then the whole cluster forgotten and the same content produced again (a new backend object on the same store =
                # a restart, for the filesystem backends)
                def reopen():
                    if backend != "memory":
                        st2 = FilesystemStorageBackend(path=os.path.join(d, "s"), **({"memory_cache_mb": 1} if backend == "fs+cache" else {}))
                        m.Environment.set(Environment(name="cv", base_dir=d, repos=[ConfigurationRepository(name="r", clusters={"cv": FunctionCluster(name="cv", storage=st2)})]))
                steps = [("twin_a(1)", lambda: mod.twin_a(1), [("twin_a", 1)]), ("twin_b(1)", lambda: mod.twin_b(1), [("twin_b", 1)]),
                         ("twin_a.forget(1)", lambda: mod.twin_a.forget(1), []), ("restart", reopen, []),
                         ("twin_b(1) after twin_a(1) was forgotten", lambda: mod.twin_b(1), []), ("twin_b(1) again", lambda: mod.twin_b(1), []),
                         ("twin_a(1) after it was forgotten", lambda: mod.twin_a(1), [("twin_a", 1)]), ("twin_a(1) again", lambda: mod.twin_a(1), []),
                         ("forget_cluster", lambda: m.forget_cluster("cv"), []),
                         ("twin_a(1) after the cluster was forgotten", lambda: mod.twin_a(1), [("twin_a", 1)]),
                         ("twin_a(1) once more", lambda: mod.twin_a(1), []), ("restart", reopen, []), ("twin_a(1) after a restart", lambda: mod.twin_a(1), []),
                         ("twin_b(1) after the cluster was forgotten", lambda: mod.twin_b(1), [("twin_b", 1)]), ("twin_b(1) once more", lambda: mod.twin_b(1), [])]
                for text, thunk, want_runs in steps:
                    c02fns.REC.calls.clear()
                    try:
                        thunk()
                    except Exception as e:
                        fails.append(dict(clause="no-internal-error", fn="twin", modifier="forget", order=text, backend=backend, late_registration=late, error=repr(e)[:200]))
                        break
                    runs = [c for c in c02fns.REC.calls if c[0].startswith("twin")]
                    if runs != want_runs:
                        fails.append(dict(clause="forget-reruns-exactly-that-call", fn="twin", modifier="forget", order=text, backend=backend, late_registration=late,
                                          executed=runs, expected=want_runs))
                        break
                chk.count("forget-scenarios")
                shutil.rmtree(d, ignore_errors=True)
    finally:
        m.Environment.set(orig)
    return fails


def main(chk, replay=None):
    if replay is not None:
        if replay.get("stream") == "modifiers":
            f = [x for x in modifier_scenario(chk, None) if x["clause"] == replay["class"]["clause"] and x["fn"] == replay["class"]["fn"]]
            print(json.dumps(dict(still_fails=bool(f), observed=f[:3]), default=str))
            return 1 if f else 0
        if replay.get("stream") == "lazy-exception":
            f = lazy_exception_scenario(None)
            print(json.dumps(dict(still_fails=bool(f), observed=f[:3]), default=str))
            return 1 if f else 0
        if replay.get("stream") == "value-matrix":
            f = [x for x in value_matrix(chk, None) if x["clause"] == replay["class"]["clause"] and x.get("value") == replay["observed"].get("value")]
            print(json.dumps(dict(still_fails=bool(f), observed=f[:3]), default=str))
            return 1 if f else 0
        r = run_history(replay["program"], replay["backend"], replay["ops"], use_model=False)
        print(json.dumps(dict(still_fails=bool(r["fails"]), observed=r["fails"][:3]), default=str))
        return 1 if r["fails"] else 0

    chk.rule = ("generated call-DAG programs (2-6 functions; nested, repeated, batched, failing with rebuildable / opaque / "
                "non-memoized exceptions, caught or propagating; context overrides, ignore_result, prevent_further_calls, "
                "hidden dynamic calls, resources) x histories of call / immediate repeat / call_batch / forget+call / "
                "memento x {memory, fs, fs+cache}; plus 51 result values of every supported type x 4 backends; plus functions declared with a version salt / automatic / explicit version / declared dependencies called through modifier clones and plainly, in both orders, with and without a registration in between. "
                "Distinct = distinct (program, backend, history); non-trivial = program has >= 1 nested call.")
    proof_ok = chk.build_and_audit()
    # translator part: finite decision tables regenerated from the running code, theorems over them re-checked
    import gen_tables
    gen_tables.attach(chk, "C02Tables")
    quick = chk.tier == "quick"
    rng = chk.rng
    nprog = 25 if quick else 400
    failures = 0
    for f in value_matrix(chk, chk.tmpdir()):
        chk.violation({"what": "value matrix: %s for %s on %s" % (f["clause"], f.get("value"), f.get("backend")),
                       "class": {"clause": f["clause"], "stream": "value-matrix", "value_kind": (f.get("value") or "").split("-")[0]},
                       "stream": "value-matrix", "observed": f})
    lf = lazy_exception_scenario(chk.tmpdir())
    chk.case(["exception-class-imported-by-the-body"], nontrivial=True, sample=dict(kind="recorded exception replayed in a later process"))
    chk.count("lazy-exception-processes", 2)
    for f in lf[:1]:
        chk.violation({"what": "recorded exception replayed in process %s as %s (expected %s)" % (f.get("process"), f.get("got"), f.get("expected")),
                       "class": {"clause": f["clause"], "stream": "lazy-exception"}, "stream": "lazy-exception", "observed": lf[:3]})
    for f in modifier_scenario(chk, chk.tmpdir())[:3]:
        chk.violation({"what": "modifier clone vs plain call (%s via %s, %s): %s" % (f["fn"], f["modifier"], f["order"], f["clause"]),
                       "class": {"clause": f["clause"], "stream": "modifiers", "fn": f["fn"]}, "stream": "modifiers", "observed": f})
    for pi in range(nprog):
        prog = progs.gen_program(rng)
        ops = gen_ops(rng, prog, rng.randint(3, 10 if quick else 20))
        for backend in BACKENDS:
            res = run_history(prog, backend, ops, use_model=proof_ok, root=chk.tmpdir())
            chk.case([prog, backend, ops], nontrivial=any(d["stmts"] for d in prog["fns"].values()),
                     sample=dict(backend=backend, fns={k: v["stmts"][:2] for k, v in list(prog["fns"].items())[:3]}, ops=ops[:3],
                                 answers=[t["real"] for t in res["transcript"][:3]]))
            for t in res["transcript"]:
                chk.count("op:" + t["op"][0])
                if t["real"].startswith("x:"):
                    chk.count("outcome:exc-cls-" + t["real"].split(":")[1])
            if res["fails"]:
                failures += 1
                f = res["fails"][0]
                if failures <= 3:
                    clause = f["clause"]

                    def still(cand):
                        r = run_history(prog, backend, cand, use_model=False)
                        return any(x["clause"] == clause for x in r["fails"])
                    small = ddmin(ops[: f["step"] + 1], still)
                    chk.violation({"what": "runner on %s: %s" % (backend, clause), "class": {"clause": clause, "stream": "histories"},
                                   "program": prog, "backend": backend, "ops": small, "observed": res["fails"][:2],
                                   "source": progs.render(prog, "replay")})
            elif res["mismatch"]:
                chk.correspondence_break("runner-ops", dict(program=prog, backend=backend, ops=ops[: res["mismatch"][0]["step"] + 1],
                                                            first=res["mismatch"][0]))
        if failures > 3 or len(chk.correspondence_breaks) > 8:
            break


if __name__ == "__main__":
    sys.exit(run_check(PROP, main, sys.argv[1:]))
