"""Abstract *versioned* programs (C01, C03, C13, C14): generation, edits, rendering to a real package.

prog = {"defs": {name: d}, "order": [names in definition order]}
d = {"kind": "memento", "where": "mod"|"aux", "explicit": None|str, feats..., "refs": [[target, form], ...]}
    {"kind": "plain",   "where": "mod"|"aux", feats..., "refs": [...], "wrapped": bool}
    {"kind": "var",     "where": "mod"|"aux", "value": <json value> | "UNSUPPORTED"}
feats = const:int, setc:[str]|None, tup:[int]|None, dflt:int|None, kwd:int|None, lam:int|None
form  = "bare" | "alias" | "hidden" | "chained"   (module attribute form `aux.NAME` is implied by where == "aux";
        "chained": the reference sits in the arguments of a call whose result is dereferenced: `_box(NAME).val`)
Every feature flows into the return value, so every abstract edit is semantically observable.
Functions only reference defs, cycles are allowed between memento functions only through "bare" refs
guarded by depth (x > 0).
"""
import copy
import json
import os

FEATS = ("const", "setc", "tup", "dflt", "kwd", "lam", "nest", "gx", "dcall", "kw2")
NESTS = (["alpha", "beta", "gamma", "delta"], ["alpha", "beta", "gamma", "epsilon"], ["north", "south", "east", "west", "up"])


def gen_prog(rng, nm=None, nh=None, nv=None, cyc_rate=0.15, hidden_rate=0.08, aux_rate=0.3, explicit_rate=0.15, chain_rate=0.6, lambda_rate=0.25, twin_rate=0.3, maux_rate=0.2, kw2_rate=0.0):
    nm = nm or rng.randint(2, 4)
    nh = rng.randint(0, 3) if nh is None else nh
    nv = rng.randint(0, 3) if nv is None else nv
    defs = {}
    names = ["V%d" % i for i in range(1, nv + 1)] + ["h%d" % i for i in range(1, nh + 1)] + ["m%d" % i for i in range(1, nm + 1)]
    for n in names:
        where = "aux" if (n[0] in "Vh" and rng.random() < aux_rate) else "mod"
        if n[0] == "m" and n != "m%d" % nm and rng.random() < maux_rate:
            where = "aux"                 # memento functions of the helper module (reached as `aux.mK` from `mod`)
        if n[0] == "V":
            val = rng.choice([1, 2, "s", [1, 2], {"a": 1, "b": [2]}, 1.5, True, None, "UNSUPPORTED", "DICT_FROM_SET0", "MIXDICT_FROM_SET0",
                              "UNSUPPORTED_SET", "UNSUPPORTED_LSET"])
            defs[n] = dict(kind="var", where=where, value=val)
            continue
        d = dict(kind="memento" if n[0] == "m" else "plain", where=where, const=rng.randint(0, 9),
                 setc=rng.choice([None, None, ["a", "b"], ["alpha", "beta", "gamma", "delta"]]),
                 tup=rng.choice([None, [1, 2], [3]]), dflt=rng.choice([None, None, 1, 2]), kwd=rng.choice([None, None, 5]),
                 lam=rng.choice([None, 0, 1]), nest=rng.choice([None, None, None, 0, 2]),
                 gx=rng.choice([None, None, None, "x", "y"]), dcall=rng.choice([None, None, None, 0, 1]), refs=[])
        if d["kind"] == "memento":
            d["explicit"] = ("e%d" % rng.randint(1, 3)) if rng.random() < explicit_rate else None
            d["wrapped"] = rng.random() < 0.12
        else:
            d["wrapped"] = rng.random() < 0.2
        defs[n] = d
    # references: to earlier defs (DAG) + occasional back edges between memento functions (cycles)
    fn_names = [n for n in names if n[0] in "hm"]
    for i, n in enumerate(fn_names):
        d = defs[n]
        cands = [x for x in names if x[0] == "V"] + fn_names[:i]
        if d["where"] == "aux":                          # aux cannot import mod (no circular imports)
            cands = [x for x in cands if defs[x]["where"] == "aux"]
        for _ in range(rng.randint(0, 3)):
            if not cands:
                break
            t = rng.choice(cands)
            form = "bare"
            if defs[t]["kind"] != "var" and defs[t]["where"] == d["where"] and rng.random() < 0.15:
                form = "alias"
            if defs[t]["kind"] == "memento" and d["kind"] == "memento" and rng.random() < hidden_rate:
                form = "hidden"
            elif form == "bare" and rng.random() < 0.15:
                form = "chained"
            if [t, form] not in d["refs"]:
                d["refs"].append([t, form])
        earlier_m = [x for x in fn_names[:i] if x[0] == "m" and (d["where"] == "mod" or defs[x]["where"] == "aux")]
        if d["kind"] == "memento" and earlier_m and rng.random() < chain_rate:
            t = rng.choice(earlier_m)                    # chains of memento functions (depth >= 2 dependencies)
            if not any(r[0] == t for r in d["refs"]):
                d["refs"].append([t, "bare"])
        if d["kind"] == "memento" and rng.random() < cyc_rate:
            later = [x for x in fn_names[i:] if x[0] == "m" and (d["where"] == "mod" or defs[x]["where"] == "aux")]
            if later:
                d["refs"].append([rng.choice(later), "bare"])
        if d["kind"] == "plain" and not d.get("wrapped") and rng.random() < lambda_rate:
            # an anonymous helper bound to a module-level name: `h1 = lambda x: [...]` (all lambdas share one __qualname__)
            d["aslambda"] = True
            d.update(setc=None, tup=None, dflt=None, kwd=None, lam=None, nest=None, gx=None, dcall=None)
        elif d["kind"] == "plain" and rng.random() < kw2_rate:
            d["kw2"] = rng.choice([0, 1])         # two required keyword-only parameters, passed by keyword at every call site
    # a variable whose name differs from another one only in case (rule keys that tie in a case-insensitive order)
    for n in [x for x in names if x[0] == "V"]:
        if rng.random() < twin_rate and not unsupported(defs[n]["value"]):
            tw = "v" + n[1:]
            users = [x for x in fn_names if any(r[0] == n for r in defs[x]["refs"])]
            if not users:
                continue
            defs[tw] = dict(kind="var", where=defs[n]["where"], value=rng.choice([v for v in [11, 12, "tw", [3, 4]] if v != defs[n]["value"]]))
            names = [tw] + names
            for x in users:
                form = next(r[1] for r in defs[x]["refs"] if r[0] == n)
                defs[x]["refs"].append([tw, form if form in ("bare", "chained") else "bare"])
    return dict(defs=defs, order=names)


def edits(rng, prog, n=1):
    """apply n random single-feature edits; returns (new program, list of edit descriptions)"""
    p = copy.deepcopy(prog)
    log = []
    names = list(p["defs"])
    for _ in range(n):
        name = rng.choice(names)
        d = p["defs"][name]
        if d["kind"] == "var" and unsupported(d["value"]):
            continue                      # variables of unsupported types are not tracked (outside the property)
        if d.get("foreign"):
            continue                      # a function of another package is not tracked either
        if d["kind"] == "var":
            old = d["value"]
            d["value"] = rng.choice([v for v in [1, 2, 3, "s", "t", [1, 2], [2, 1], {"a": 1, "b": [2]}, {"b": [2], "a": 2}, 1.5, False,
                                                 "DICT_FROM_SET0", "DICT_FROM_SET1"] if v != old])
            log.append(["var", name])
            continue
        kind = rng.choice(["const", "setc", "tup", "dflt", "kwd", "lam", "nest", "gx", "dcall", "ref+", "ref-", "explicit"])
        if d.get("kw2") is not None and rng.random() < 0.5:
            d["kw2"] = 1 - d["kw2"]       # the two keyword-only parameter names change places, uses included
            log.append(["kw2", name])
            continue
        if d.get("aslambda") and kind in ("setc", "tup", "dflt", "kwd", "lam", "nest", "gx", "dcall"):
            kind = "const"                # a lambda helper renders its constant and references only
        if kind == "const":
            d["const"] += 1
        elif kind == "setc":
            d["setc"] = rng.choice([x for x in [None, ["a", "b"], ["a", "c"], ["alpha", "beta", "gamma", "delta"],
                                                ["alpha", "beta", "gamma", "epsilon"]] if x != d["setc"]])
        elif kind == "tup":
            d["tup"] = rng.choice([x for x in [None, [1, 2], [2, 1], [3]] if x != d["tup"]])
        elif kind == "dflt":
            d["dflt"] = rng.choice([x for x in [None, 1, 2, 3] if x != d["dflt"]])
        elif kind == "kwd":
            d["kwd"] = rng.choice([x for x in [None, 5, 6] if x != d["kwd"]])
        elif kind == "lam":
            d["lam"] = rng.choice([x for x in [None, 0, 1, 2] if x != d["lam"]])
        elif kind == "nest":
            d["nest"] = rng.choice([x for x in [None, 0, 1, 2] if x != d.get("nest")])
        elif kind == "gx":
            d["gx"] = rng.choice([x for x in [None, "x", "y", "z"] if x != d.get("gx")])
        elif kind == "dcall":
            d["dcall"] = rng.choice([x for x in [None, 0, 1] if x != d.get("dcall")])
        elif kind == "ref+":
            idx = p["order"].index(name)
            cands = [x for x in p["order"][:idx] if [x, "bare"] not in d["refs"]
                     and (d["where"] == "mod" or p["defs"][x]["where"] == "aux")]
            if cands:
                d["refs"].append([rng.choice(cands), "bare"])
            else:
                d["const"] += 1
        elif kind == "ref-":
            if d["refs"]:
                d["refs"].pop(rng.randrange(len(d["refs"])))
            else:
                d["const"] += 1
        elif kind == "explicit":
            if d["kind"] == "memento":
                # version strings are never reused (a reused string asserts "same behaviour as back then")
                p["vctr"] = p.get("vctr", 10) + 1
                d["explicit"] = None if (d["explicit"] and rng.random() < 0.3) else "e%d" % p["vctr"]
            else:
                d["const"] += 1
        if d["kind"] == "memento" and d.get("explicit") and kind != "explicit":
            # user discipline: whoever edits an explicitly versioned function also changes its version string
            d["explicit"] = d["explicit"] + "x"
            log.append(["explicit-bump", name])
        log.append([kind, name])
    return p, log


def closure_all(prog, name):
    """every definition reachable from `name` through any reference (visible or hidden), itself included"""
    seen, todo = set(), [name]
    while todo:
        t = todo.pop()
        if t in seen or t not in prog["defs"]:
            continue
        seen.add(t)
        d = prog["defs"][t]
        if d["kind"] != "var":
            todo += [r[0] for r in d["refs"]]
    return seen


def discipline(prev, cur):
    """a disciplined user changes the version string of an explicitly versioned function whenever the function
    or anything beneath it changed (that is what an explicit version asserts). Mutates and returns `cur`."""
    changed = {n for n in cur["defs"] if prev["defs"].get(n) != cur["defs"][n]}
    for n, d in cur["defs"].items():
        if d["kind"] == "memento" and d.get("explicit") and prev["defs"].get(n, {}).get("explicit") == d["explicit"]:
            if closure_all(cur, n) & changed or closure_all(prev, n) & changed:
                d["explicit"] = d["explicit"] + "y"
    return cur


# ------------------------------------------------------------------------------------------------
# rendering
# ------------------------------------------------------------------------------------------------

def unsupported(v):
    """values of types memento does not track (no rule is made for the variable)"""
    return isinstance(v, str) and (v.startswith("UNSUPPORTED") or v.startswith("MIXDICT"))


def _lit(v):
    if v == "UNSUPPORTED":
        return "complex(1, 2)"
    if v == "UNSUPPORTED_SET":
        # a set of strings (iteration order follows hash randomisation); sets are not tracked
        return "{'alpha', 'beta', 'gamma', 'delta', 'eps', 'zeta'}"
    if v == "UNSUPPORTED_LSET":
        return "[1, {'k': frozenset({'alpha', 'beta', 'gamma', 'delta'})}]"
    if isinstance(v, str) and v.startswith("MIXDICT_FROM_SET"):
        # the same with keys of two types (str and int): json cannot sort such keys
        return "{(k if len(k) %% 2 else len(k)): len(k) + %d for k in {'alpha', 'beta', 'gamma', 'delta', 'eps', 'zeta', 'et'}}" % int(v[16:] or 0)
    if isinstance(v, str) and v.startswith("DICT_FROM_SET"):
        # a dict whose insertion order is not fixed by the program text (it follows set iteration order)
        return "{k: len(k) + %d for k in {'alpha', 'beta', 'gamma', 'delta', 'eps', 'zeta'}}" % int(v[13:] or 0)
    return repr(v)


def _cargs(td):
    """argument text of a call of `td`: a helper with two required keyword-only parameters is called with both by keyword"""
    return "x - 1, p=3, q=4" if td is not None and td.get("kw2") is not None else "x - 1"


def render_def(name, d, prog, pkg):
    """source text of one definition (as it appears in its module)"""
    if d["kind"] == "var":
        return "%s = %s\n" % (name, _lit(d["value"]))
    if d.get("foreign"):
        return "%s = vrec.foreign\n" % name          # a plain function that lives in another package
    if d.get("aslambda"):
        return render_lambda(name, d, prog)
    params = "x"
    if d["dflt"] is not None:
        params += ", y=%d" % d["dflt"]
    if d.get("nest") is not None:
        # a default value that holds a set two levels down (its repr depends on hash randomisation)
        params += ", w=((\"n\", frozenset({%s})),)" % ", ".join(repr(x) for x in NESTS[d["nest"]])
    if d.get("dcall") is not None:
        # a default value that is a callable (a plain function object: its repr holds an address)
        params += ", g=%s" % ("_box", "_unbox")[d["dcall"]]
    if d["kwd"] is not None:
        params += ", *, z=%d" % d["kwd"]
    if d.get("kw2") is not None:
        # two required keyword-only parameters; the edit 0 <-> 1 exchanges their names together with their uses, which leaves
        # the bytecode as it is and changes what keyword callers get
        params += (", p, q" if d["kwd"] is not None else ", *, p, q") if d["kw2"] == 0 else (", q, p" if d["kwd"] is not None else ", *, q, p")
    L = []
    if d["kind"] == "memento":
        L.append('@memento_function(cluster="vp"%s)' % (', version=%r' % d["explicit"] if d["explicit"] else ""))
        if d.get("wrapped"):
            L.append("@_deco")                       # the memento function is stacked on a functools.wraps decorator
    elif d.get("wrapped"):
        L.append("@_deco")
    L.append("def %s(%s):" % (name, params))
    if d["kind"] == "memento":
        L.append('    vrec.REC.enter(%r, x)' % name)
    L.append("    r = [%d]" % d["const"])
    # a local whose name is a *prefix* of the module name `aux` and of the alias names `a_...` (not a component of them)
    L.append("    a = x")
    L.append("    r.append(a - x)")
    if d["setc"] is not None:
        L.append("    r.append([v for v in ('a', 'b', 'c', 'alpha', 'beta', 'gamma', 'delta', 'epsilon') if v in {%s}])" %
                 ", ".join(repr(s) for s in d["setc"]))
    if d["tup"] is not None:
        L.append("    r.append(%r)" % (tuple(d["tup"]),))
    if d["dflt"] is not None:
        L.append("    r.append(y)")
    if d["kwd"] is not None:
        L.append("    r.append(z)")
    if d.get("kw2") is not None:
        L.append("    r.append(p * 10 + q)" if d["kw2"] == 0 else "    r.append(q * 10 + p)")
    if d.get("nest") is not None:
        L.append("    r.append(sorted(w[0][1]))")
    if d.get("gx") is not None:
        # a generator expression whose first constant is a string
        L.append("    r.append(','.join(%r + str(i) for i in range(2)))" % d["gx"])
    if d.get("dcall") is not None:
        L.append("    r.append(g(3).val)")
    if d["lam"] is not None:
        L.append("    r.append((lambda q: q + %d)(0))" % d["lam"])
    for t, form in d["refs"]:
        td = prog["defs"].get(t)
        here = d["where"]
        if td is None:
            expr = t                                         # reference to a symbol that is not defined
        elif td["where"] == here:
            expr = ("a_" + t) if form == "alias" else t
        else:
            expr = ("aux." if td["where"] == "aux" else "mod.") + t
        if t in prog.get("late_builtin", []):
            # a name that is a builtin until the module defines a function of that name: written the same way before and after
            L.append("    r.append(%s(-3))" % t)
            continue
        if td is not None and td["kind"] == "var" or td is None:
            if td is None or t in prog.get("late", []):
                # a symbol that is (or once was) undefined: the reference is written the same way before and after
                L.append("    r.append(%s if %r in globals() else None)" % (t, t))
            elif form == "chained":
                L.append("    r.append(_box(%s).val)" % expr)
            else:
                L.append("    r.append(%s)" % expr)
        elif form == "hidden":
            tbl = "globals()" if td["where"] == here else "vars(%s)" % td["where"]
            L.append("    r.append(%s[%r](%s) if x > 0 else None)" % (tbl, t, _cargs(td)))
        else:
            if "." in expr:
                # `module.func(...)` compiles differently in a module file (where the compiler sees the import and
                # skips the method-call optimisation) and in a separately compiled definition (exec / notebook cell):
                # bind the attribute first so that the bytecode is the same however the definition is delivered
                # the local variable is named like the attribute (`h1 = aux.h1`): a local name equal to a *component* of a
                # dotted reference does not make the reference local
                loc = t if (len(t) + d["const"]) % 2 == 0 else "_t"
                L.append("    %s = %s" % (loc, expr))
                expr = loc
            if form == "chained":
                L.append("    r.append(_box(%s(%s) if x > 0 else None).val)" % (expr, _cargs(td)))
            else:
                L.append("    r.append(%s(%s) if x > 0 else None)" % (expr, _cargs(td)))
    L.append("    return r")
    return "\n".join(L) + "\n"


def render_lambda(name, d, prog):
    """`name = lambda x: [const, ref, ...]` - only the constant and the references of the definition are rendered"""
    items = [str(d["const"])]
    for t, form in d["refs"]:
        td = prog["defs"].get(t)
        here = d["where"]
        if td is None:
            expr = t
        elif td["where"] == here:
            expr = ("a_" + t) if form == "alias" else t
        else:
            expr = ("aux." if td["where"] == "aux" else "mod.") + t
        if td is None or td["kind"] == "var":
            if td is None or t in prog.get("late", []):
                items.append("(%s if %r in globals() else None)" % (t, t))
            else:
                items.append(expr)
        elif form == "hidden":
            tbl = "globals()" if td["where"] == here else "vars(%s)" % td["where"]
            items.append("(%s[%r](%s) if x > 0 else None)" % (tbl, t, _cargs(td)))
        elif "." in expr:
            items.append("(lambda _t: _t(%s) if x > 0 else None)(%s)" % (_cargs(td), expr))
        else:
            items.append("(%s(%s) if x > 0 else None)" % (expr, _cargs(td)))
    return "%s = lambda x: [%s]\n" % (name, ", ".join(items))


HEADER_MOD = '''from twosigma.memento import memento_function
import functools
import vrec
from . import aux


def _deco(fn):
    @functools.wraps(fn)
    def wrapper(*a, **k):
        return fn(*a, **k)
    return wrapper


class _Box:
    def __init__(self, v):
        self.val = v


def _box(v):
    return _Box(v)


def _unbox(v):
    return _Box(-v)

'''
HEADER_AUX = '''from twosigma.memento import memento_function
import functools
import vrec


def _deco(fn):
    @functools.wraps(fn)
    def wrapper(*a, **k):
        return fn(*a, **k)
    return wrapper


class _Box:
    def __init__(self, v):
        self.val = v


def _box(v):
    return _Box(v)


def _unbox(v):
    return _Box(-v)

'''


def render_modules(prog, pkg, order=None):
    """returns {"mod": source, "aux": source}; `order` = definition order to use (a permutation of prog["order"])"""
    order = order or prog["order"]
    out = {"mod": HEADER_MOD, "aux": HEADER_AUX}
    for name in order:
        d = prog["defs"][name]
        out[d["where"]] += render_def(name, d, prog, pkg) + "\n"
    # aliases (a second name bound to the same object), after all definitions of the module
    amap = prog.get("alias_map", {})
    for name, d in prog["defs"].items():
        if d["kind"] != "var":
            for t, form in d["refs"]:
                if form == "alias" and t in prog["defs"] and prog["defs"][t]["where"] == d["where"]:
                    line = "a_%s = %s\n" % (t, amap.get(t, t))
                    if line not in out[d["where"]]:
                        out[d["where"]] += line
    return out


def write_package(prog, root, pkg, order=None):
    d = os.path.join(root, pkg)
    os.makedirs(d, exist_ok=True)
    mods = render_modules(prog, pkg, order)
    open(os.path.join(d, "__init__.py"), "w").write("")
    open(os.path.join(d, "aux.py"), "w").write(mods["aux"])
    open(os.path.join(d, "mod.py"), "w").write(mods["mod"])
    open(os.path.join(d, "other.py"), "w").write(
        'from twosigma.memento import memento_function\n\n\n@memento_function(cluster="vp")\ndef unrelated(x):\n    return x\n')
    return d


# ------------------------------------------------------------------------------------------------
# the abstract reference graph (what C14 / the Lean model talk about)
# ------------------------------------------------------------------------------------------------

def visible_refs(prog, name):
    d = prog["defs"][name]
    if d["kind"] == "var":
        return []
    amap = prog.get("alias_map", {})
    return [(amap.get(t, t) if form == "alias" else t) for t, form in d["refs"] if form != "hidden"]


def reach_memento(prog, root):
    """memento functions reachable from root through memento and (in-package) plain functions"""
    seen, todo, out = set(), list(visible_refs(prog, root)), set()
    while todo:
        t = todo.pop()
        if t in seen or t not in prog["defs"]:
            continue
        seen.add(t)
        d = prog["defs"][t]
        if d["kind"] == "memento":
            out.add(t)
        if d["kind"] != "var":
            todo += visible_refs(prog, t)
    out.discard(root)
    return out


def direct_memento(prog, root):
    return {t for t in visible_refs(prog, root) if t in prog["defs"] and prog["defs"][t]["kind"] == "memento" and t != root}


def graph_edges(prog, root):
    """edges f -> g between memento functions: g reachable from f through plain functions only; over the
    memento functions reachable from root (incl. root)"""
    nodes = reach_memento(prog, root) | {root}
    edges = set()
    for f in nodes:
        seen, todo = set(), list(visible_refs(prog, f))
        while todo:
            t = todo.pop()
            if t in seen or t not in prog["defs"]:
                continue
            seen.add(t)
            d = prog["defs"][t]
            if d["kind"] == "memento":
                if t != f:
                    edges.add((f, t))
            elif d["kind"] == "plain":
                todo += visible_refs(prog, t)
    return edges
