"""C13 — the in-process version cache is coherent with a from-scratch computation.

Lean: Model/VersionCache.lean + Props/C13.lean. Oracle: event sequences applied in ONE interpreter
(re-executing definitions in any order, rebinding and mutating tracked variables, defining a
previously undefined symbol, replacing a memento function by a plain one and back, rebinding
aliases, creating modifier clones and unregistered wrappers); after every event every live function
object is asked for its version, which must succeed and equal the version a FRESH process computes
for the rendered resulting program (unless the cluster was locked).
"""
import concurrent.futures
import copy
import hashlib
import json
import os
import shutil
import sys
import tempfile

import common
from common import run_check
import re

import vmodel
import vprogs
import vrun
import c01

PROP = "C13"


def gen_events(rng, prog, n, lock_rate=0.0):
    """returns list of (event description, actions, program after the event, live clone table)"""
    cur = copy.deepcopy(prog)
    clones = {}         # object name -> base function name
    out = []
    nclone = 0
    nref = 0
    for _ in range(n):
        r = rng.random()
        prev = copy.deepcopy(cur)
        acts, desc = [], None
        fns = [x for x, d in cur["defs"].items() if d["kind"] != "var"]
        mems = [x for x, d in cur["defs"].items() if d["kind"] == "memento"]
        locked = bool(cur.get("locked"))
        if lock_rate and rng.random() < (0.30 if locked else lock_rate):
            # the cluster is locked / unlocked (`cluster.locked = ...`): the answers given while it is locked are excluded by the
            # property, everything asked after the unlock is not
            if locked:
                cur.pop("locked")
            else:
                cur["locked"] = True
            # (every live object is asked once before the lock: the code computes a version when a function is registered, the
            #  model when it is first asked — the difference shows only in the excluded answers of a never-asked function)
            acts = [["lock", 0]] if locked else [["versions", [x for x, d in cur["defs"].items() if d["kind"] == "memento"] + list(clones)],
                                                 ["lock", 1]]
            desc = ["unlock" if locked else "lock"]
        elif locked and 0.60 <= r < 0.70:
            continue                                  # no memento <-> plain switches while locked (registration)
        elif r < 0.40:
            cur, lg = vprogs.edits(rng, cur, 1)
            if not lg:
                continue
            changed = [x for x in set(prev["defs"]) | set(cur["defs"]) if prev["defs"].get(x) != cur["defs"].get(x)]
            if locked and any("memento" in (prev["defs"].get(x, {}).get("kind"), cur["defs"].get(x, {}).get("kind")) for x in changed):
                # a memento function defined again, with code never seen before, while the cluster is locked: the registration
                # is refused, the `def` statement raises, the program stays what it was
                if len(changed) != 1 or prev["defs"][changed[0]].get("explicit") or prev["defs"][changed[0]].get("aslambda"):
                    cur = prev
                    continue
                x = changed[0]
                nref += 1
                dnew = copy.deepcopy(prev["defs"][x])
                dnew["const"] = 1000 + nref
                tmp = copy.deepcopy(prev)
                tmp["defs"][x] = dnew
                cur = prev
                acts = [["exec", dnew["where"], vprogs.render_def(x, dnew, tmp, "vpk"), {"refused": x, "def": dnew}]]
                desc = ["refused-definition", x]
                out.append((desc, acts, copy.deepcopy(cur), dict(clones), None if rng.random() < 0.5 else []))
                continue
            acts = c01.event_actions(prev, cur)
            desc = ["edit"] + lg[-1]
            # a clone / wrapper made from a function object that has since been re-defined still wraps the OLD
            # function: it is no longer part of "the resulting program", so it is not compared any more
            redefined = {n for n in cur["defs"] if cur["defs"][n]["kind"] != "var" and prev["defs"].get(n) != cur["defs"][n]}
            clones = {c: b for c, b in clones.items() if b not in redefined}
        elif r < 0.50:
            muts = [x for x, d in cur["defs"].items() if d["kind"] == "var" and isinstance(d["value"], (list, dict))]
            if not muts:
                continue
            v = rng.choice(muts)
            k = rng.randint(10, 99)
            if isinstance(cur["defs"][v]["value"], list):
                cur["defs"][v]["value"] = cur["defs"][v]["value"] + [k]
            else:
                cur["defs"][v]["value"] = dict(cur["defs"][v]["value"], **{"k%d" % k: k})
            acts = [["mutate", cur["defs"][v]["where"], v, k]]
            desc = ["mutate-variable-in-place", v]
        elif r < 0.60:
            # define a symbol that some function references but that was undefined so far
            und = sorted({t for d in cur["defs"].values() if d["kind"] != "var" for t, _ in d["refs"] if t not in cur["defs"]})
            if not und:
                continue
            u = rng.choice(und)
            users = [d for d in cur["defs"].values() if d["kind"] != "var" and any(t == u for t, _ in d["refs"])]
            where = users[0]["where"]
            if u in cur.get("late_builtin", []):
                # the name was a builtin so far: the module now defines a plain function of that name
                cur["defs"][u] = dict(c01._fn("plain", []), where=where, const=rng.randint(1, 9))
                cur["order"] = [u] + cur["order"]
                acts = c01.event_actions(prev, cur)
                desc = ["shadow-builtin", u]
            else:
                # (sometimes the name is defined with the value None: a definition all the same)
                cur["defs"][u] = dict(kind="var", where=where, value=(None if rng.random() < 0.35 else rng.randint(1, 9)))
                cur["order"] = [u] + cur["order"]
                acts = [["setvar", where, u, repr(cur["defs"][u]["value"])]]
                desc = ["define-undefined-symbol", u]
        elif r < 0.70 and mems:
            # replace a memento function by a plain one (same name), or back
            cands = [x for x, d in cur["defs"].items() if d["kind"] != "var" and x[0] == "m"]
            x = rng.choice(cands)
            d = cur["defs"][x]
            if d.get("foreign"):
                # back to the identical memento function it was before
                cur["defs"][x] = d = copy.deepcopy(d["was"])
            elif d["kind"] == "memento" and rng.random() < 0.35:
                # a plain function of another package: memento keeps no rule for it, but watches the symbol (fix F27; before it,
                # the switch back ran into the then known finding K5)
                cur["defs"][x] = d = dict(kind="plain", where=d["where"], foreign=True, wrapped=False, const=0, setc=None, tup=None, dflt=None,
                                          kwd=None, lam=None, nest=None, refs=[], was=copy.deepcopy(d))
                clones = {c: b for c, b in clones.items() if b != x}
            elif d["kind"] == "memento":
                d["kind"] = "plain"
                d["wrapped"] = False
                d.pop("explicit", None)
                clones = {c: b for c, b in clones.items() if b != x}
            else:
                d["kind"] = "memento"
                d["explicit"] = None
                d.pop("wrapped", None)
            acts = c01.event_actions(prev, cur)
            desc = ["switch-kind", x, d["kind"]]
        elif r < 0.78:
            # rebind an alias to another function of the same module
            al = sorted({t for d in cur["defs"].values() if d["kind"] != "var" for t, f in d["refs"] if f == "alias" and t in cur["defs"]})
            if not al:
                continue
            t = rng.choice(al)
            same = [x for x in fns if cur["defs"][x]["where"] == cur["defs"][t]["where"]]
            u = rng.choice(same)
            cur.setdefault("alias_map", {})[t] = u
            acts = [["exec", cur["defs"][t]["where"], "a_%s = %s\n" % (t, u)]]
            desc = ["rebind-alias", t, u]
        elif r < 0.92 and mems:
            base = rng.choice(mems)
            nclone += 1
            name = "c%d" % nclone
            how = rng.choice(["partial", "ignore", "ctx", "force_local", "wrapper"])
            clones[name] = base
            acts = [["wrapper", name, base]] if how == "wrapper" else [["clone", name, base, how]]
            desc = ["create-" + how, name, base]
        else:
            continue
        qn = None
        if rng.random() < 0.5:
            # version queries are interleaved at every position, for any subset of the live objects
            live = [x for x, d in cur["defs"].items() if d["kind"] == "memento"] + list(clones)
            qn = [x for x in live if rng.random() < 0.5]
        out.append((desc, acts, copy.deepcopy(cur), dict(clones), qn))
    if cur.get("locked"):
        cur.pop("locked")
        out.append((["unlock"], [["lock", 0]], copy.deepcopy(cur), dict(clones), None))
    if out:
        out[-1] = out[-1][:4] + (None,)
    return out


def k5_prone(prog, x):
    """x is referenced from its own closure (a cycle through x) or through an alias"""
    for d in prog["defs"].values():
        if d["kind"] != "var" and any(t == x and form == "alias" for t, form in d["refs"]):
            return True
    d = prog["defs"][x]
    if d["kind"] == "var":
        return False
    for t, _ in d["refs"]:
        if t in prog["defs"] and x in vprogs.closure_all(prog, t):
            return True
    return False


def k5_scenarios():
    """The histories of the former known finding K5 (repaired by fix F27; now run like every other scenario, model included):
    a symbol that is bound to an object memento does not track (a plain function of another package) when a dependent's
    version is computed was not watched; binding it to a tracked object afterwards was not noticed until the next registration. (a) a self-recursive memento function replaced by a foreign plain function and defined
    again: its decorator computes the version while its own name is still bound to the foreign function.
    (b) an alias of a function that became foreign is re-bound to a memento function."""
    f = c01._fn
    out = []
    foreign = lambda was: dict(kind="plain", where="mod", foreign=True, wrapped=False, const=0, setc=None, tup=None, dflt=None, kwd=None,
                               lam=None, nest=None, refs=[], was=copy.deepcopy(was))
    a0 = dict(defs={"m1": f("memento", [["m1", "bare"]]), "m2": f("memento", [["m1", "bare"]])}, order=["m1", "m2"])
    a1 = copy.deepcopy(a0); a1["defs"]["m1"] = foreign(a0["defs"]["m1"])
    a2 = copy.deepcopy(a0)
    out.append(dict(formerly_known="K5a", note="self-recursive memento function -> foreign plain function -> identical memento function", program=a0,
                    events=[[["switch-kind", "m1", "foreign"], c01.event_actions(a0, a1), a1, {}],
                            [["switch-kind", "m1", "memento"], c01.event_actions(a1, a2), a2, {}]]))
    b0 = dict(defs={"m1": f("memento", []), "m2": f("memento", [], const=2), "m3": f("memento", [["m1", "alias"]])}, order=["m1", "m2", "m3"])
    b1 = copy.deepcopy(b0); b1["defs"]["m1"] = foreign(b0["defs"]["m1"])
    b2 = copy.deepcopy(b1); b2["alias_map"] = {"m1": "m2"}
    out.append(dict(formerly_known="K5b", note="alias of a function that became foreign re-bound to a memento function", program=b0,
                    events=[[["switch-kind", "m1", "foreign"], c01.event_actions(b0, b1), b1, {}],
                            [["rebind-alias", "m1", "m2"], [["exec", "mod", "a_m1 = m2\n"]], b2, {}]]))
    return out


def directed_scenarios():
    """a memento function is replaced by a plain function of another package (no rule is kept for it), its caller is asked
    for its version, and the identical memento function is put back"""
    f = c01._fn
    out = []
    for caller_refs in ([["m1", "bare"]], [["h1", "bare"]]):
        p0 = dict(defs={"m1": f("memento", []), "h1": f("plain", [["m1", "bare"]]), "m2": f("memento", caller_refs), "m3": f("memento", [["m2", "bare"]])},
                  order=["m1", "h1", "m2", "m3"])
        for d in p0["defs"].values():
            d["nest"] = None
        p1 = copy.deepcopy(p0)
        p1["defs"]["m1"] = dict(kind="plain", where="mod", foreign=True, wrapped=False, const=0, setc=None, tup=None, dflt=None, kwd=None, lam=None,
                                nest=None, refs=[], was=copy.deepcopy(p0["defs"]["m1"]))
        p2 = copy.deepcopy(p0)
        evs = [[["switch-kind", "m1", "foreign"], c01.event_actions(p0, p1), p1, {}],
               [["switch-kind", "m1", "memento"], c01.event_actions(p1, p2), p2, {}]]
        out.append(dict(note="memento -> foreign plain function -> identical memento", program=p0, events=evs))
    # one memento function reached from one body through two names (its own and an alias); the alias is re-bound to another
    # memento function, to a plain helper, and back
    t0 = dict(defs={"m1": f("memento", []), "m2": f("memento", [], const=2), "h1": f("plain", [], const=3),
                    "m3": f("memento", [["m1", "bare"], ["m1", "alias"]]), "m4": f("memento", [["m3", "bare"]])}, order=["m1", "m2", "h1", "m3", "m4"])
    for d in t0["defs"].values():
        d["nest"] = None
    evs, prev = [], t0
    for tgt in ("m2", "h1", "m1", "m2"):
        cur = copy.deepcopy(prev)
        cur["alias_map"] = {"m1": tgt}
        evs.append([["rebind-alias", "m1", tgt], [["exec", "mod", "a_m1 = %s\n" % tgt]], cur, {}])
        prev = cur
    out.append(dict(note="a function reached through its name and an alias; the alias re-bound", program=t0, events=evs))
    # a plain helper re-defined several times with the same body and only another default value / keyword default /
    # callable default (the code object of the new definition equals the old one)
    q0 = dict(defs={"h1": f("plain", [], dflt=1, kwd=5, dcall=0), "h2": f("plain", [["h1", "bare"]]), "m1": f("memento", [["h2", "bare"]]),
                    "m2": f("memento", [["m1", "bare"]])}, order=["h1", "h2", "m1", "m2"])
    for d in q0["defs"].values():
        d["nest"] = None
    evs, prev = [], q0
    for feat, val in (("dflt", 2), ("dflt", 3), ("kwd", 6), ("dcall", 1), ("dflt", 1)):
        cur = copy.deepcopy(prev)
        cur["defs"]["h1"][feat] = val
        evs.append([["edit", feat, "h1"], c01.event_actions(prev, cur), cur, {}])
        prev = cur
    out.append(dict(note="helper re-defined with the same code and other default values", program=q0, events=evs))
    # the same for a string constant inside a generator expression of the helper and of a memento function
    g0 = dict(defs={"h1": f("plain", [], gx="x"), "m1": f("memento", [["h1", "bare"]], gx="x"), "m2": f("memento", [["m1", "bare"]])},
              order=["h1", "m1", "m2"])
    for d in g0["defs"].values():
        d["nest"] = None
    evs, prev = [], g0
    for name, val in (("h1", "y"), ("m1", "y"), ("h1", "z"), ("h1", "x")):
        cur = copy.deepcopy(prev)
        cur["defs"][name]["gx"] = val
        evs.append([["edit", "gx", name], c01.event_actions(prev, cur), cur, {}])
        prev = cur
    out.append(dict(note="string constant of a generator expression edited", program=g0, events=evs))
    # a modifier clone created and not asked for its version while a variable goes A -> B -> A and the function itself is
    # asked in state B; the clone is asked first at the end
    for how in ("ignore", "partial", "force_local"):
        c0 = dict(defs={"V1": dict(kind="var", where="mod", value=1), "m1": f("memento", [["V1", "bare"]]), "m2": f("memento", [["m1", "bare"]])},
                  order=["V1", "m1", "m2"])
        c1 = copy.deepcopy(c0); c1["defs"]["V1"]["value"] = 2
        c2 = copy.deepcopy(c0)
        evs = [[["create-" + how, "c1", "m1"], [["clone", "c1", "m1", how]], c0, {"c1": "m1"}, ["m1", "m2"]],
               [["edit", "var", "V1"], c01.event_actions(c0, c1), c1, {"c1": "m1"}, ["m1", "m2"]],
               [["edit", "var", "V1"], c01.event_actions(c1, c2), c2, {"c1": "m1"}, ["c1"]],
               [["edit", "var", "V1"], [], c2, {"c1": "m1"}, None]]
        out.append(dict(note="clone kept unused across A -> B -> A", program=c0, events=evs))
    # the cluster lock: answers given while the cluster is locked are excluded, everything after the unlock is not; a definition
    # refused while locked binds nothing; a wrapper made while locked has no version to freeze; locking ANOTHER cluster freezes nothing
    def refused(pg, x, k):
        dnew = copy.deepcopy(pg["defs"][x]); dnew["const"] = 2000 + k
        tmp = copy.deepcopy(pg); tmp["defs"][x] = dnew
        return [["exec", dnew["where"], vprogs.render_def(x, dnew, tmp, "vpk"), {"refused": x, "def": dnew}]]
    for variant in ("edit-under-lock", "clone-asked-first", "wrapper-under-lock", "clone-under-lock", "never-asked-before-lock", "other-cluster"):
        l0 = dict(defs={"V1": dict(kind="var", where="mod", value=1), "m1": f("memento", [["V1", "bare"]]), "m2": f("memento", [["m1", "bare"]]),
                        "m3": f("memento", [["m2", "bare"]])}, order=["V1", "m1", "m2", "m3"])
        for d in l0["defs"].values():
            if d["kind"] != "var":
                d["nest"] = None
        lk = lambda pg: dict(copy.deepcopy(pg), locked=True)
        l1 = copy.deepcopy(l0); l1["defs"]["V1"]["value"] = 2
        l2 = copy.deepcopy(l1); l2["defs"]["m1"]["const"] = 7
        if variant == "edit-under-lock":
            evs = [[["lock"], [["lock", 1]], lk(l0), {}],
                   [["edit", "var", "V1"], c01.event_actions(l0, l1), lk(l1), {}],
                   [["refused-definition", "m1"], refused(l1, "m1", 1), lk(l1), {}],
                   [["unlock"], [["lock", 0]], l1, {}, ["m3"]],
                   [["unlock"], [], l1, {}, None],
                   [["lock"], [["lock", 1]], lk(l1), {}, []],
                   [["refused-definition", "m2"], refused(l1, "m2", 2), lk(l1), {}, []],
                   [["unlock"], [["lock", 0]], l1, {}, ["m3", "m1"]],
                   [["edit", "const", "m1"], c01.event_actions(l1, l2), l2, {}]]
        elif variant == "clone-asked-first":
            evs = [[["create-partial", "c1", "m2"], [["clone", "c1", "m2", "partial"]], l0, {"c1": "m2"}],
                   [["lock"], [["lock", 1]], lk(l0), {"c1": "m2"}, []],
                   [["edit", "var", "V1"], c01.event_actions(l0, l1), lk(l1), {"c1": "m2"}, ["m2"]],
                   [["unlock"], [["lock", 0]], l1, {"c1": "m2"}, ["c1"]],
                   [["unlock"], [], l1, {"c1": "m2"}, None]]
        elif variant == "clone-under-lock":
            # F28: a clone made while the cluster is locked copies the frozen version; it must be able to say so
            evs = [[["lock"], [["lock", 1]], lk(l0), {}]]
            cl_ = {}
            for k_, how in enumerate(("ctx", "partial", "ignore", "force_local"), 1):
                cl_ = dict(cl_, **{"c%d" % k_: "m%d" % (1 + k_ % 3)})
                evs.append([["create-" + how, "c%d" % k_, "m%d" % (1 + k_ % 3)], [["clone", "c%d" % k_, "m%d" % (1 + k_ % 3), how]], lk(l0), dict(cl_)])
            evs += [[["edit", "var", "V1"], c01.event_actions(l0, l1), lk(l1), dict(cl_)],
                    [["unlock"], [["lock", 0]], l1, dict(cl_), ["c1", "c3"]],
                    [["unlock"], [], l1, dict(cl_), None]]
        elif variant == "never-asked-before-lock":
            # nobody was asked before the lock: what is frozen is the version computed when each function was registered (no function
            # of this program refers to its own name, so the model's registration agrees with the code's)
            l0["skip_initial_query"] = True
            evs = [[["lock"], [["lock", 1]], lk(l0), {}, []],
                   [["edit", "var", "V1"], c01.event_actions(l0, l1), lk(l1), {}, ["m3", "m1"]],
                   [["edit", "var", "V1"], [], lk(l1), {}, None],
                   [["unlock"], [["lock", 0]], l1, {}, ["m2"]],
                   [["unlock"], [], l1, {}, None]]
        elif variant == "wrapper-under-lock":
            evs = [[["lock"], [["lock", 1]], lk(l0), {}],
                   [["edit", "var", "V1"], c01.event_actions(l0, l1), lk(l1), {}, []],
                   [["create-wrapper", "c1", "m2"], [["wrapper", "c1", "m2"]], lk(l1), {"c1": "m2"}, ["c1"]],
                   [["unlock"], [["lock", 0]], l1, {"c1": "m2"}, None]]
        else:
            evs = [[["lock-another-cluster"], [["lock", 1, "vq"]], l0, {}],
                   [["edit", "var", "V1"], c01.event_actions(l0, l1), l1, {}],
                   [["edit", "const", "m1"], c01.event_actions(l1, l2), l2, {}]]
        out.append(dict(note="cluster lock: " + variant, program=l0, events=evs))
    # names bound to functions of other packages (watched without a rule, F27): two names of one body bound to the same foreign
    # function, one of them re-bound; and a modifier clone made before the name is re-bound
    foreign_def = lambda was: dict(kind="plain", where="mod", foreign=True, wrapped=False, const=0, setc=None, tup=None, dflt=None, kwd=None,
                                   lam=None, nest=None, refs=[], was=copy.deepcopy(was))
    w0 = dict(defs={"m1": f("memento", []), "m2": f("memento", [], const=2), "h1": f("plain", [], const=3),
                    "m3": f("memento", [["m1", "bare"], ["m1", "alias"]]), "m4": f("memento", [["m3", "bare"]])}, order=["m1", "m2", "h1", "m3", "m4"])
    for d in w0["defs"].values():
        d["nest"] = None
    w1 = copy.deepcopy(w0); w1["defs"]["m1"] = foreign_def(w0["defs"]["m1"])
    evs = [[["switch-kind", "m1", "foreign"], c01.event_actions(w0, w1), w1, {}]]
    prev = w1
    for tgt in ("m2", "m1", "h1", "m1"):
        cur = copy.deepcopy(prev)
        cur["alias_map"] = {"m1": tgt}
        evs.append([["rebind-alias", "m1", tgt], [["exec", "mod", "a_m1 = %s\n" % tgt]], cur, {}])
        prev = cur
    w9 = copy.deepcopy(prev); w9["defs"]["m1"] = copy.deepcopy(w0["defs"]["m1"])
    evs.append([["switch-kind", "m1", "memento"], c01.event_actions(prev, w9), w9, {}])
    out.append(dict(note="two names of one body bound to one foreign function; one re-bound", program=w0, events=evs))
    for how in ("ignore", "partial", "force_local"):
        y0 = dict(defs={"m1": f("memento", []), "m2": f("memento", [["m1", "bare"]]), "m3": f("memento", [["m2", "bare"]])}, order=["m1", "m2", "m3"])
        for d in y0["defs"].values():
            d["nest"] = None
        y1 = copy.deepcopy(y0); y1["defs"]["m1"] = foreign_def(y0["defs"]["m1"])
        y2 = copy.deepcopy(y0)
        evs = [[["switch-kind", "m1", "foreign"], c01.event_actions(y0, y1), y1, {}],
               [["create-" + how, "c1", "m2"], [["clone", "c1", "m2", how]], y1, {"c1": "m2"}, ["m2", "c1"]],
               [["switch-kind", "m1", "memento"], c01.event_actions(y1, y2), y2, {"c1": "m2"}, ["c1"]],
               [["switch-kind", "m1", "memento"], [], y2, {"c1": "m2"}, None]]
        out.append(dict(note="clone made while a name is bound to a foreign function, asked first after the name is re-bound", program=y0, events=evs))
    for how in ("ignore", "partial", "force_local"):
        # ... and the name is re-bound without any registration (an alias of the foreign function bound to another memento function)
        z0 = dict(defs={"m1": f("memento", []), "m2": f("memento", [], const=2), "m3": f("memento", [["m1", "alias"]]), "m4": f("memento", [["m3", "bare"]])},
                  order=["m1", "m2", "m3", "m4"])
        for d in z0["defs"].values():
            d["nest"] = None
        z1 = copy.deepcopy(z0); z1["defs"]["m1"] = foreign_def(z0["defs"]["m1"])
        z2 = copy.deepcopy(z1); z2["alias_map"] = {"m1": "m2"}
        evs = [[["switch-kind", "m1", "foreign"], c01.event_actions(z0, z1), z1, {}],
               [["create-" + how, "c1", "m3"], [["clone", "c1", "m3", how]], z1, {"c1": "m3"}, ["m3", "c1"]],
               [["rebind-alias", "m1", "m2"], [["exec", "mod", "a_m1 = m2\n"]], z2, {"c1": "m3"}, ["c1"]],
               [["rebind-alias", "m1", "m2"], [], z2, {"c1": "m3"}, None]]
        out.append(dict(note="clone made while an alias is bound to a foreign function; the alias re-bound to a memento function", program=z0, events=evs))
    # a name that was undefined is defined with the value None (module variable and module attribute of the helper module)
    n0 = dict(defs={"m1": f("memento", [["U1", "bare"]]), "m2": f("memento", [["m1", "bare"]])}, order=["m1", "m2"], late=["U1"])
    n1 = copy.deepcopy(n0); n1["defs"]["U1"] = dict(kind="var", where="mod", value=None); n1["order"] = ["U1", "m1", "m2"]
    n2 = copy.deepcopy(n1); n2["defs"]["U1"]["value"] = 4
    out.append(dict(note="undefined name defined as None", program=n0,
                    events=[[["define-undefined-symbol", "U1"], [["setvar", "mod", "U1", "None"]], n1, {}],
                            [["edit", "var", "U1"], c01.event_actions(n1, n2), n2, {}]]))
    # a clone and the function itself, both alive, a helper edited: whichever is asked second must refresh its reference too
    for first in ("c1", "m1"):
        r0 = dict(defs={"h1": f("plain", []), "m1": f("memento", [["h1", "bare"]]), "m2": f("memento", [["m1", "bare"]])}, order=["h1", "m1", "m2"])
        r1 = copy.deepcopy(r0); r1["defs"]["h1"]["const"] = 5
        r2 = copy.deepcopy(r1); r2["defs"]["h1"]["const"] = 6
        second = "m1" if first == "c1" else "c1"
        out.append(dict(note="clone and original asked in turn after an edit", program=r0,
                        events=[[["create-partial", "c1", "m1"], [["clone", "c1", "m1", "partial"]], r0, {"c1": "m1"}],
                                [["edit", "const", "h1"], c01.event_actions(r0, r1), r1, {"c1": "m1"}, [first]],
                                [["edit", "const", "h1"], [], r1, {"c1": "m1"}, [second]],
                                [["edit", "const", "h1"], c01.event_actions(r1, r2), r2, {"c1": "m1"}, [second]],
                                [["edit", "const", "h1"], [], r2, {"c1": "m1"}, None]]))
    # a plain helper re-defined several times, each body naming other globals
    z0 = dict(defs={"V1": dict(kind="var", where="mod", value=1), "V2": dict(kind="var", where="mod", value=2), "V3": dict(kind="var", where="mod", value=3),
                    "h1": f("plain", [["V1", "bare"]]), "m1": f("memento", [["h1", "bare"]]), "m2": f("memento", [["m1", "bare"]])},
              order=["V1", "V2", "V3", "h1", "m1", "m2"])
    evs, prevp = [], z0
    for refs in ([["V2", "bare"]], [["V3", "bare"]], [["V1", "bare"], ["V3", "bare"]], [["V2", "bare"]], [["V1", "bare"]], [["V3", "bare"]],
                 [["V2", "bare"]], [["V1", "bare"]], [["V3", "bare"]], [["V2", "bare"], ["V1", "bare"]], [["V3", "bare"]], [["V1", "bare"]]):
        cur = copy.deepcopy(prevp)
        cur["defs"]["h1"]["refs"] = refs
        evs.append([["edit", "refs", "h1"], c01.event_actions(prevp, cur), cur, {}])
        cur2 = copy.deepcopy(cur)
        cur2["defs"][refs[-1][0]]["value"] = cur["defs"][refs[-1][0]]["value"] + 10
        evs.append([["edit", "var", refs[-1][0]], c01.event_actions(cur, cur2), cur2, {}])
        prevp = cur2
    out.append(dict(note="helper re-defined several times naming other globals", program=z0, events=evs))
    # a builtin name used by a function is shadowed by a function of the module
    s0 = dict(defs={"m1": f("memento", [["abs", "bare"]]), "m2": f("memento", [["m1", "bare"]])}, order=["m1", "m2"], late_builtin=["abs"])
    s1 = copy.deepcopy(s0); s1["defs"]["abs"] = f("plain", [], const=4); s1["order"] = ["abs", "m1", "m2"]
    s2 = copy.deepcopy(s1); s2["defs"]["abs"]["const"] = 5
    out.append(dict(note="builtin shadowed by a function of the module", program=s0,
                    events=[[["shadow-builtin", "abs"], c01.event_actions(s0, s1), s1, {}], [["edit", "const", "abs"], c01.event_actions(s1, s2), s2, {}]]))
    return out


RAW_UNDEF_MOD = """from twosigma.memento import memento_function
from . import aux, aux2


def helper(x):
    return [x, aux.late if hasattr(aux, "late") else None, aux2.late if hasattr(aux2, "late") else None]


@memento_function(cluster="vp")
def m1(x):
    return helper(x)
"""
RAW_UNDEF_CHILD = """import json, sys
sys.path.insert(0, sys.argv[1])
import importlib
events = json.loads(sys.argv[2])
pre = json.loads(sys.argv[3])
import vpk.aux as aux, vpk.aux2 as aux2
for where, name, val in pre:
    setattr({"aux": aux, "aux2": aux2}[where], name, val)
from vpk import mod
out = [mod.m1.version()]
for where, name, val in events:
    setattr({"aux": aux, "aux2": aux2}[where], name, val)
    out.append(mod.m1.version())
print(json.dumps(out))
"""


RAW_DECL_MOD = """from twosigma.memento import memento_function

RATE = 3


def helper(x):
    return x * RATE


@memento_function(auto_dependencies=False)
def m1(x):
    return helper(x)


@memento_function(auto_dependencies=False, dependencies=["helper"])
def m2(x):
    return helper(x) + 1


@memento_function(cluster="vp")
def later(x):
    return x
"""
RAW_DECL_CHILD = """import json, sys
sys.path.insert(0, sys.argv[1])
from vpk import mod
order = json.loads(sys.argv[2])
out = {}
make = {"m1": lambda: mod.m1, "m2": lambda: mod.m2, "m1.ignore_result": lambda: mod.m1.ignore_result(),
        "m1.partial": lambda: mod.m1.partial(), "m2.force_local": lambda: mod.m2.force_local()}
for name in (order or ["m1", "m2"]):
    out[name] = make[name]().version()          # a clone is made when it is first asked (nothing computed the original before)
print(json.dumps(out))
"""


def declared_dependency_scenarios(root):
    """functions whose dependencies are declared (`auto_dependencies=False`): their modifier clones have the version of the
    function, whichever of them is asked first. Returns a list of failures."""
    import subprocess
    sub = tempfile.mkdtemp(prefix="decl_", dir=root)
    d = os.path.join(sub, "vpk")
    os.makedirs(d)
    for fn, src in (("__init__.py", ""), ("mod.py", RAW_DECL_MOD)):
        open(os.path.join(d, fn), "w").write(src)
    env = dict(os.environ, PYTHONPATH=common.REPO)

    def run(order):
        p = subprocess.run([common.PY, "-B", "-c", RAW_DECL_CHILD, sub, json.dumps(order)], stdout=subprocess.PIPE,
                           stderr=subprocess.PIPE, text=True, env=env, timeout=120)
        if p.returncode != 0:
            return {"error": p.stderr.strip().split("\n")[-1][:200]}
        return json.loads(p.stdout.strip().split("\n")[-1])
    fresh = run([])
    if "error" in fresh:
        raise common.Infra("declared-dependency scenario does not import: %s" % fresh["error"])
    fails = []
    for order in (["m1.ignore_result", "m1", "m1.partial", "m2.force_local", "m2"], ["m1", "m2", "m1.partial", "m1.ignore_result", "m2.force_local"]):
        got = run(order)
        for name in order:
            base = name.split(".")[0]
            if got.get(name) != fresh.get(base):
                fails.append(dict(clause="version-equals-fresh-process", fn=name, object="clone" if "." in name else "function",
                                  event=["create-clone-of-declared-dependency-function"], events=order, in_process=got.get(name, got.get("error")),
                                  fresh=fresh.get(base)))
                break
    shutil.rmtree(sub, ignore_errors=True)
    return fails


RAW_STATE_MOD = """from twosigma.memento import memento_function

%s


@memento_function
def m1(x):
    return [x, RATE(x) if callable(RATE) else RATE]


@memento_function
def m2(x):
    return m1(x)
"""
RAW_STATES = ["RATE = 3", "RATE = 4", "def _rate(x):\n    return x * 2\n\n\nRATE = _rate", "def _rate(x):\n    return x * 5\n\n\nRATE = _rate",
              "RATE = lambda x: x + 1", "RATE = 3"]
RAW_STATE_CHILD = """import json, sys, linecache
sys.path.insert(0, sys.argv[1])
states = json.loads(sys.argv[2])
from vpk import mod
out = [[mod.m1.version(), mod.m2.version()]]
for i, text in enumerate(states):
    fname = "<state-%d>" % i
    linecache.cache[fname] = (len(text), None, text.splitlines(True), fname)
    exec(compile(text + "\\n", fname, "exec"), vars(mod))
    out.append([mod.m1.version(), mod.m2.version()])
print(json.dumps(out))
"""


RAW_DECLG_MOD = """from twosigma.memento import memento_function

%s


@memento_function(dependencies=[g])
def m1(x):
    return globals()["g"](x)


@memento_function(dependencies=[g])
def m2(x):
    return m1(x) + g(x)
"""
_G = "@memento_function\ndef g(x):\n    return x + %d"
RAW_DECLG_STATES = [_G % 1, _G % 2, _G % 1, _G % 3]


RAW_FOREIGN_MOD = """from twosigma.memento import memento_function
import json


def local_encode(o):
    return repr(o)


%s


@memento_function
def m1(x):
    return [dumps(x), encode(x), enc3(x)]


@memento_function
def m2(x):
    return m1(x) + [dumps(x)]
"""
_F0 = "dumps = json.dumps\nencode = json.dumps\nenc3 = json.dumps"
RAW_FOREIGN_STATES = [_F0, "encode = local_encode", "encode = json.dumps", "dumps = local_encode", "dumps = json.dumps", "enc3 = local_encode",
                      "enc3 = json.dumps", "dumps = json.loads", "encode = 5", "encode = json.dumps", "dumps = json.dumps"]


RAW_DOTTED_MOD = """from twosigma.memento import memento_function
import types


def scale(x):
    return x * 2


def triple(x):
    return x * 3


_orig = scale
helpers = types.ModuleType("helpers_of_the_program")
%s


@memento_function
def m1(x):
    return [scale(x), helpers.scale(x)]


@memento_function
def m2(x):
    return m1(x) + [helpers.scale(x)]
"""
_D = "scale = %s\nhelpers.scale = %s"
RAW_DOTTED_STATES = [_D % ("_orig", "_orig"), _D % ("_orig", "triple"), _D % ("_orig", "_orig"), _D % ("triple", "_orig"), _D % ("_orig", "_orig"),
                     _D % ("triple", "triple"), _D % ("_orig", "_orig")]


def rebinding_kinds_scenario(root, template=None, all_states=None, what="rebind-variable-to"):
    """a tracked module variable is re-bound to an int, to a plain function, that function is re-defined, the name is bound to a
    lambda and back to an int: after every step the in-process versions are those of a fresh process on the resulting module.
    (With another template: a memento function named in `dependencies=[...]` declarations is defined again with other code.)"""
    import subprocess
    env = dict(os.environ, PYTHONPATH=common.REPO)
    RAW_STATE_MOD = template or globals()["RAW_STATE_MOD"]
    RAW_STATES = all_states or globals()["RAW_STATES"]

    def run(first, states):
        sub = tempfile.mkdtemp(prefix="kinds_", dir=root)
        d = os.path.join(sub, "vpk")
        os.makedirs(d)
        open(os.path.join(d, "__init__.py"), "w").write("")
        open(os.path.join(d, "mod.py"), "w").write(RAW_STATE_MOD % first)
        try:
            p = subprocess.run([common.PY, "-B", "-c", RAW_STATE_CHILD, sub, json.dumps(states)], stdout=subprocess.PIPE,
                               stderr=subprocess.PIPE, text=True, env=env, timeout=120)
            if p.returncode != 0:
                return [["err:" + p.stderr.strip().split("\n")[-1][:200]] * 2] * (len(states) + 1)
            return json.loads(p.stdout.strip().split("\n")[-1])
        finally:
            shutil.rmtree(sub, ignore_errors=True)
    got = run(RAW_STATES[0], RAW_STATES[1:])
    fails = []
    for i, st in enumerate(RAW_STATES):
        fresh = run(st, [])[0]
        if got[i] != fresh:
            fails.append(dict(clause="version-equals-fresh-process", fn="m1/m2", object="function", event=[what, st.split("\n")[0] if template is None else st.split("\n")[-1].strip()],
                              events=RAW_STATES[:i + 1], in_process=got[i], fresh=fresh))
            break
    return fails


def undefined_attribute_scenarios(root):
    """two references to attributes of the same name that do not exist yet, on two modules (`aux.late`, `aux2.late`): defining
    either of them is "defining a previously undefined symbol". Returns a list of failures."""
    import subprocess
    sub = tempfile.mkdtemp(prefix="undef_", dir=root)
    d = os.path.join(sub, "vpk")
    os.makedirs(d)
    for fn, src in (("__init__.py", ""), ("aux.py", ""), ("aux2.py", ""), ("mod.py", RAW_UNDEF_MOD)):
        open(os.path.join(d, fn), "w").write(src)
    env = dict(os.environ, PYTHONPATH=common.REPO)

    def run(events, pre):
        p = subprocess.run([common.PY, "-B", "-c", RAW_UNDEF_CHILD, sub, json.dumps(events), json.dumps(pre)], stdout=subprocess.PIPE,
                           stderr=subprocess.PIPE, text=True, env=env, timeout=120)
        if p.returncode != 0:
            return ["err:" + p.stderr.strip().split("\n")[-1][:200]]
        return json.loads(p.stdout.strip().split("\n")[-1])
    fails = []
    for events in ([["aux", "late", 5]], [["aux2", "late", 5]], [["aux2", "late", 5], ["aux", "late", 6]], [["aux", "late", 5], ["aux2", "late", 6]]):
        got = run(events, [])
        for i in range(len(events) + 1):
            fresh = run([], events[:i])[0]
            if i >= len(got) or got[i] != fresh:
                fails.append(dict(clause="version-equals-fresh", fn="m1", event=["define-undefined-attribute"] + events[i - 1] if i else ["initial"],
                                  events=events[:i], in_process=got[i] if i < len(got) else got[-1], fresh=fresh))
                break
    shutil.rmtree(sub, ignore_errors=True)
    return fails


def rerender_events(prog, events):
    """stored histories (corpus, replays) carry the source text their edit events executed when they were recorded; the text
    is rendered again from the abstract programs so that it always matches what `vprogs` renders for a fresh process"""
    out, prev = [], prog
    for ev in events:
        ev = list(ev)
        if ev[0] and ev[0][0] in ("edit", "switch-kind", "shadow-builtin") and ev[1]:
            ev[1] = c01.event_actions(prev, ev[2])
        out.append(tuple(ev))
        prev = ev[2]
    return out


def fresh_versions(prog, root, cache):
    key = hashlib.sha1(json.dumps(vprogs.render_modules(prog, "vpk"), sort_keys=True).encode()).hexdigest()
    if key not in cache:
        sub = tempfile.mkdtemp(prefix="fresh_", dir=root)
        vprogs.write_package(prog, sub, "vpk")
        out = vrun.child(dict(root=sub, pkg="vpk", store=None, actions=[["import"], ["versions"]]))
        cache[key] = out[1] if out[0] == "ok" else {"__error__": out[0]}
        shutil.rmtree(sub, ignore_errors=True)
    return cache[key]


def scenario(prog, events, root, with_model=False):
    """run all events in one interpreter, querying after each; compare with fresh processes"""
    sub = tempfile.mkdtemp(prefix="ip_", dir=root)
    vprogs.write_package(prog, sub, "vpk")
    # (a program may ask nobody at the start: its functions then only have the version computed when they were registered)
    acts = [["import"], ["versions", []] if prog.get("skip_initial_query") else ["versions"]]
    marks = [(None, 1, prog, {})]
    for ev in events:
        desc, a, after, clones = ev[:4]
        qn = ev[4] if len(ev) > 4 else None          # which objects are asked for their version at this position (None: all)
        acts += a
        acts.append(["versions"] if qn is None else ["versions", list(qn)])
        marks.append((desc, len(acts) - 1, after, clones))
    out = vrun.child(dict(root=sub, pkg="vpk", store=None, actions=acts))
    cache = {}
    fails = []
    if out[0] != "ok":
        r = [dict(clause="program-imports", error=out[0])]
        return (r, ([], 0)) if with_model else r
    for ei, (desc, idx, after, clones) in enumerate(marks):
        got = out[idx]
        if not isinstance(got, dict) or "error" in got:
            fails.append(dict(clause="version-query-succeeds", event=desc, error=got))
            break
        locked = bool(after.get("locked"))
        exp = fresh_versions({k: v for k, v in after.items() if k != "locked"}, root, cache) if not locked else {}
        if desc and desc[0] == "refused-definition":
            r_ = out[idx - 1]
            if not (isinstance(r_, dict) and r_.get("error") == "ValueError"):
                # not part of C13's statement; without the refusal the program is no longer the one the oracle renders
                fails.append(dict(clause="scenario-assumption:locked-cluster-refuses-registration", event=desc, event_index=ei, got=r_))
                break
        for name, d in after["defs"].items():
            if d["kind"] != "memento":
                continue
            if name not in got:
                continue                              # not asked at this position
            g, e = got.get(name), exp.get(name)
            if isinstance(g, str) and g.startswith("err:"):
                fails.append(dict(clause="version-query-succeeds", event=desc, event_index=ei, fn=name, got=g))
            elif locked:
                pass                                  # excluded by the property; the model still says what is answered
            elif g != e:
                fails.append(dict(clause="version-equals-fresh-process", event=desc, event_index=ei, fn=name, in_process=g, fresh=e))
        for cname, base in clones.items():
            if after["defs"].get(base, {}).get("kind") != "memento":
                continue
            g, e = got.get(cname), exp.get(base)
            if g is None:
                continue
            if isinstance(g, str) and g.startswith("err:"):
                fails.append(dict(clause="version-query-succeeds", event=desc, event_index=ei, fn=cname, base=base, got=g))
            elif locked:
                pass
            elif g != e:
                fails.append(dict(clause="version-equals-fresh-process", event=desc, event_index=ei, fn=cname, base=base, in_process=g, fresh=e,
                                  object="clone"))
        if fails:
            break
    shutil.rmtree(sub, ignore_errors=True)
    if with_model:
        return fails, model_replay(prog, marks, events, out)
    return fails


class CacheModel:
    """drives `mmodel vcache` with the events of a scenario (names and tokens interned as in vmodel)"""

    def __init__(self):
        self.m = common.Model("vcache")
        self.ids, self.toks, self.inst = {}, {}, {}

    def close(self):
        self.m.close()

    def nid(self, key):
        key = json.dumps(key)
        if key not in self.ids:
            self.ids[key] = len(self.ids) + 1
        return self.ids[key]

    def tok(self, key):
        key = json.dumps(key, sort_keys=True)
        if key not in self.toks:
            self.toks[key] = len(self.toks) + 1
        return self.toks[key]

    def send(self, line):
        out = self.m.send(line)
        if out == "bad-op":
            raise common.Infra("vcache model rejected %r" % line)
        return out

    def define(self, name, prog):
        d = prog["defs"][name]
        n = self.nid(name)
        if d["kind"] == "var":
            if not vprogs.unsupported(d["value"]):
                self.send("sv %d %d" % (n, self.tok(["val", d["value"]])))
            return
        refs = []
        for t, form in d["refs"]:
            td = prog["defs"].get(t)
            if form == "hidden":
                continue
            if form == "alias" and td is not None and td["where"] == d["where"]:
                refs.append(self.nid(["alias", d["where"], t]))
            else:
                refs.append(self.nid(t))
        tok = self.tok(["code", vprogs.render_def(name, d, prog, "P")])
        rs = " ".join(str(r) for r in refs)
        if d["kind"] == "memento":
            e = common.hexs(d["explicit"]) if d.get("explicit") else "auto"
            r_ = self.send(("dm %d %s %d %s" % (n, e, tok, rs)).strip())
            if r_ != "refused":                       # (locked cluster: nothing is bound, no instance appears)
                self.inst[name] = int(r_)
        elif d.get("foreign"):
            self.inst.pop(name, None)
            self.send("df %d %d" % (n, tok))          # a function of another package: no rule, the symbol is watched (F27)
        else:
            self.inst.pop(name, None)
            self.send(("dp %d %d %s" % (n, tok, rs)).strip())

    def aliases(self, prog, where=None):
        amap = prog.get("alias_map", {})
        for name, d in prog["defs"].items():
            if d["kind"] == "var":
                continue
            for t, form in d["refs"]:
                if form == "alias" and t in prog["defs"] and prog["defs"][t]["where"] == d["where"] and where in (None, d["where"]):
                    self.send("alias %d %d" % (self.nid(["alias", d["where"], t]), self.nid(amap.get(t, t))))

    def load_initial(self, prog):
        self.send("reset")
        for where in ("aux", "mod"):                 # import order of the rendered package
            for name in prog["order"]:
                if prog["defs"][name]["where"] == where:
                    self.define(name, prog)
            self.aliases(prog, where)

    def apply(self, acts, after):
        for a in acts:
            if a[0] in ("setvar", "mutate"):
                self.define(a[2], after)
            elif a[0] == "versions":
                for obj in a[1]:
                    if obj in self.inst:
                        self.query(obj)
            elif a[0] == "lock":
                if len(a) < 3:                        # (locking another cluster is no event of this one)
                    self.send("lock %d" % a[1])
            elif a[0] == "exec" and len(a) > 3 and a[3].get("refused"):
                tmp = copy.deepcopy(after)
                tmp["defs"][a[3]["refused"]] = a[3]["def"]
                self.define(a[3]["refused"], tmp)
            elif a[0] == "exec":
                m = re.match(r"a_(\w+) = (\w+)\n$", a[2])
                if m:
                    self.send("alias %d %d" % (self.nid(["alias", a[1], m.group(1)]), self.nid(m.group(2))))
                    continue
                m = re.search(r"^def (\w+)\(", a[2], re.M) or re.match(r"(\w+) = lambda", a[2]) or re.match(r"(\w+) = vrec\.foreign", a[2])
                self.define(m.group(1), after)
            elif a[0] == "clone":
                self.inst[a[1]] = int(self.send("clone %d" % self.inst[a[2]]))
            elif a[0] == "wrapper":
                self.inst[a[1]] = int(self.send("wrapper %d" % self.nid(a[2])))

    def query(self, obj):
        return self.send("query %d" % self.inst[obj])


def model_replay(prog, marks, events, out):
    """the same events through the Lean model of the version cache: the equality pattern of the versions the real
    objects report (over the whole scenario, per function) must be the model's"""
    cm = CacheModel()
    pairs = []
    try:
        cm.load_initial(prog)
        for ei, (desc, idx, after, clones) in enumerate(marks):
            if ei > 0:
                cm.apply(events[ei - 1][1], after)
            got = out[idx]
            if not isinstance(got, dict) or "error" in got:
                break
            for obj in got:
                base = obj if obj in after["defs"] else clones.get(obj)
                if base is None or after["defs"].get(base, {}).get("kind") != "memento" or obj not in cm.inst:
                    continue
                if isinstance(got[obj], str) and got[obj].startswith("err:"):
                    continue
                mv = cm.query(obj)
                if mv == "none":
                    continue
                pairs.append(("ev%d:%s" % (ei, obj), base + "#" + got[obj], base + "#" + mv))
        return vmodel.partition_mismatches(pairs), len(pairs)
    finally:
        cm.close()


def main(chk, replay=None):
    if replay is not None and replay.get("raw_kinds"):
        root = tempfile.mkdtemp(prefix="c13r_")
        try:
            fails = (rebinding_kinds_scenario(root, RAW_DECLG_MOD, RAW_DECLG_STATES, "redefine-declared-dependency")
                     if replay.get("raw_kinds") == "declared" else
                     rebinding_kinds_scenario(root, RAW_FOREIGN_MOD, RAW_FOREIGN_STATES, "rebind-name-of-foreign-function")
                     if replay.get("raw_kinds") == "foreign" else
                     rebinding_kinds_scenario(root, RAW_DOTTED_MOD, RAW_DOTTED_STATES, "rebind-one-of-two-spellings")
                     if replay.get("raw_kinds") == "dotted" else rebinding_kinds_scenario(root))
            print(json.dumps(dict(still_fails=bool(fails), observed=fails[:2]), default=str))
            return 1 if fails else 0
        finally:
            shutil.rmtree(root, ignore_errors=True)
    if replay is not None and replay.get("raw_declared"):
        root = tempfile.mkdtemp(prefix="c13r_")
        try:
            fails = declared_dependency_scenarios(root)
            print(json.dumps(dict(still_fails=bool(fails), observed=fails[:2]), default=str))
            return 1 if fails else 0
        finally:
            shutil.rmtree(root, ignore_errors=True)
    if replay is not None and replay.get("raw_undefined"):
        root = tempfile.mkdtemp(prefix="c13r_")
        try:
            fails = undefined_attribute_scenarios(root)
            print(json.dumps(dict(still_fails=bool(fails), observed=fails[:2]), default=str))
            return 1 if fails else 0
        finally:
            shutil.rmtree(root, ignore_errors=True)
    if replay is not None:
        root = tempfile.mkdtemp(prefix="c13r_")
        try:
            evs = rerender_events(replay["program"], [tuple(e) for e in replay["events"]])
            fails = scenario(replay["program"], evs, root)
            print(json.dumps(dict(still_fails=bool(fails), observed=fails[:2]), default=str))
            return 1 if fails else 0
        finally:
            shutil.rmtree(root, ignore_errors=True)
    chk.rule = ("generated programs x event sequences (quick <= 10, thorough <= 25 events) of: single-feature edits delivered by "
                "re-executing definitions, in-place mutation of list/dict variables, defining an undefined symbol, switching a "
                "function between memento and plain, rebinding aliases, creating partial/ignore_result/with_context_args/"
                "force_local clones and unregistered wrappers; all live objects queried after every event and compared with a "
                "fresh process on the rendered resulting program. Distinct = distinct (program, events); non-trivial = >= 2 events.")
    proof_ok = chk.build_and_audit()
    quick = chk.tier == "quick"
    rng = chk.rng
    nprog = 16 if quick else 300
    maxev = 10 if quick else 25
    reported = 0

    def work(seed):
        import random
        r = random.Random(seed)
        prog = vprogs.gen_prog(r, nm=r.randint(2, 4), hidden_rate=0.0)
        # add a reference to a symbol that is not defined yet
        fnames = [x for x, d in prog["defs"].items() if d["kind"] != "var"]
        if r.random() < 0.6:
            user = r.choice([x for x in fnames if prog["defs"][x]["where"] == "mod"] or fnames)
            prog["defs"][user]["refs"].append(["U1", "bare"])
            prog["late"] = ["U1"]
        if r.random() < 0.5:
            # a builtin name that the module may later shadow with a function of its own
            users = [x for x in fnames if prog["defs"][x]["where"] == "mod" and not prog["defs"][x].get("aslambda")]
            if users:
                prog["defs"][r.choice(users)]["refs"].append(["abs", "bare"])
                prog["late_builtin"] = ["abs"]
        evs = gen_events(r, prog, r.randint(2, maxev), lock_rate=(0.15 if r.random() < 0.5 else 0.0))
        root = tempfile.mkdtemp(prefix="c13_", dir=chk.tmpdir())
        try:
            fails, (mism, npairs) = scenario(prog, evs, root, with_model=True)
        finally:
            shutil.rmtree(root, ignore_errors=True)
        return prog, evs, fails, mism, npairs

    def work_corpus(item):
        root = tempfile.mkdtemp(prefix="c13c_", dir=chk.tmpdir())
        evs = rerender_events(item["program"], [tuple(e) for e in item["events"]])
        try:
            if item.get("known"):
                # the code is known to deviate from the model here: the property's oracle only
                fails, (mism, npairs) = scenario(item["program"], evs, root), ([], 0)
                for f_ in fails:
                    f_["known_scenario"] = item["known"]
            else:
                fails, (mism, npairs) = scenario(item["program"], evs, root, with_model=True)
        finally:
            shutil.rmtree(root, ignore_errors=True)
        return item["program"], evs, fails, mism, npairs

    ufails = undefined_attribute_scenarios(chk.tmpdir())
    chk.case(["undefined-attributes-of-equal-name"], nontrivial=True, sample=dict(fails=ufails[:1]))
    chk.count("event:define-undefined-attribute", 6)
    if ufails:
        f = ufails[0]
        chk.violation({"what": "after defining %s the in-process version of m1 is %s but a fresh process computes %s" % (
            f["events"], f["in_process"], f["fresh"]), "class": {"clause": f["clause"], "event": "define-undefined-attribute", "object": "function"},
            "raw_undefined": True, "source": RAW_UNDEF_MOD, "observed": ufails[:2]})
    kfails = rebinding_kinds_scenario(chk.tmpdir())
    chk.case(["variable-rebound-to-values-and-functions"], nontrivial=True, sample=dict(fails=kfails[:1]))
    chk.count("event:rebind-variable-to-function", 5)
    if kfails:
        f = kfails[0]
        chk.violation({"what": "after re-binding RATE (%s) the in-process versions are %s but a fresh process computes %s" % (
            f["event"][1], f["in_process"], f["fresh"]), "class": {"clause": f["clause"], "event": "rebind-variable-to-function", "object": "function"},
            "raw_kinds": True, "observed": kfails[:2]})
    gfails = rebinding_kinds_scenario(chk.tmpdir(), RAW_DECLG_MOD, RAW_DECLG_STATES, "redefine-declared-dependency")
    chk.case(["declared-dependency-defined-again"], nontrivial=True, sample=dict(fails=gfails[:1]))
    chk.count("event:redefine-declared-dependency", 3)
    if gfails:
        f = gfails[0]
        chk.violation({"what": "after defining the declared dependency g again (%s) the in-process versions are %s but a fresh process computes %s" % (
            f["event"][1], f["in_process"], f["fresh"]), "class": {"clause": f["clause"], "event": "redefine-declared-dependency", "object": "function"},
            "raw_kinds": "declared", "observed": gfails[:2]})
    ffails = rebinding_kinds_scenario(chk.tmpdir(), RAW_FOREIGN_MOD, RAW_FOREIGN_STATES, "rebind-name-of-foreign-function")
    chk.case(["three-names-of-one-foreign-function-rebound-in-turn"], nontrivial=True, sample=dict(fails=ffails[:1]))
    chk.count("event:rebind-name-of-foreign-function", len(RAW_FOREIGN_STATES) - 1)
    if ffails:
        f = ffails[0]
        chk.violation({"what": "three names of one module are bound to json.dumps; after `%s` the in-process versions are %s but a fresh process "
                               "computes %s" % (f["event"][1], f["in_process"], f["fresh"]),
                       "class": {"clause": f["clause"], "event": "rebind-name-of-foreign-function", "object": "function"},
                       "raw_kinds": "foreign", "source": RAW_FOREIGN_MOD, "observed": ffails[:2]})
    qfails = rebinding_kinds_scenario(chk.tmpdir(), RAW_DOTTED_MOD, RAW_DOTTED_STATES, "rebind-one-of-two-spellings")
    chk.case(["one-function-reached-as-name-and-as-module-attribute"], nontrivial=True, sample=dict(fails=qfails[:1]))
    chk.count("event:rebind-one-of-two-spellings", len(RAW_DOTTED_STATES) - 1)
    if qfails:
        f = qfails[0]
        chk.violation({"what": "a plain function is reached as `scale` and as `helpers.scale`; after `%s` the in-process versions are %s but a fresh "
                               "process computes %s" % (f["events"][-1].replace("\n", "; "), f["in_process"], f["fresh"]),
                       "class": {"clause": f["clause"], "event": "rebind-one-of-two-spellings", "object": "function"},
                       "raw_kinds": "dotted", "source": RAW_DOTTED_MOD, "observed": qfails[:2]})
    dfails = declared_dependency_scenarios(chk.tmpdir())
    chk.case(["clones-of-functions-with-declared-dependencies"], nontrivial=True, sample=dict(fails=dfails[:1]))
    chk.count("event:create-clone-of-declared-dependency-function", 6)
    if dfails:
        f = dfails[0]
        chk.violation({"what": "asked in the order %s, %s reports version %s but a fresh process computes %s for the function" % (
            f["events"], f["fn"], f["in_process"], f["fresh"]), "class": {"clause": f["clause"], "event": "create-clone", "object": f["object"],
                                                                             "declared_dependencies": True},
            "raw_declared": True, "source": RAW_DECL_MOD, "observed": dfails[:2]})
    corpus = json.load(open(os.path.join(os.path.dirname(os.path.abspath(__file__)), "corpus_c13.json")))
    corpus += directed_scenarios() + k5_scenarios()
    seeds = [rng.randrange(1 << 30) for _ in range(nprog)]
    with concurrent.futures.ThreadPoolExecutor(max_workers=8) as ex:
        for prog, evs, fails, mism, npairs in list(ex.map(work_corpus, corpus)) + list(ex.map(work, seeds)):
            chk.count("model-compared-versions", npairs)
            for mm in mism[:2]:
                chk.correspondence_break("vcache-model:partition:" + mm["kind"],
                                         dict(mismatch=mm, program=prog, events=[list(e[:2]) for e in evs]))
            chk.case([prog, [e[0] for e in evs]], nontrivial=len(evs) >= 2, sample=dict(events=[e[0] for e in evs][:6], defs=list(prog["defs"])))
            for e in evs:
                chk.count("event:" + e[0][0])
            if fails and reported < 5:
                f = fails[0]
                ev = f.get("event") or ["initial"]
                cls = {"clause": f["clause"], "event": ev[0], "object": f.get("object", "function")}
                if f.get("known_scenario"):
                    cls.update(scenario=f["known_scenario"], fn=f.get("fn"), event_index=f.get("event_index"))
                upto = f.get("event_index", len(evs))
                p = chk.violation({"what": "after event %s the in-process version of %s is %s but a fresh process computes %s" % (
                    ev, f.get("fn"), f.get("in_process", f.get("got")), f.get("fresh")), "class": cls, "program": prog,
                    "events": [list(e) for e in evs[:upto]], "observed": fails[:2]})
                if p:
                    reported += 1


if __name__ == "__main__":
    sys.exit(run_check(PROP, main, sys.argv[1:]))
