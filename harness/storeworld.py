"""Storage-level world shared by C05 / C07 / C19: real backends driven by abstract op lists.

Abstract ops (JSON lists), the same language as `Memento.Store.Op` in Lean:
  ["memoize", fn, arg, ov|None, B|None]   B = value tag (None = the null result)
  ["getm", [[fn,arg],...]] ["lookread", fn, arg] ["ismem", fn, arg]
  ["fcall", fn, arg] ["ffn", fn] ["fall"] ["lsf"] ["lsm", fn]
  ["wmeta", fn, arg, k, B] ["rmeta", fn, arg, k] ["hold", B] ["drop", B]
Values are determined by their tag: VALUES[B] = (class, nbytes); equal tags = equal serialised bytes.
"""
import gc
import hashlib
import os
import pickle
import shutil
import tempfile

from common import Model, Infra

# function alphabet: id -> (attribute in mfns, version override)
FNS = {
    1: ("fa", None),      # mfns:fa#1        (registered version)
    2: ("fa", "10"),      # mfns:fa#10       (string-prefix sibling, decodes as external)
    3: ("fa", "1x"),      # mfns:fa#1x
    4: ("fb", None),      # mfns:fb#1
    5: ("ga", None),      # vc::mfns:ga#1    (named cluster)
    6: ("fa", "v:1"),     # version containing ':'
}
ARGS = [1, 2, 3]
OVERRIDES = {1: "ov/k1", 2: "ov/k2", 3: "ovk3", 4: "ov/run#7"}          # (4: '#' is the separator of stored versioned keys)
MKEYS = {1: "log", 2: "log.extra", 3: "logs"}       # (keys that are string prefixes of one another)


PART0 = 1000          # tags >= PART0 are partitions (outside the Lean op language: such histories run against the dictionary only)
# PART0+0..7: InMemoryPartition; PART0+8..15: the same eight partitions staged as OnDiskPartition; PART0+16..19: an
# InMemoryPartition whose last value ("zz") cannot be serialised (op "memoize_bad": the write fails half way)
NPART = 8
BAD0 = PART0 + 2 * NPART


def canon_tag(B):
    """the value a reader sees: a staged partition reads back like the in-memory one with the same items"""
    return PART0 + (B - PART0) % NPART if B is not None and PART0 <= B < BAD0 else B


def part_items(B):
    j = (B - PART0) % NPART
    return {"k1": j % 3 + 1, "k2": j % 2 + 10, "id": j}


def value_class(B):
    """tag -> (class, payload bytes); deterministic"""
    if B >= PART0:
        return "part", 0
    classes = ["int", "bytes", "bytes", "str", "arr", "bytes", "list", "arr"]
    cls = classes[B % len(classes)]
    n = [0, 20, 150, 400, 900, 3000][(B // len(classes)) % 6]
    return cls, n


def make_value(B):
    import numpy as np
    cls, n = value_class(B)
    if cls == "part":
        from twosigma.memento.partition import InMemoryPartition
        it = part_items(B)
        items = {"k1": make_value(it["k1"]), "k2": make_value(it["k2"]), "id": it["id"]}
        if B >= BAD0:
            items["zz"] = lambda: None          # not serialisable; sorts after the other keys
            return InMemoryPartition(items)
        if B >= PART0 + NPART:
            from twosigma.memento.storage_filesystem import OnDiskPartition
            p = OnDiskPartition()
            for k, v in items.items():
                p[k] = v
            return p
        return InMemoryPartition(items)
    if cls == "int":
        return 1000 + B
    if cls == "bytes":
        return B.to_bytes(4, "little") + bytes(n)
    if cls == "str":
        return "s%06d" % B + "x" * n
    if cls == "list":
        return [B, "e" * n]
    if cls == "arr":
        a = np.zeros(2 + n // 8, dtype=np.int64)
        a[0] = B
        return a
    raise ValueError(cls)


def tag_of(obj):
    import numpy as np
    if obj is None:
        return None
    if isinstance(obj, bool):
        return -1
    from twosigma.memento.partition import Partition
    if isinstance(obj, Partition):
        try:
            j = obj.get("id")
            it = part_items(PART0 + j)
            if sorted(obj.list_keys()) == ["id", "k1", "k2"] and tag_of(obj.get("k1")) == it["k1"] and tag_of(obj.get("k2")) == it["k2"]:
                return PART0 + j
            return -2
        except Exception as e:
            return "err:" + type(e).__name__
    if isinstance(obj, int):
        return obj - 1000
    if isinstance(obj, bytes):
        return int.from_bytes(obj[:4], "little")
    if isinstance(obj, str):
        return int(obj[1:7])
    if isinstance(obj, list):
        return obj[0]
    if isinstance(obj, np.ndarray):
        return int(obj[0])
    return -1


def weakrefable(B):
    return value_class(B)[0] == "arr"


def show_val(v):
    return "v:null" if v is None else "v:%d" % v


class DictOracle:
    """The property's own words: one plain dictionary keyed by (function, argument hash)."""

    def __init__(self, read_only=False):
        self.entries = {}
        self.meta = {}
        self.ro = read_only

    def admissible(self, op):
        if op[0] == "wmeta":
            return (op[1], op[2]) in self.entries
        return True

    def step(self, op):
        k = op[0]
        e, md = self.entries, self.meta
        if k == "memoize":
            if not self.ro:
                e[(op[1], op[2])] = (op[5], canon_tag(op[4]))
            return "ok"
        if k == "memoize_bad":          # the write fails; the caller then forgets the call
            if self.ro:
                return "err:ValueError"
            e.pop((op[1], op[2]), None)
            for mk in [m for m in md if m[0] == op[1] and m[1] == op[2]]:
                del md[mk]
            return "err:unstorable"
        if k == "getm":
            return " ".join(str(e[tuple(x)][0]) if tuple(x) in e else "-" for x in op[1])
        if k == "lookread":
            x = e.get((op[1], op[2]))
            return "none" if x is None else show_val(x[1])
        if k == "ismem":
            return "1" if (op[1], op[2]) in e else "0"
        if k in ("fcall", "ffn", "fall", "wmeta") and self.ro:
            return "err:ValueError"
        if k == "fcall":
            e.pop((op[1], op[2]), None)
            for mk in [m for m in md if m[0] == op[1] and m[1] == op[2]]:
                del md[mk]
            return "ok"
        if k == "ffn":
            for kk in [x for x in e if x[0] == op[1]]:
                del e[kk]
            for mk in [m for m in md if m[0] == op[1]]:
                del md[mk]
            return "ok"
        if k == "fall":
            e.clear()
            md.clear()
            return "ok"
        if k == "lsf":
            return "[" + ",".join(str(f) for f in sorted({x[0] for x in e})) + "]"
        if k == "lsm":
            return "{" + ",".join(str(m) for m in sorted(v[0] for x, v in e.items() if x[0] == op[1])) + "}"
        if k == "lsml":
            live = [v[0] for x, v in e.items() if x[0] == op[1]]
            return "n=%d subset=1" % min(op[2], len(live))
        if k == "wmeta":
            md[(op[1], op[2], op[3])] = op[4]
            return "ok"
        if k == "rmeta":
            b = md.get((op[1], op[2], op[3]))
            return "none" if b is None else "b:%d" % b
        if k in ("hold", "drop", "rseed"):
            return "ok"
        raise ValueError(op)


class World:
    """one real backend + its scratch directories"""

    def __init__(self, cfg, root=None, read_only=False, reuse_dirs=None):
        import mfns
        from twosigma.memento.storage_filesystem import FilesystemStorageBackend
        from twosigma.memento.storage_memory import MemoryStorageBackend
        from twosigma.memento.reference import FunctionReferenceWithArgHash
        self.mfns = mfns
        self.FRH = FunctionReferenceWithArgHash
        self.cfg = cfg
        self.kind = cfg["kind"]
        self.own_root = reuse_dirs is None
        if self.kind == "mem":
            self.be = MemoryStorageBackend(read_only=read_only or None)
            self.data_dir = self.meta_dir = None
        else:
            if reuse_dirs:
                self.root, self.data_dir, self.meta_dir = reuse_dirs
            else:
                self.root = tempfile.mkdtemp(prefix="mstore_", dir=root)
                self.data_dir = os.path.join(self.root, "data")
                self.meta_dir = os.path.join(self.root, "meta") if cfg.get("separate") else self.data_dir
            self.be = self._open(FilesystemStorageBackend, read_only)
        self.refs = {f: mfns.fn_ref(getattr(mfns, n), v) for f, (n, v) in FNS.items()}
        self.qn_to_fn = {r.qualified_name: f for f, r in self.refs.items()}
        self.fwa = {(f, a): mfns.with_args(self.refs[f], a) for f in FNS for a in ARGS}
        self.held = {}
        self.nmid = cfg.get("mid_base", 0)
        self.created = []     # (memento object, B) of every memento stored, for C07

    def _open(self, cls, read_only):
        kw = dict(path=self.data_dir)
        if self.cfg.get("separate"):
            kw["metadata_path"] = self.meta_dir
        if self.cfg.get("budget") is not None:
            kw["memory_cache_mb"] = self.cfg["budget"] / 2 ** 20
        if read_only:
            kw["read_only"] = True
        return cls(**kw)

    def close(self):
        self.held.clear()
        self.created = []
        if self.kind != "mem" and self.own_root:
            shutil.rmtree(self.root, ignore_errors=True)

    # -- helpers -------------------------------------------------------------------------------
    def frh(self, fn, arg):
        return self.FRH(self.refs[fn], self.fwa[(fn, arg)].arg_hash)

    @staticmethod
    def mid_of(m):
        return int(m.correlation_id[3:]) if m is not None and str(m.correlation_id).startswith("cid") else -1

    def size_of(self, obj):
        from twosigma.memento.storage_base import MemoryCache
        return int(MemoryCache._estimate_object_size(obj))

    def model_lines(self, op):
        """driver lines for this op (value info declarations first)"""
        k = op[0]
        lines = []
        if k == "memoize":
            _, fn, arg, ov, B, mid = op
            if B is not None:
                obj = make_value(B)
                rt = pickle.loads(pickle.dumps(obj, protocol=5))
                lines.append("val %d %d %d" % (B, self.size_of(rt), int(weakrefable(B))))
                size = self.size_of(obj)
            else:
                size = 16
            lines.append("memoize %d %d %s %d %s %d %d" % (fn, arg, "-" if ov is None else ov, mid,
                                                            "-" if B is None else B, size,
                                                            int(B is not None and weakrefable(B))))
        elif k == "getm":
            lines.append("getm " + " ".join("%d:%d" % tuple(x) for x in op[1]))
        elif k in ("lookread", "ismem", "fcall"):
            lines.append("%s %d %d" % (k, op[1], op[2]))
        elif k in ("ffn", "lsm", "hold", "drop"):
            lines.append("%s %d" % (k, op[1]))
        elif k in ("fall", "lsf"):
            lines.append(k)
        elif k in ("lsml", "rseed", "memoize_bad"):
            pass            # listings with a limit are outside the model's op language (they never touch the cache)
        elif k == "wmeta":
            lines.append("wmeta %d %d %d %d" % tuple(op[1:5]))
        elif k == "rmeta":
            lines.append("rmeta %d %d %d" % tuple(op[1:4]))
        else:
            raise ValueError(op)
        return lines

    def apply(self, op):
        """perform op on the real backend, canonical output string"""
        from twosigma.memento.metadata import ResultType
        be = self.be
        k = op[0]
        try:
            if k == "memoize":
                _, fn, arg, ov, B, mid = op
                obj = None if B is None else (self.held.get(B) if B in self.held else make_value(B))
                m = self.mfns.make_memento(self.fwa[(fn, arg)], result_type=ResultType.from_object(obj), seq=mid)
                be.memoize(OVERRIDES[ov] if ov is not None else None, m, obj)
                if not getattr(be, "read_only", False):
                    self.created.append((m, B))
                del obj
                return "ok"
            if k == "memoize_bad":
                _, fn, arg, ov, B = op[:5]
                obj = make_value(B)
                m = self.mfns.make_memento(self.fwa[(fn, arg)], result_type=ResultType.from_object(obj), seq=0)
                try:
                    be.memoize(OVERRIDES[ov] if ov is not None else None, m, obj)
                    be.forget_call(self.frh(fn, arg))      # (a backend that keeps objects as they are accepts the value)
                    return "err:unstorable"
                except Exception:
                    if getattr(be, "read_only", False):
                        raise
                    be.forget_call(self.frh(fn, arg))
                    return "err:unstorable"
            if k == "getm":
                res = be.get_mementos([self.frh(*x) for x in op[1]])
                return " ".join("-" if r is None else str(self.mid_of(r)) for r in res)
            if k == "lookread":
                m = be.get_mementos([self.frh(op[1], op[2])])[0]
                if m is None:
                    return "none"
                v = be.read_result(m)
                out = show_val(tag_of(v))
                del v
                return out
            if k == "ismem":
                return "1" if be.is_memoized(self.refs[op[1]], self.fwa[(op[1], op[2])].arg_hash) else "0"
            if k == "fcall":
                be.forget_call(self.frh(op[1], op[2]))
                return "ok"
            if k == "ffn":
                be.forget_function(self.refs[op[1]])
                return "ok"
            if k == "fall":
                be.forget_everything()
                return "ok"
            if k == "lsf":
                fs = sorted(self.qn_to_fn.get(r.qualified_name, -1) for r in be.list_functions())
                return "[" + ",".join(map(str, fs)) + "]"
            if k == "lsm":
                ms = sorted(self.mid_of(m) for m in be.list_mementos(self.refs[op[1]]))
                return "{" + ",".join(map(str, ms)) + "}"
            if k == "lsml":
                got = [self.mid_of(m) for m in be.list_mementos(self.refs[op[1]], limit=op[2])]
                live = {self.mid_of(m) for m in be.list_mementos(self.refs[op[1]])}
                return "n=%d subset=%d" % (len(got), int(set(got) <= live and len(set(got)) == len(got)))
            if k == "wmeta":
                be.write_metadata(self.frh(op[1], op[2]), MKEYS[op[3]], b"" if op[4] == 0 else b"meta%d" % op[4])    # (value 0 = the empty byte string)
                return "ok"
            if k == "rmeta":
                b = be.read_metadata(self.frh(op[1], op[2]), MKEYS[op[3]])
                return "none" if b is None else ("b:0" if bytes(b) == b"" else "b:%d" % int(bytes(b)[4:]))
            if k == "rseed":
                import random as _random
                _random.seed(op[1])
                return "ok"
            if k == "hold":
                if weakrefable(op[1]):
                    self.held.setdefault(op[1], make_value(op[1]))
                return "ok"
            if k == "drop":
                self.held.pop(op[1], None)
                gc.collect()
                return "ok"
        except ValueError as e:
            return "err:ValueError"
        except OSError as e:
            return "err:IOError"
        except Exception as e:
            return "err:%s" % type(e).__name__
        raise ValueError(op)

    # -- the data area as the file system shows it (C07) -----------------------------------------
    def scan_blobs(self):
        """returns (canonical blobs string, list of integrity failures)"""
        fails = []
        if self.kind == "mem" or not os.path.isdir(self.data_dir):
            return "", fails
        ents = {}
        sha_to_B = {hashlib.sha256(pickle.dumps(make_value(B), protocol=5)).hexdigest(): B for B in range(0, 400)}
        cdir = os.path.join(self.data_dir, "c")
        if os.path.isdir(cdir):
            vdir = os.path.join(cdir, ".versions")
            names = {}
            if os.path.isdir(vdir):
                for u in sorted(os.listdir(vdir)):
                    for name in os.listdir(os.path.join(vdir, u)):
                        if ".meta." in name:
                            continue
                        data = open(os.path.join(vdir, u, name), "rb").read()
                        if hashlib.sha256(data).hexdigest() != name:
                            fails.append(dict(clause="content-key-is-sha256-of-bytes", path="c/.versions/%s/%s" % (u, name)))
                        names.setdefault(name, 0)
                        names[name] += 1
            links = {n[:-5] for n in os.listdir(cdir) if n.endswith(".link")}
            for name in set(names) | links:
                B = sha_to_B.get(name, name[:8])
                ents["c%s" % B] = (B if isinstance(B, int) else 10 ** 9, "c%s:%d:%d" % (B, names.get(name, 0), int(name in links)))
                if names.get(name, 0) > 1:
                    fails.append(dict(clause="one-object-per-content-key", key=name, versions=names[name]))
        inv = {v: k for k, v in OVERRIDES.items()}
        for o, key in OVERRIDES.items():
            d, base = os.path.split(key)
            vdir = os.path.join(self.data_dir, d, ".versions")
            n = 0
            if os.path.isdir(vdir):
                n = sum(1 for u in os.listdir(vdir) if os.path.exists(os.path.join(vdir, u, base)))
            linked = os.path.exists(os.path.join(self.data_dir, d, base + ".link"))
            if n or linked:
                ents["o%d" % o] = (10 ** 9 + o, "o%d:%d:%d" % (o, n, int(linked)))
        return ",".join(v[1] for v in sorted(ents.values())), fails


def run_history(cfg, ops, use_model=True, root=None, scan=False, hooks=None):
    """run ops on one real backend + the dict oracle (+ the Lean model).
    returns dict(oracle=[...], mismatch=[...], transcript=[...], integrity=[...])"""
    w = World(cfg, root=root)
    oracle = DictOracle()
    model = Model("store") if use_model and not has_partition(ops) else None
    res = dict(oracle=[], mismatch=[], transcript=[], integrity=[])
    twin = None
    try:
        if model:
            if cfg["kind"] == "mem":
                model.send("init mem 0")
            else:
                b = cfg.get("budget")
                model.send("init fs %d %s 0" % (int(bool(cfg.get("separate"))), "-" if b is None else b))
        mid = 0
        for i, op in enumerate(ops):
            op = list(op)
            if not oracle.admissible(op):
                continue
            if op[0] == "memoize":
                mid += 1
                op = op[:5] + [mid]
            real = w.apply(op)
            want = oracle.step(op)
            mout = None
            mlines = w.model_lines(op) if model else []
            if model:
                for ln in mlines:
                    mout = model.send(ln)
            rec = dict(i=i, op=op, real=real, spec=want, model=mout)
            if scan and cfg["kind"] != "mem":
                blobs, fails = w.scan_blobs()
                rec["blobs"] = blobs
                for f in fails:
                    f.update(step=i, op=op)
                    res["integrity"].append(f)
                if model:
                    rec["model_blobs"] = model.send("blobs")
                    if rec["model_blobs"] != blobs:
                        res["mismatch"].append(dict(step=i, op=op, stream="blobs", real=blobs, model=rec["model_blobs"]))
            if model and cfg.get("budget") is not None:
                try:
                    ru = str(int(w.be._memory_cache.memory_usage))
                except Exception:
                    ru = None      # internals refactored: stream not available
                if ru is not None:
                    mu = model.send("usage")
                    rec["usage"] = ru
                    if mu != ru:
                        res["mismatch"].append(dict(step=i, op=op, stream="cache-usage", real=ru, model=mu))
            if hooks:
                for f in hooks(w, i, op, rec) or []:
                    f.update(step=i, op=op)
                    res["integrity"].append(f)
            res["transcript"].append(rec)
            if real != want:
                res["oracle"].append(dict(step=i, op=op, clause=clause_of(op, real, want), real=real, expected=want))
            if model and mlines and mout != real:
                res["mismatch"].append(dict(step=i, op=op, stream="api", real=real, model=mout))
            if res["oracle"] or res["mismatch"] or res["integrity"]:
                break
    finally:
        if model:
            model.close()
        w.close()
    return res


def clause_of(op, real, want):
    k = op[0]
    if real.startswith("err:") and not want.startswith("err:"):
        return "operation-raises"
    if k in ("lookread",):
        if want == "none":
            return "forgotten-entry-reappears"
        return "read-returns-last-written"
    if k in ("getm", "ismem"):
        return "lookup-answers-as-dictionary"
    if k in ("lsf", "lsm", "lsml"):
        return "listing-enumerates-live-entries"
    if k == "rmeta":
        return "metadata-read-returns-last-written"
    return "operation-answer"


CONFIGS = [
    dict(kind="mem"),
    dict(kind="fs", separate=False, budget=None),
    dict(kind="fs", separate=True, budget=None),
    dict(kind="fs", separate=False, budget=600),
    dict(kind="fs", separate=True, budget=2500),
    dict(kind="fs", separate=False, budget=200000),
    dict(kind="fs", separate=False, budget=8),        # nothing fits, not even a memento-only entry: every read goes past the cache
]


def has_partition(ops):
    return any(o[0] in ("memoize", "memoize_bad", "rseed") and (o[0] != "memoize" or (o[4] is not None and o[4] >= PART0)) for o in ops)


def gen_ops(rng, length, fns=None, override_rate=0.3, nvals=40, part_rate=0.0, seed_rate=0.0, meta_rate=0.0):
    fns = fns or list(FNS)
    ops = []
    used_vals = []

    def key():
        return rng.choice(fns), rng.choice(ARGS)

    for _ in range(length):
        r = rng.random()
        fn, arg = key()
        if meta_rate and rng.random() < meta_rate:
            # custom metadata of a few calls, written and read back often (also across re-memoization)
            fn, arg = fns[0], rng.choice(ARGS[:2])
            if rng.random() < 0.55:
                ops.append(["wmeta", fn, arg, rng.choice(list(MKEYS)), rng.choice([0, 0] + list(range(1, 12)))])
            else:
                ops.append(["rmeta", fn, arg, rng.choice(list(MKEYS))])
            continue
        if r < 0.36:
            if used_vals and rng.random() < 0.35:
                B = rng.choice(used_vals)           # same bytes again: dedup / sharing across functions
            else:
                B = rng.randrange(1, nvals)
                if rng.random() < part_rate:
                    B = PART0 + rng.randrange(0, 2 * NPART)
                used_vals.append(B)
            if rng.random() < 0.08:
                B = None
            ov = rng.choice(list(OVERRIDES)) if rng.random() < override_rate else None
            if part_rate and rng.random() < 0.08:
                ops.append(["memoize_bad", fn, arg, ov, BAD0 + rng.randrange(0, 4)])
                continue
            if seed_rate and rng.random() < seed_rate:
                ops.append(["rseed", rng.randrange(0, 3)])      # a body that seeds the global generator for reproducibility
            ops.append(["memoize", fn, arg, ov, B])
        elif r < 0.52:
            ops.append(["lookread", fn, arg])
        elif r < 0.60:
            ops.append(["getm", [list(key()) for _ in range(rng.randint(1, 3))]])
        elif r < 0.67:
            ops.append(["ismem", fn, arg])
        elif r < 0.74:
            ops.append(["fcall", fn, arg])
        elif r < 0.79:
            ops.append(["ffn", fn])
        elif r < 0.81:
            ops.append(["fall"])
        elif r < 0.86:
            ops.append(["lsf"])
        elif r < 0.89:
            ops.append(["lsm", fn])
        elif r < 0.91:
            ops.append(["lsml", fn, rng.randint(1, 3)])
        elif r < 0.95:
            ops.append(["wmeta", fn, arg, rng.choice(list(MKEYS)), rng.randrange(0, 50)])
        elif r < 0.98:
            ops.append(["rmeta", fn, arg, rng.choice(list(MKEYS))])
        else:
            arrs = [b for b in used_vals if weakrefable(b)]
            if arrs:
                ops.append([rng.choice(["hold", "drop"]), rng.choice(arrs)])
    return ops
