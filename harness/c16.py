"""C16 — context arguments key results, flow to nested calls, stay out of parameters.

Lean: Props/C16.lean on Model/Runner.lean. Correspondence: execution traces *with the effective
context of every executed frame* and provenance records vs `mmodel runner`, on programs with
context overrides (incl. the empty dict) at random inner edges. Oracle: bodies receive only their
parameters; results computed under different root contexts are stored and served separately;
every frame's effective context is the nearest override on its call path (recomputed by the
harness from the program text); under with_prevent_further_calls every nested memento call fails
with RuntimeError and executes nothing.
"""
import json
import sys

import common
from common import run_check
import progs

PROP = "C16"


def expected_ctx_trace(prog, f, a, ctx):
    """harness-side recomputation of (fn, arg, effective ctx) of every body that runs on a COLD store when
    nothing fails: walk the program text; nearest override wins"""
    out = []
    seen = set()

    def go(f, a, c):
        if (f, a, c) in seen:
            return
        seen.add((f, a, c))
        out.append((f, a, c))
        for s in prog["fns"][f]["stmts"]:
            if s[0] in ("call", "batch") and s[8][0] and not (a >= 0 and a % s[8][0] == s[8][1]):
                continue
            if s[0] == "call":
                go(s[1], a + s[2], c if s[3] == "i" else s[3])
            elif s[0] == "batch":
                for o in s[2]:
                    go(s[1], a + o, c if s[3] == "i" else s[3])
    go(f, a, ctx)
    return out


def plain(prog):
    """no exceptions, no hidden calls, no flags: the walk above is exact"""
    for d in prog["fns"].values():
        if d["raise"][0]:
            return False
        for s in d["stmts"]:
            if s[0] in ("call", "batch") and (s[7] or s[4] or s[5]):
                return False
    return True


def scenario(prog, backend, f, a, use_model, root_dir):
    res = dict(fails=[], mismatch=[])
    w = progs.RunWorld(prog, backend=backend, root=root_dir, use_model=use_model)

    def op(o):
        real, mout = w.op(o)
        if use_model and mout != real:
            res["mismatch"].append(dict(op=o, real=real, model=mout))
        return real
    try:
        r1 = op(["call", f, a, 1, False, False])
        t1 = w.trace()
        for (_, kw, _) in progs.REC.calls:
            if set(kw) != {"a"}:
                res["fails"].append(dict(clause="bodies-never-receive-context", kwargs=sorted(kw)))
        if plain(prog):
            exp = expected_ctx_trace(prog, f, a, 1)
            got = [(x[0], x[1], x[2]) for x in t1]
            if None not in [x[2] for x in got] and sorted(got) != sorted(exp):
                res["fails"].append(dict(clause="nearest-override-context", expected=sorted(exp), got=sorted(got)))
        r2 = op(["call", f, a, 2, False, False])
        t2 = w.trace()
        memo1 = not r1.startswith("x:2:")
        if memo1 and not any(t[0] == f and t[1] == a for t in t2):
            res["fails"].append(dict(clause="different-context-stored-separately", note="second context served from the first"))
        r1b = op(["call", f, a, 1, False, False])
        if memo1 and w.trace():
            res["fails"].append(dict(clause="same-context-served-again", execs=w.show_trace()))
        if r1b.split(" execs=")[0] != progs.norm_exc(r1.split(" execs=")[0]) and progs.norm_exc(r1b.split(" execs=")[0]) != progs.norm_exc(r1.split(" execs=")[0]):
            res["fails"].append(dict(clause="same-context-served-again", first=r1, again=r1b))
        m1 = op(["memento", f, a, 1])
        m2 = op(["memento", f, a, 2])
        m0 = op(["memento", f, a, 0])
        if memo1 and (m1 == "none" or m2 == "none"):
            res["fails"].append(dict(clause="different-context-stored-separately", m1=m1, m2=m2))
        if m0 != "none":
            res["fails"].append(dict(clause="different-context-stored-separately", note="entry without context exists", m0=m0))
        # empty override at the root = no context
        op(["call", f, a, 0, False, False])
        r0 = op(["call", f, a, "i", False, False])
        if memo1 and w.trace():
            res["fails"].append(dict(clause="empty-context-is-no-context", execs=w.show_trace()))
        # prevent further calls: nested memento calls fail with RuntimeError and execute nothing
        a2 = a + 7
        rp = op(["call", f, a2, "i", False, True])
        tp = w.trace()
        nested = [t for t in tp if not (t[0] == f and t[1] == a2)]
        if nested:
            res["fails"].append(dict(clause="prevented-calls-execute-nothing", execs=w.show_trace()))
        # ... also when the nested calls are already memoized (the root is not): forget the root, call it prevented
        op(["forget", f, a, 0])
        rq = op(["call", f, a, "i", False, True])
        ref = w.unmemoized(f, a, "i", False, True)
        if progs.norm_exc(rq.split(" execs=")[0]) != progs.norm_exc(ref):
            res["fails"].append(dict(clause="prevented-nested-calls-fail-even-if-memoized", got=rq, expected=ref))
    finally:
        w.close()
    return res


CTX_VALUES = [None, {}, {"shard": 0}, {"shard": 1}, {"dry_run": False}, {"dry_run": True}, {"label": ""}, {"label": "x"},
              {"opt": None}, {"lst": []}, {"shard": 0, "region": "eu"}, {"region": "eu"}, {"k": 1}, {"k": 1.0}, {"k": True}, {"k": "1"}]


def value_scenario(backend, root_dir):
    """context dictionaries whose values are falsy or differ only in type: each distinct dictionary is its own identity for
    the call and for the calls beneath it ({} = no context arguments)"""
    leaf = dict(explicit=False, stmts=[], const=1, **{"raise": [0, 0, 0, 0]})
    prog = dict(fns={1: leaf, 2: dict(explicit=False, stmts=[["call", 1, 0, "i", False, False, False, False, [0, 0]]], const=2,
                                      **{"raise": [0, 0, 0, 0]})})
    w = progs.RunWorld(prog, backend=backend, root=root_dir, use_model=False)
    fails = []
    try:
        f2 = w.mod.f2
        seen = []           # canonical context -> executions observed when first called
        for cx in CTX_VALUES:
            fn = f2 if cx is None else f2.with_context_args(cx)
            progs.REC.calls.clear()
            fn(1)
            ran = sorted({c[0] for c in progs.REC.calls})
            ident = json.dumps(cx or None, sort_keys=True) + ":" + ",".join(type(v).__name__ for _, v in sorted((cx or {}).items()))
            first = ident not in seen
            if first:
                seen.append(ident)
            want = [1, 2] if first else []
            if ran != want:
                fails.append(dict(clause="different-context-stored-separately" if first else "same-context-served-again", context=repr(cx),
                                  executed=ran, expected=want))
            # bodies never see the context
            for (_, kw, _) in progs.REC.calls:
                extra = set(kw) - {"a"}
                if extra:
                    fails.append(dict(clause="bodies-never-receive-context", kwargs=sorted(kw)))
    finally:
        w.close()
    return fails


NOARG_SRC = '''from twosigma.memento import memento_function


class _Rec:
    def __init__(self):
        self._calls = []

    def add(self, x):
        self._calls.append(x)

    def take(self):
        out, self._calls = self._calls, []
        return out


REC = _Rec()


@memento_function(cluster="cp")
def table():
    REC.add("table")
    return ["table"]


@memento_function(cluster="cp")
def settings(mode="fast", *, depth=2):
    REC.add("settings")
    return [mode, depth]


@memento_function(cluster="cp")
def report(x):
    REC.add("report")
    return [x, table(), settings(), table.call_batch([{}])[0]]
'''


def noarg_scenario(backend, root_dir):
    """calls that pass no argument at all (a function without parameters, one called with its defaults only): the context
    arguments are still part of their identity, at the root, beneath a caller, and through a batch"""
    import linecache, types, os
    leaf = dict(explicit=False, stmts=[], const=1, **{"raise": [0, 0, 0, 0]})
    w = progs.RunWorld(dict(fns={1: leaf}), backend=backend, root=root_dir, use_model=False)
    fails = []
    modname = "c16n_%d_%d" % (os.getpid(), id(w) % 100000)
    fname = "<%s>" % modname
    linecache.cache[fname] = (len(NOARG_SRC), None, NOARG_SRC.splitlines(True), fname)
    mod = types.ModuleType(modname)
    sys.modules[modname] = mod
    try:
        exec(compile(NOARG_SRC, fname, "exec"), mod.__dict__)
        P, T = {"env": "prod"}, {"env": "test"}
        steps = [("table() under prod", lambda: mod.table.with_context_args(P)(), ["table"]),
                 ("table() under test", lambda: mod.table.with_context_args(T)(), ["table"]),
                 ("table() without context", lambda: mod.table(), ["table"]),
                 ("table() under prod again", lambda: mod.table.with_context_args(P)(), []),
                 ("settings() under prod", lambda: mod.settings.with_context_args(P)(), ["settings"]),
                 ("settings() under test", lambda: mod.settings.with_context_args(T)(), ["settings"]),
                 ("settings() under test again", lambda: mod.settings.with_context_args(T)(), []),
                 ("report(1) under {'tenant': 'a'}", lambda: mod.report.with_context_args({"tenant": "a"})(1), ["report", "settings", "table"]),
                 ("report(1) under {'tenant': 'b'}", lambda: mod.report.with_context_args({"tenant": "b"})(1), ["report", "settings", "table"]),
                 ("report(1) under {'tenant': 'a'} again", lambda: mod.report.with_context_args({"tenant": "a"})(1), []),
                 ("report(1) under prod", lambda: mod.report.with_context_args(P)(1), ["report"]),
                 ("table.call_batch([{}]) under {'tenant': 'c'}", lambda: mod.table.with_context_args({"tenant": "c"}).call_batch([{}]), ["table"])]
        for text, call, want in steps:
            mod.REC.take()
            try:
                call()
            except Exception as e:
                fails.append(dict(clause="different-context-stored-separately", call=text, error=repr(e)[:200]))
                break
            got = sorted(mod.REC.take())
            if got != want:
                fails.append(dict(clause="different-context-stored-separately" if len(got) < len(want) else "same-context-served-again",
                                  call=text, executed=got, expected=want))
                break
        if not fails:
            for cx in (P, T):
                mm = mod.table.with_context_args(cx).memento()
                ca = None if mm is None else dict(mm.invocation_metadata.fn_reference_with_args.context_args or {})
                if ca != cx:
                    fails.append(dict(clause="different-context-stored-separately", call="table.with_context_args(%r).memento()" % cx, context_args=repr(ca)))
    finally:
        sys.modules.pop(modname, None)
        w.close()
    return fails


def chain_scenario(backend, root_dir):
    """context arguments attached to a function object that already carries some replace them entirely ({} clears them),
    at the root and at a nested edge"""
    leaf = dict(explicit=False, stmts=[], const=1, **{"raise": [0, 0, 0, 0]})
    prog = dict(fns={1: leaf, 2: dict(explicit=False, stmts=[["call", 1, 0, "i", False, False, False, False, [0, 0]]], const=2,
                                      **{"raise": [0, 0, 0, 0]})})
    w = progs.RunWorld(prog, backend=backend, root=root_dir, use_model=False)
    fails = []
    A, B = {"region": "eu"}, {"k": 2}
    try:
        f1, f2 = w.mod.f1, w.mod.f2

        def ran(fn, x):
            progs.REC.calls.clear()
            fn(x)
            return sorted((c[0], c[2]) for c in progs.REC.calls)
        steps = [
            ("f2.with_context_args(B)(7)", f2.with_context_args(B), 7, [(1, 2), (2, 2)]),
            ("f2.with_context_args(A).with_context_args(B)(7)", f2.with_context_args(A).with_context_args(B), 7, []),
            ("f2(8)", f2, 8, [(1, 0), (2, 0)]),
            ("f2.with_context_args(A).with_context_args({})(8)", f2.with_context_args(A).with_context_args({}), 8, []),
            ("f2.with_context_args(B).with_context_args(A)(9)", f2.with_context_args(B).with_context_args(A), 9, [(1, -1), (2, -1)]),
            ("f2.with_context_args(A)(9)", f2.with_context_args(A), 9, []),
            ("f1.with_context_args(A).with_context_args(B)(7)", f1.with_context_args(A).with_context_args(B), 7, []),
        ]
        for text, fn, x, want in steps:
            got = ran(fn, x)
            if got != want:
                fails.append(dict(clause="own-context-replaces-entirely", call=text, executed=got, expected=want))
        # ... also when the function object the new context is attached to has been *called* under its own context before,
        # and when the new dictionary differs from the attached one only in the type of a value (1 / 1.0 / True)
        used = f2.with_context_args({"k": 1})
        # (each function object is derived only when its turn comes: after `used` has been called)
        seq = [("used = f2.with_context_args({'k': 1}); used(11)", lambda: used, [(1, 1), (2, 1)]),
               ("used.with_context_args({'k': 2})(11)", lambda: used.with_context_args({"k": 2}), [(1, 2), (2, 2)]),
               ("used.with_context_args({'k': 1.0})(11)", lambda: used.with_context_args({"k": 1.0}), [(1, 1), (2, 1)]),
               ("used.with_context_args({'k': True})(11)", lambda: used.with_context_args({"k": True}), [(1, 1), (2, 1)]),
               ("used(11) again", lambda: used, []),
               ("used.with_context_args({'k': 2})(11) again", lambda: used.with_context_args({"k": 2}), []),
               ("f2.with_context_args({'k': 1.0})(11) again", lambda: f2.with_context_args({"k": 1.0}), [])]
        for text, mk, want in seq:
            got = ran(mk(), 11)
            if got != want:
                fails.append(dict(clause="own-context-replaces-entirely", call=text, executed=got, expected=want))
        for cx in ({"k": 1}, {"k": 2}, {"k": 1.0}, {"k": True}):
            for g in (f1, f2):
                if g.with_context_args(cx).memento(11) is None:
                    fails.append(dict(clause="different-context-stored-separately", call="%s.with_context_args(%r).memento(11)" % (g.__name__, cx), got=None))
        mm = f2.with_context_args(A).with_context_args(B).memento(7)
        ca = None if mm is None else mm.invocation_metadata.fn_reference_with_args.context_args
        if mm is None or dict(ca or {}) != B:
            fails.append(dict(clause="own-context-replaces-entirely", call="f2.with_context_args(A).with_context_args(B).memento(7)", context_args=repr(ca)))
    finally:
        w.close()
    return fails


def thread_scenario(backend, root_dir):
    """a root call on one thread while a call with context arguments (or with further calls prevented) is in flight on
    another thread: context flows down the *call tree*, not across threads"""
    import threading
    leaf = dict(explicit=False, stmts=[], const=1, **{"raise": [0, 0, 0, 0]})
    prog = dict(fns={1: leaf, 2: dict(explicit=False, stmts=[["call", 1, 0, "i", False, False, False, False, [0, 0]]], const=2,
                                      **{"raise": [0, 0, 0, 0]})})
    w = progs.RunWorld(prog, backend=backend, root=root_dir, use_model=False)
    fails = []
    main = threading.current_thread()
    orig = progs.REC.enter
    ev = {}

    def enter(name, kwargs):
        orig(name, kwargs)
        if name == "f2" and threading.current_thread() is not main:
            ev["started"].set()
            ev["go"].wait(30)
    try:
        f1, f2 = w.mod.f1, w.mod.f2
        # (the recorder is what the generated bodies call: the hook stays in place for the whole scenario, so that the
        # functions' versions are the same for the calls and for the queries)
        progs.REC.__dict__["enter"] = enter
        for phase, (mk, x) in enumerate([(lambda: f2.with_context_args({"k": 1}), 1), (lambda: f2.with_prevent_further_calls(True), 2)]):
            started, go = threading.Event(), threading.Event()
            ev.update(started=started, go=go)
            progs.REC.calls.clear()
            res = {}

            def bg(mk=mk, x=x):
                try:
                    res["A"] = ("ok", mk()(x))
                except BaseException as e:      # noqa
                    res["A"] = ("raise", type(e).__name__, str(e)[:160])
            t = threading.Thread(target=bg, daemon=True)
            t.start()
            if not started.wait(20):
                fails.append(dict(clause="no-internal-error", note="background call never started", phase=phase))
            try:
                res["main"] = ("ok", f1(50 + phase))
            except Exception as e:
                res["main"] = ("raise", type(e).__name__, str(e)[:160])
            mine = [c for c in progs.REC.calls if c[0] == 1 and c[1].get("a") == 50 + phase]
            go.set()
            t.join(30)
            if res["main"][0] != "ok":
                fails.append(dict(clause="context-stays-in-its-call-tree", phase=phase, note="a root call on another thread failed", got=res["main"]))
                continue
            if [c[2] for c in mine] != [0]:
                fails.append(dict(clause="context-stays-in-its-call-tree", phase=phase, note="context seen by the root call's body", got=[c[2] for c in mine]))
            if f1.memento(50 + phase) is None:
                fails.append(dict(clause="context-stays-in-its-call-tree", phase=phase, note="the root call made without context args is not stored under no context args"))
            if phase == 0:
                if res.get("A", ("",))[0] != "ok":
                    fails.append(dict(clause="no-internal-error", got=res.get("A")))
                mm = f2.with_context_args({"k": 1}).memento(1)
                inv = None if mm is None else sorted((i.fn_reference.function_name, tuple(i.args), tuple(sorted(i.kwargs.items())))
                                                     for i in mm.invocation_metadata.invocations)
                if inv != [("f1", (), (("a", 1),))] and inv != [("f1", (1,), ())]:
                    fails.append(dict(clause="context-stays-in-its-call-tree", note="invocations recorded for the call in flight", got=repr(inv)))
    finally:
        progs.REC.__dict__.pop("enter", None)
        w.close()
    return fails


def main(chk, replay=None):
    if replay is not None:
        if replay.get("kind") in ("chain", "threads", "noarg"):
            fails = dict(chain=chain_scenario, threads=thread_scenario, noarg=noarg_scenario)[replay["kind"]](replay["backend"], None)
            print(json.dumps(dict(still_fails=bool(fails), observed=fails[:3]), default=str))
            return 1 if fails else 0
        if replay.get("kind") == "values":
            fails = value_scenario(replay["backend"], None)
            print(json.dumps(dict(still_fails=bool(fails), observed=fails[:3]), default=str))
            return 1 if fails else 0
        r = scenario(replay["program"], replay["backend"], replay["f"], replay["a"], False, None)
        print(json.dumps(dict(still_fails=bool(r["fails"]), observed=r["fails"][:3]), default=str))
        return 1 if r["fails"] else 0
    chk.rule = ("generated call-DAG programs with context overrides ({k:1}, {k:2}, {}) on ~40% of the inner edges, cached and "
                "uncached sub-calls, batches; scenario per (program, root): call under context 1, under 2, under 1 again, "
                "mementos per context, empty override, then with_prevent_further_calls; context dictionaries with falsy / type-differing values; context arguments attached twice to one function object; a root call on another thread while a call with context arguments / prevention is in flight. Distinct = distinct (program, root, "
                "backend); non-trivial = program has >= 1 context override.")
    proof_ok = chk.build_and_audit()
    quick = chk.tier == "quick"
    rng = chk.rng
    n = 40 if quick else 600
    reported = 0
    for backend in ("fs", "memory", "fs+cache"):
        fails = value_scenario(backend, chk.tmpdir())
        chk.case(["context-values", backend], sample=dict(kind="context value matrix", backend=backend, contexts=[repr(c) for c in CTX_VALUES[:6]]))
        chk.count("context-value-matrix", len(CTX_VALUES))
        for fl in fails[:2]:
            chk.violation({"what": "context arguments: %s for context %s" % (fl["clause"], fl.get("context")), "class": {"clause": fl["clause"], "kind": "values"},
                           "kind": "values", "backend": backend, "observed": fails[:3]})
        for kind, fnc in (("chain", chain_scenario), ("threads", thread_scenario), ("noarg", noarg_scenario)):
            fails = fnc(backend, chk.tmpdir())
            chk.case(["context-" + kind, backend], nontrivial=True, sample=dict(kind="context " + kind, backend=backend))
            chk.count("context-" + kind)
            for fl in fails[:2]:
                chk.violation({"what": "context arguments (%s): %s" % (kind, fl["clause"]), "class": {"clause": fl["clause"], "kind": kind},
                               "kind": kind, "backend": backend, "observed": fails[:3]})
    Z = [0, 0]
    noexc = {"raise": [0, 0, 0, 0]}
    directed = [
        # further calls are prevented at an inner edge whose callee makes memento calls itself (handled / propagating; under a
        # context override; callee memoized beforehand by an earlier statement or not)
        dict(fns={1: dict(explicit=False, stmts=[], const=1, **noexc), 2: dict(explicit=False, stmts=[["call", 1, 0, "i", False, False, False, False, Z]], const=2, **noexc),
                  3: dict(explicit=False, stmts=[["call", 2, 0, "i", False, True, True, False, Z], ["call", 1, 1, "i", False, False, False, False, Z]], const=3, **noexc)}),
        dict(fns={1: dict(explicit=False, stmts=[], const=1, **noexc), 2: dict(explicit=False, stmts=[["call", 1, 0, 1, False, False, False, False, Z]], const=2, **noexc),
                  3: dict(explicit=False, stmts=[["call", 1, 0, 1, False, False, False, False, Z], ["call", 2, 0, 2, False, True, True, False, Z],
                                                 ["batch", 2, [0, 1], "i", False, True, False, False, Z]], const=3, **noexc)}),
        dict(fns={1: dict(explicit=False, stmts=[], const=1, **noexc), 2: dict(explicit=False, stmts=[["call", 1, 0, "i", False, False, False, False, Z]], const=2, **noexc),
                  3: dict(explicit=False, stmts=[["call", 2, 0, "i", False, True, False, False, Z]], const=3, **noexc),
                  4: dict(explicit=False, stmts=[["call", 3, 0, "i", False, False, True, False, Z]], const=4, **noexc)}),
        # ... and the nested call under prevention carries force_local()
        dict(fns={1: dict(explicit=False, stmts=[], const=1, **noexc), 2: dict(explicit=False, stmts=[["call", 1, 0, "i", 2, False, True, False, Z]], const=2, **noexc),
                  3: dict(explicit=False, stmts=[["call", 2, 0, "i", 0, True, True, False, Z], ["batch", 2, [1], "i", 2, True, False, False, Z]], const=3, **noexc)}),
    ]
    for i in range(n + len(directed)):
        simple = rng.random() < 0.5
        if i < len(directed):
            prog = json.loads(json.dumps(directed[i]))
            prog["fns"] = {int(k): v for k, v in prog["fns"].items()}
        else:
            prog = progs.gen_program(rng, nfns=rng.randint(2, 6), ctx_rate=0.4, exc_rate=0.0 if simple else 0.25,
                                     hidden_rate=0.0 if simple else 0.04, flag_rate=0.0 if simple else 0.08,
                                     prevent_rate=0.0 if simple else 0.15)
        f = max(prog["fns"])
        a = rng.choice([0, 1, 2])
        backend = rng.choice(["memory", "fs", "fs+cache"])
        r = scenario(prog, backend, f, a, proof_ok, chk.tmpdir())
        chk.case([prog, backend, f, a], nontrivial=any(s[0] in ("call", "batch") and s[3] != "i" for d in prog["fns"].values() for s in d["stmts"]),
                 sample=dict(backend=backend, root=[f, a], fns={k: v["stmts"][:2] for k, v in list(prog["fns"].items())[-2:]}))
        chk.count("plain-program" if plain(prog) else "program-with-failures-or-flags")
        for mm in r["mismatch"][:2]:
            chk.correspondence_break("context-ops", dict(program=prog, backend=backend, **mm))
        if r["fails"] and reported < 4:
            reported += 1
            fl = r["fails"][0]
            chk.violation({"what": "context arguments: %s" % fl["clause"], "class": {"clause": fl["clause"]},
                           "program": prog, "backend": backend, "f": f, "a": a, "observed": r["fails"][:2],
                           "source": progs.render(prog, "replay")})
        if reported >= 4 or len(chk.correspondence_breaks) > 6:
            break


if __name__ == "__main__":
    sys.exit(run_check(PROP, main, sys.argv[1:]))
