"""C11 — the JSON metadata codec round-trips and keeps its cross-language wire format.

Lean: Model/Codec.lean (encode_* / decode_* of MementoCodec, the reference constructors the decoders call,
the wire-format and plain-JSON predicates), Props/C11.lean, Lemmas/CodecLemmas.lean.
Correspondence (`mmodel codec`): for generated mementos the real `encode_memento` document is compared with the
model's document (canonical JSON text), the real `decode_memento(json.loads(json.dumps(doc)))` with the model's
decoded memento, the string the model says is hashed (SHA-256) with the real recomputed `arg_hash`; the model's
`wireMemento` / `strictJson` predicates are evaluated on the REAL documents; the hypotheses of the theorems
(`wfMemento`) are evaluated on every generated memento; leaf codecs (datetime text, versioned keys) and
foreign / malformed documents are compared too.  Real memento files written by the filesystem backend are read back.
Oracle (real code only): field-wise equivalence of decode(encode(m)) and m, arg hashes equal, document is strict JSON,
document conforms to an independent schema of the fixed field names / typed {type, value} encoding.
"""
import datetime
import hashlib
import json
import os
import re
import sys
import time

import common
from common import run_check, model_batch
from c04 import hx, to_sexpr, canon_sexpr

PROP = "C11"

FNREF_TAG = "twosigma.memento.FunctionReference"
# the fixed wire names of result types (what other language implementations read)
WIRE_RESULT_TYPES = ["exception", "null", "boolean", "string", "binary", "number", "date", "timestamp", "list_result",
                     "dictionary", "array_boolean", "array_int8", "array_int16", "array_int32", "array_int64",
                     "array_float32", "array_float64", "index", "series", "data_frame", "partition", "memento_function"]
DATE_RE = re.compile(r"^\d\d\d\d-\d\d-\d\d$", re.ASCII)
TS_RE = re.compile(r"^\d\d\d\d-\d\d-\d\dT\d\d:\d\d:\d\d(\.\d{6})?(Z|[+-]\d\d:\d\d)?$", re.ASCII)

tz = datetime.timezone
td = datetime.timedelta


# ----------------------------------------------------------------------------------------------
# S-expressions (the driver's syntax)
# ----------------------------------------------------------------------------------------------

def ostr(s):
    return "~" if s is None else hx(s)


def ref_sexpr(r):
    return "R " + hx(r.qualified_name) + " ( " + "".join(to_sexpr(x) + " " for x in (r.partial_args or ())) + ") ( " + \
        "".join(hx(k) + " " + to_sexpr(x) + " " for k, x in (r.partial_kwargs or {}).items()) + ") ( " + \
        "".join(hx(n) + " " for n in r.parameter_names) + ")"


def obj_sexpr(d):
    return "( " + "".join(hx(k) + " " + to_sexpr(x) + " " for k, x in (d or {}).items()) + ")"


def call_sexpr(c):
    return "C " + ref_sexpr(c.fn_reference) + " ( " + "".join(to_sexpr(x) + " " for x in c.args) + ") " + \
        obj_sexpr(c.kwargs) + " " + obj_sexpr(c.context_args)


def jval_sexpr(v):
    if v is None:
        return "n"
    if v is True:
        return "t"
    if v is False:
        return "f"
    if isinstance(v, (int, float)):
        return "#" + hx(json.dumps(v))
    if isinstance(v, str):
        return "s" + hx(v)
    if isinstance(v, (list, tuple)):
        return "[ " + "".join(jval_sexpr(x) + " " for x in v) + "]"
    if isinstance(v, dict):
        return "{ " + "".join(hx(k) + " " + jval_sexpr(x) + " " for k, x in v.items()) + "}"
    raise ValueError("not JSON: %r" % type(v))


def runtime_token(rt):
    # a value that is not a timedelta is an observation (it will not compare equal to the original), not a crash
    return json.dumps(rt.total_seconds()) if hasattr(rt, "total_seconds") else "?" + repr(rt)


def memento_sexpr(m, deps=None, sort_deps=False):
    im = m.invocation_metadata
    if deps is None:
        deps = list(m.function_dependencies or ())
    dl = [ref_sexpr(r) for r in deps]
    if sort_deps:
        dl = sorted(set(dl))
    ck = m.content_key
    return "MEM " + hx(m.time.isoformat()) + " " + call_sexpr(im.fn_reference_with_args) + " " + \
        ("~" if im.invocations is None else "( " + "".join(call_sexpr(c) + " " for c in im.invocations) + ")") + " " + \
        ("~" if im.resources is None else "( " + "".join("H %s %s %s " % (ostr(r.resource_type), ostr(r.url), ostr(r.version))
                                                          for r in im.resources) + ")") + " " + \
        hx(runtime_token(im.runtime)) + " " + hx(getattr(im.result_type, "name", "?" + repr(im.result_type))) + " ( " + "".join(d + " " for d in dl) + ") " + \
        jval_sexpr(m.runner) + " " + ostr(m.correlation_id) + " " + ("~" if ck is None else "K %s %s" % (hx(ck.key) if ck.key is not None else "~none~", hx(ck.version) if ck.version is not None else "~none~"))


def canon_text(doc):
    """canonical JSON text (what `render (ser doc)` prints): keys sorted, no whitespace, ASCII"""
    return json.dumps(doc, sort_keys=True, separators=(",", ":"), ensure_ascii=True)


# ----------------------------------------------------------------------------------------------
# independent schema of the wire format (fixed field names, typed {type, value} arguments)
# ----------------------------------------------------------------------------------------------

def _keys(node, want, path, probs):
    if not isinstance(node, dict):
        probs.append("%s: expected an object, found %s" % (path, type(node).__name__))
        return False
    if set(node.keys()) != set(want):
        probs.append("%s: fields %s, wire format says %s" % (path, sorted(node.keys()), sorted(want)))
        return False
    return True


def schema_arg(node, path, probs):
    if not isinstance(node, dict) or "type" not in node:
        probs.append("%s: not a typed {type, value} node: %r" % (path, node))
        return
    t = node["type"]
    if t == "null":
        _keys(node, ["type"], path, probs)
        return
    if not _keys(node, ["type", "value"], path, probs):
        return
    v = node["value"]
    if t == "boolean":
        ok = isinstance(v, bool)
    elif t == "number":
        ok = isinstance(v, (int, float)) and not isinstance(v, bool)
    elif t == "string":
        ok = isinstance(v, str)
    elif t == "date":
        ok = isinstance(v, str) and DATE_RE.match(v) is not None
    elif t == "timestamp":
        ok = isinstance(v, str) and TS_RE.match(v) is not None and not v.endswith("+00:00")
    elif t == "list_result":
        ok = isinstance(v, list)
        if ok:
            for i, x in enumerate(v):
                schema_arg(x, "%s[%d]" % (path, i), probs)
    elif t == "dictionary":
        ok = isinstance(v, dict) and all(isinstance(k, str) for k in v)
        if ok:
            for k, x in v.items():
                schema_arg(x, "%s.%s" % (path, k), probs)
    elif t == FNREF_TAG:
        ok = True
        schema_ref(v, path + "<fn>", probs)
    else:
        probs.append("%s: unknown argument type tag %r" % (path, t))
        return
    if not ok:
        probs.append("%s: value %r is emitted with type %r" % (path, v, t))


def schema_ref(node, path, probs):
    if not _keys(node, ["qualifiedName", "partialArgs", "partialKwargs", "parameterNames"], path, probs):
        return
    if not isinstance(node["qualifiedName"], str):
        probs.append(path + ".qualifiedName: not a string")
    pa, pk, pn = node["partialArgs"], node["partialKwargs"], node["parameterNames"]
    if not isinstance(pa, list):
        probs.append(path + ".partialArgs: not a list")
    else:
        for i, x in enumerate(pa):
            schema_arg(x, "%s.partialArgs[%d]" % (path, i), probs)
    if not isinstance(pk, dict):
        probs.append(path + ".partialKwargs: not an object")
    else:
        for k, x in pk.items():
            schema_arg(x, "%s.partialKwargs.%s" % (path, k), probs)
    if not (isinstance(pn, list) and all(isinstance(x, str) for x in pn)):
        probs.append(path + ".parameterNames: not a list of strings")


def schema_call(node, path, probs):
    if not _keys(node, ["fnReference", "args", "kwargs", "contextArgs"], path, probs):
        return
    schema_ref(node["fnReference"], path + ".fnReference", probs)
    if not isinstance(node["args"], list):
        probs.append(path + ".args: not a list")
    else:
        for i, x in enumerate(node["args"]):
            schema_arg(x, "%s.args[%d]" % (path, i), probs)
    for f in ("kwargs", "contextArgs"):
        if not isinstance(node[f], dict):
            probs.append("%s.%s: not an object" % (path, f))
        else:
            for k, x in node[f].items():
                schema_arg(x, "%s.%s.%s" % (path, f, k), probs)


def schema_memento(doc):
    probs = []
    if not _keys(doc, ["time", "invocationMetadata", "functionDependencies", "runner", "correlationId", "contentKey"], "$", probs):
        return probs
    t = doc["time"]
    if not (isinstance(t, str) and TS_RE.match(t) and not t.endswith("+00:00")):
        probs.append("$.time: %r is not an ISO-8601 timestamp with 'Z' for UTC" % (t,))
    im = doc["invocationMetadata"]
    if _keys(im, ["fnReferenceWithArgs", "invocations", "resources", "runtimeSeconds", "resultType"], "$.invocationMetadata", probs):
        schema_call(im["fnReferenceWithArgs"], "$.im.fnReferenceWithArgs", probs)
        if im["invocations"] is not None:
            if not isinstance(im["invocations"], list):
                probs.append("$.im.invocations: not a list")
            else:
                for i, c in enumerate(im["invocations"]):
                    schema_call(c, "$.im.invocations[%d]" % i, probs)
        if im["resources"] is not None:
            if not isinstance(im["resources"], list):
                probs.append("$.im.resources: not a list")
            else:
                for i, r in enumerate(im["resources"]):
                    if _keys(r, ["resourceType", "url", "version"], "$.im.resources[%d]" % i, probs):
                        for f in r:
                            if not (r[f] is None or isinstance(r[f], str)):
                                probs.append("$.im.resources[%d].%s: not a string" % (i, f))
        rs = im["runtimeSeconds"]
        if not (isinstance(rs, (int, float)) and not isinstance(rs, bool)):
            probs.append("$.im.runtimeSeconds: not a number")
        if im["resultType"] not in WIRE_RESULT_TYPES:
            probs.append("$.im.resultType: %r is not a wire result type name" % (im["resultType"],))
    fd = doc["functionDependencies"]
    if not isinstance(fd, list):
        probs.append("$.functionDependencies: not a list")
    else:
        for i, r in enumerate(fd):
            schema_ref(r, "$.functionDependencies[%d]" % i, probs)
    if not (doc["correlationId"] is None or isinstance(doc["correlationId"], str)):
        probs.append("$.correlationId: not a string")
    ck = doc["contentKey"]
    if not (ck is None or (isinstance(ck, str) and "#" in ck)):
        probs.append("$.contentKey: %r is not 'key#version'" % (ck,))
    return probs


SCHEMA_ORDER = {
    frozenset(["time", "invocationMetadata", "functionDependencies", "runner", "correlationId", "contentKey"]):
        ["time", "invocationMetadata", "functionDependencies", "runner", "correlationId", "contentKey"],
    frozenset(["fnReferenceWithArgs", "invocations", "resources", "runtimeSeconds", "resultType"]):
        ["fnReferenceWithArgs", "invocations", "resources", "runtimeSeconds", "resultType"],
    frozenset(["fnReference", "args", "kwargs", "contextArgs"]): ["fnReference", "args", "kwargs", "contextArgs"],
    frozenset(["qualifiedName", "partialArgs", "partialKwargs", "parameterNames"]):
        ["qualifiedName", "partialArgs", "partialKwargs", "parameterNames"],
    frozenset(["resourceType", "url", "version"]): ["resourceType", "url", "version"],
    frozenset(["type", "value"]): ["type", "value"],
}


def schema_ordered(doc, typed=False):
    """the document with the members of the format's own objects put in the order the format lists them (member order
    is irrelevant to JSON readers; the Lean predicate `wireMemento` is stated on one order). User dictionaries
    (the value of a `dictionary` node, kwargs, ...) keep their order."""
    if isinstance(doc, list):
        return [schema_ordered(x) for x in doc]
    if isinstance(doc, dict):
        order = SCHEMA_ORDER.get(frozenset(doc.keys()))
        if order is not None and not typed:
            if order == ["type", "value"] and doc.get("type") == "dictionary" and isinstance(doc["value"], dict):
                return {"type": doc["type"], "value": {k: schema_ordered(x) for k, x in doc["value"].items()}}
            out = {}
            for k in order:
                if k in ("kwargs", "contextArgs", "partialKwargs") and isinstance(doc[k], dict):
                    out[k] = {kk: schema_ordered(x) for kk, x in doc[k].items()}
                else:
                    out[k] = schema_ordered(doc[k])
            return out
        return {k: schema_ordered(x) for k, x in doc.items()}
    return doc


def non_finite_paths(doc, path="$"):
    out = []
    if isinstance(doc, float) and (doc != doc or doc in (float("inf"), float("-inf"))):
        out.append(path)
    elif isinstance(doc, list):
        for i, x in enumerate(doc):
            out += non_finite_paths(x, "%s[%d]" % (path, i))
    elif isinstance(doc, dict):
        for k, x in doc.items():
            out += non_finite_paths(x, "%s.%s" % (path, k))
    return out


def _no_constant(name):
    raise ValueError("not plain JSON: bare token " + name)


# ----------------------------------------------------------------------------------------------
# the world: functions, references, values
# ----------------------------------------------------------------------------------------------

class World:
    def __init__(self):
        import c11fns
        from twosigma.memento.reference import FunctionReference
        self.fns = c11fns
        self.FR = FunctionReference
        self.local = {}          # qualified name -> parameter names (the model's code base)
        for name, (fn, pn) in c11fns.LOCAL.items():
            qn = fn.fn_reference().qualified_name
            self.local[qn] = list(pn)
            if "::" not in qn.split("#", 1)[0]:        # (a version string may itself contain '::')
                self.local["other::" + qn] = list(pn)
        for fn in (c11fns.leaf, c11fns.mid, c11fns.top, c11fns.keyed, c11fns.failing):
            r = fn.fn_reference()
            self.local[r.qualified_name] = list(r.parameter_names)
        self.external = [("nomod.sub:fn#v1", ["a", "b", "k"]), ("cl::nomod:fn.x#2", ["p"]), ("c11fns:target#OTHER", ["x", "y"]),
                         ("c11fns:nope#1", []), ("c11fns:REC#1", ["r", "s", "t", "u"]), ("ext.é:fün#1#2", ["α", "b"]),
                         ("x.y:z#", ["q"]), ("nomod:fn#lib::rel:7", ["p"]), ("cl::nomod:fn#a::b", ["p"])]

    def cb_line(self):
        return "cb " + " ".join(hx(q) + " ( " + "".join(hx(n) + " " for n in pn) + ")" for q, pn in sorted(self.local.items()))

    def leaves(self):
        f = self.fns
        ext = self.FR.from_qualified_name("nomod.sub:fn#v1", partial_args=(1,), partial_kwargs={"k": [None]},
                                          parameter_names=["a", "b", "k"]).memento_fn
        return [
            None, True, False, 0, 1, -1, 2 ** 70, -(2 ** 63), 1.0, 0.0, -0.0, 1.5, 1e16, 1e22, 1e-7, float("nan"), float("inf"),
            float("-inf"), 0.1 + 0.2, 5e-324, 1.7976931348623157e308, "", "1", "true", "a b", "é", "quote\"back\\slash", "tab\tnl\n",
            "\x00\x1f\x7f", "😀", "\u2028", "#", "cafe\u0301", "Zu\u0308rich", "10 \u212b", "\u1112\u1161\u11ab", "\ufb01", "e\u0301\u0323", "2020-01-01", "+00:00", "Z",
            datetime.date(2020, 1, 1), datetime.date(999, 12, 31), datetime.date(1, 1, 1), datetime.date(9999, 12, 31),
            datetime.datetime(2020, 1, 1), datetime.datetime(2020, 1, 1, 12, 30, 15, 123456), datetime.datetime(2020, 1, 1, tzinfo=tz.utc),
            datetime.datetime(1, 1, 1, 0, 0, 0, 1), datetime.datetime(999, 2, 3, 4, 5, 6, tzinfo=tz.utc),
            datetime.datetime(2020, 1, 1, 5, 6, 7, 8, tzinfo=tz(td(hours=-3, minutes=-30))),
            datetime.datetime(2020, 6, 1, tzinfo=tz(td(hours=5, minutes=45))), datetime.datetime(2020, 6, 1, tzinfo=tz(td(hours=14))),
            datetime.datetime(2020, 6, 1, 0, 0, 0, 500000, tzinfo=tz(td(hours=-23, minutes=-59))),
            datetime.datetime(2020, 6, 1, tzinfo=tz(td(minutes=1))), datetime.datetime(2000, 2, 29, 23, 59, 59, 999999, tzinfo=tz(td(0), "X")),
            f.target, f.target.partial(1), f.target.partial(y="k"), f.target.partial(1, y=[1, {"z": None}]), f.clustered,
            f.colon_version.partial(q=datetime.date(2020, 2, 2)), f.auto_version, f.one.partial(f.one.partial(f.one)), ext,
            [], {}, [[]], {"": 0},
        ]


KEYS = ["a", "b", "z", "é", "A", "_", "aa", "a b", "10", "type", "value", "\U0001f600", "iso8601", "qualifiedName"]


def gen_value(rng, L, depth):
    if depth == 0 or rng.random() < 0.45:
        return rng.choice(L)
    if rng.random() < 0.5:
        return [gen_value(rng, L, depth - 1) for _ in range(rng.randint(0, 3))]
    keys = rng.sample(KEYS, rng.randint(0, 4))
    return {k: gen_value(rng, L, depth - 1) for k in keys}


def gen_datetime(rng):
    year = rng.choice([1, 999, 1000, 1970, 2024, 2024, 9999])
    d = datetime.datetime(year, rng.randint(1, 12), rng.randint(1, 28), *rng.choice([(0, 0, 0), (23, 59, 59), (rng.randint(0, 23), rng.randint(0, 59), rng.randint(0, 59))]))
    if rng.random() < 0.5:
        d = d.replace(microsecond=rng.choice([1, 999999, 500000, rng.randint(0, 999999)]))
    z = rng.choice(["naive", "utc", "utc", "off", "off", "zero-named"])
    if z == "utc":
        d = d.replace(tzinfo=tz.utc)
    elif z == "zero-named":
        d = d.replace(tzinfo=tz(td(0), "GMT"))
    elif z == "off" and 1 < year < 9999:
        mins = rng.choice([1, -1, 30, -210, 345, 840, -1439, 1439, rng.randint(-1439, 1439)])
        d = d.replace(tzinfo=tz(td(minutes=mins)))
    return d


def gen_ref(rng, W, L, depth=2, want_fn=False):
    """a FunctionReference (or the memento function carrying it) with partial arguments"""
    from twosigma.memento.reference import FunctionReference
    if rng.random() < 0.6:
        name = rng.choice(sorted(W.fns.LOCAL))
        fn, pn = W.fns.LOCAL[name]
        local = True
    else:
        qn, pn = rng.choice(W.external)
        local = False
    i = rng.randint(0, len(pn)) if rng.random() < 0.5 else 0
    rest = pn[i:]
    pk_names = rng.sample(rest, rng.randint(0, len(rest))) if rng.random() < 0.5 else []
    pa = [gen_value(rng, L, depth - 1) for _ in range(i)]
    pk = {n: gen_value(rng, L, depth - 1) for n in pk_names}
    if local:
        style = rng.random()
        if style < 0.6 or name in ("clustered",):
            f = fn.partial(*pa, **pk) if (pa or pk) else fn
            ref = f.fn_reference()
        else:
            qn = fn.fn_reference().qualified_name
            ref = FunctionReference.from_qualified_name(("other::" + qn) if style < 0.8 else qn, partial_args=tuple(pa), partial_kwargs=pk)
    else:
        ref = FunctionReference.from_qualified_name(qn, partial_args=tuple(pa) if pa or rng.random() < 0.5 else None,
                                                    partial_kwargs=pk if pk or rng.random() < 0.5 else None, parameter_names=list(pn))
    return ref.memento_fn if want_fn else ref


def gen_call(rng, W, L, depth=2):
    from twosigma.memento.reference import FunctionReferenceWithArguments
    ref = gen_ref(rng, W, L, depth)
    pn = list(ref.parameter_names)
    bound = set(ref.partial_kwargs) | set(pn[:len(ref.partial_args)])
    remaining = [n for n in pn if n not in bound]
    r = rng.randint(0, len(remaining))
    args = [gen_value(rng, L, depth) for _ in range(r)]
    kw_names = [n for n in remaining[r:] if rng.random() < 0.7]
    if rng.random() < 0.15 and ref.partial_kwargs:
        kw_names.append(rng.choice(sorted(ref.partial_kwargs)))       # a keyword overriding a partial keyword
    if rng.random() < 0.1:
        kw_names.append(rng.choice(["extra", "é", "type"]))               # **kwargs-style names
    rng.shuffle(kw_names)
    kwargs = {n: gen_value(rng, L, depth) for n in kw_names}
    ctx = rng.choice([None, None, {}, {"k": 1}, {"k": gen_value(rng, L, 1), "j": [True]}, {"é": {"n": None}}])
    return FunctionReferenceWithArguments(ref, tuple(args), kwargs, ctx)


def gen_memento(rng, W, L):
    from twosigma.memento import Memento, InvocationMetadata
    from twosigma.memento.metadata import ResultType
    from twosigma.memento.resource import ResourceHandle
    from twosigma.memento.types import VersionedDataSourceKey
    strs = ["", "x", "file:///a/b#c", "é😀", "a\"b\\c\n", "null", "1"]
    call = gen_call(rng, W, L, rng.randint(0, 3))
    invs = rng.choice([None, 0, 1, 2, 3]) if rng.random() < 0.7 else 0
    invocations = None if invs is None else [gen_call(rng, W, L, rng.randint(0, 2)) for _ in range(invs)]
    if invocations and rng.random() < 0.2:
        invocations.append(invocations[0])          # the same call twice: invocation lists keep duplicates and order
    resources = rng.choice([None, [], [0], [0, 0]])
    if resources is not None:
        resources = [ResourceHandle(rng.choice(strs), rng.choice(strs), rng.choice(strs + [None])) for _ in resources]
    runtime = rng.choice([td(0), td(microseconds=1), td(seconds=1.5), td(seconds=rng.randint(0, 10 ** 6), microseconds=rng.randint(0, 999999)),
                          td(days=rng.randint(0, 10000), seconds=rng.randint(0, 86399), microseconds=rng.randint(0, 999999)), td(minutes=90)])
    deps = set()
    for _ in range(rng.choice([0, 0, 1, 2, 3])):
        deps.add(gen_ref(rng, W, L, 1))
    runner = rng.choice([{"type": "local"}, {}, {"type": "remote", "host": "hé", "port": 8080, "opts": [1, 2.5, None, True, {"a": "b"}]},
                         {"type": "local", "nested": {"k": [[], {}]}}])
    ck = rng.choice([None, ("c/0123abcd", "v1"), ("custom_key", ""), ("reports/2024#q1", "5f0c1d"), ("a#b#c", ""), ("", ""), ("#", "u"),
                     ("clé/😀", "9f1c2b3a-0000-4000-8000-000000000000"), ("k", "v v")])
    time_ = gen_datetime(rng)
    return Memento(time=time_, invocation_metadata=InvocationMetadata(
        fn_reference_with_args=call, invocations=invocations, resources=resources, runtime=runtime,
        result_type=rng.choice(list(ResultType))), function_dependencies=deps, runner=runner,
        correlation_id=rng.choice(["cid", "", "é-1", None, "0123456789abcdef"]),
        content_key=None if ck is None else VersionedDataSourceKey(*ck))


def corner_mementos(W):
    """deterministic corner cases; they also serve as the fixed history that precedes every replayed case"""
    from twosigma.memento import Memento, InvocationMetadata
    from twosigma.memento.metadata import ResultType
    from twosigma.memento.reference import FunctionReferenceWithArguments as FWA, FunctionReference
    from twosigma.memento.resource import ResourceHandle
    from twosigma.memento.types import VersionedDataSourceKey as VK
    f = W.fns
    utc0 = datetime.datetime(2024, 1, 1, tzinfo=tz.utc)

    def mk(call, time_=utc0, invs=(), res=(), rt=td(seconds=1), rty=ResultType.number, deps=(), runner=None, cid="cid", ck=None):
        return Memento(time=time_, invocation_metadata=InvocationMetadata(call, None if invs is None else list(invs),
                       None if res is None else list(res), rt, rty), function_dependencies=set(deps),
                       runner={"type": "local"} if runner is None else runner, correlation_id=cid, content_key=ck)
    out = []
    # floats that compare equal to booleans, in both orders (1.0 before True; False before 0.0)
    out.append(mk(FWA(f.three.fn_reference(), (1.0, True, [False, 0.0]), {})))
    out.append(mk(FWA(f.three.fn_reference(), (1, 0, -0.0), {}), rty=ResultType.boolean))
    out.append(mk(FWA(f.one.fn_reference(), (), {"a": [True, 1, 1.0, "1", "true", None, False, 0, 0.0]})))
    # non-finite floats
    out.append(mk(FWA(f.one.fn_reference(), (float("nan"),), {})))
    out.append(mk(FWA(f.target.fn_reference(), (float("inf"),), {"y": {"k": [float("-inf")]}}, {"c": float("nan")})))
    # dates and datetimes, with and without zones
    for d in [datetime.date(2020, 1, 1), datetime.date(1, 1, 1), datetime.date(999, 12, 31), datetime.datetime(2020, 1, 1),
              datetime.datetime(2020, 1, 1, tzinfo=tz.utc), datetime.datetime(2020, 1, 1, 1, 2, 3, 4, tzinfo=tz(td(hours=-3, minutes=-30))),
              datetime.datetime(999, 1, 1, 0, 0, 0, 999999, tzinfo=tz(td(hours=14))), datetime.datetime(2020, 1, 1, tzinfo=tz(td(minutes=1))),
              datetime.datetime(2020, 1, 1, tzinfo=tz(td(minutes=-1)))]:
        out.append(mk(FWA(f.target.fn_reference(), (d,), {"y": [d, {"d": d}]}, {"when": d}),
                      time_=d if isinstance(d, datetime.datetime) else utc0, rty=ResultType.date))
    # nested function references with partial arguments
    inner = f.target.partial(1, y=[1, {"z": None}, datetime.date(2020, 1, 1)])
    ext = FunctionReference.from_qualified_name("cl::nomod:fn.x#2", partial_args=(f.one.partial(inner),), parameter_names=["p"])
    out.append(mk(FWA(f.one.partial(inner).fn_reference(), (), {}), deps=[inner.fn_reference(), ext, f.clustered.fn_reference()],
                  invs=[FWA(ext, (), {"kw": ext.memento_fn}), FWA(inner.fn_reference(), (), {})], rty=ResultType.memento_function))
    out.append(mk(FWA(ext, (), {}, {"ctx": [inner]}), invs=None, res=None, cid=None, rty=ResultType.exception))
    # content keys, resources, non-ASCII text, runtimes
    for ck in [VK("reports/2024#q1", "5f0c1d"), VK("a#b#c", ""), VK("", ""), VK("#", "x"), VK("k", "")]:
        out.append(mk(FWA(f.one.fn_reference(), ("é\u2028😀\"\\\x00",), {}), ck=ck, res=[ResourceHandle("t", "u#é", None), ResourceHandle("", "", "")],
                      rt=td(days=3, microseconds=7), runner={"type": "x", "é": [1, 2.5, None, {"y": True}]}, cid="é"))
    out.append(mk(FWA(f.kwo.partial(k=2).fn_reference(), (1,), {"m": {"type": "null", "value": [1]}, "k": 3}), rt=td(0), rty=ResultType.dictionary))
    return out


# ----------------------------------------------------------------------------------------------
# the property's oracle on the real code
# ----------------------------------------------------------------------------------------------

def same_ref(a, b):
    # structural (FunctionReference.__eq__ compares function-valued partial arguments by object identity)
    return (a.qualified_name == b.qualified_name and list(a.parameter_names) == list(b.parameter_names)
            and canon_sexpr(list(a.partial_args)) == canon_sexpr(list(b.partial_args))
            and canon_sexpr(a.partial_kwargs) == canon_sexpr(b.partial_kwargs) and a.external == b.external)


def call_diffs(a, b, where):
    d = []
    if not same_ref(a.fn_reference, b.fn_reference):
        d.append((where + ".function-reference", repr(a.fn_reference), repr(b.fn_reference)))
    if canon_sexpr(list(a.args)) != canon_sexpr(list(b.args)):
        d.append((where + ".arguments", repr(a.args), repr(b.args)))
    if canon_sexpr(a.kwargs) != canon_sexpr(b.kwargs):
        d.append((where + ".keyword-arguments", repr(a.kwargs), repr(b.kwargs)))
    if canon_sexpr(a.context_args) != canon_sexpr(b.context_args):
        d.append((where + ".context-arguments", repr(a.context_args), repr(b.context_args)))
    return d


def same_instant(a, b):
    if type(a) is not type(b) and not (isinstance(a, datetime.datetime) and isinstance(b, datetime.datetime)):
        return False
    if not isinstance(a, datetime.datetime):
        return a == b
    if (a.tzinfo is None) != (b.tzinfo is None):
        return False
    return a == b and a.utcoffset() == b.utcoffset()


def memento_diffs(m, m2):
    """field-wise equivalence of the property: returns [(field, original, decoded)]"""
    d = []
    if not same_instant(m.time, m2.time):
        d.append(("time", repr(m.time), repr(m2.time)))
    a, b = m.invocation_metadata, m2.invocation_metadata
    d += call_diffs(a.fn_reference_with_args, b.fn_reference_with_args, "call")
    if (a.invocations is None) != (b.invocations is None) or (a.invocations is not None and len(a.invocations) != len(b.invocations)):
        d.append(("invocations", repr(a.invocations)[:300], repr(b.invocations)[:300]))
    elif a.invocations is not None:
        for i, (x, y) in enumerate(zip(a.invocations, b.invocations)):
            d += call_diffs(x, y, "invocations[%d]" % i)
    if a.resources != b.resources:
        d.append(("resources", repr(a.resources), repr(b.resources)))
    if a.runtime != b.runtime:
        d.append(("runtime", repr(a.runtime), repr(b.runtime)))
    if a.result_type is not b.result_type:
        d.append(("result-type", repr(a.result_type), repr(b.result_type)))
    da, db = list(m.function_dependencies or ()), list(m2.function_dependencies or ())
    if len(da) != len(db) or not all(any(same_ref(x, y) for y in db) for x in da) or not all(any(same_ref(x, y) for x in da) for y in db):
        d.append(("dependencies", repr(da)[:300], repr(db)[:300]))
    if m.runner != m2.runner:
        d.append(("runner", repr(m.runner), repr(m2.runner)))
    if m.correlation_id != m2.correlation_id:
        d.append(("correlation-id", repr(m.correlation_id), repr(m2.correlation_id)))
    ka, kb = m.content_key, m2.content_key
    if (ka is None) != (kb is None) or (ka is not None and (ka.key != kb.key or ka.version != kb.version)):
        d.append(("content-key", repr(ka), repr(kb)))
    return d


def hash_diffs(m, m2):
    d = []
    a, b = m.invocation_metadata, m2.invocation_metadata
    pairs = [("call", a.fn_reference_with_args, b.fn_reference_with_args)]
    if a.invocations is not None and b.invocations is not None:
        pairs += [("invocations[%d]" % i, x, y) for i, (x, y) in enumerate(zip(a.invocations, b.invocations))]
    for w, x, y in pairs:
        if x.arg_hash != y.arg_hash:
            d.append((w, x.arg_hash, y.arg_hash))
    return d


class Runner:
    """runs one memento through the real codec (oracle) and queues the model lines"""

    def __init__(self, chk, W, use_model):
        from twosigma.memento.serialization import MementoCodec
        self.C = MementoCodec
        self.chk = chk
        self.W = W
        self.use_model = use_model
        self.lines = [W.cb_line()]
        self.pending = []          # (kind, info) per model line after the cb line
        self.reported = 0
        self.failed_cases = set()

    def viol(self, case_id, what, cls, **kw):
        self.failed_cases.add((case_id, cls.get("clause")))
        if self.reported < 6:
            rep = dict(what=what, case=case_id, **kw)
            rep["class"] = cls
            rep["how_to_replay"] = "cd /verif && ./check C11 --replay <this file>   (re-runs the fixed corner-case history, then case %r)" % (case_id,)
            if self.chk.violation(rep):
                self.reported += 1

    def run(self, case_id, m, sample=False):
        chk, C = self.chk, self.C
        deps = list(m.function_dependencies or ())
        try:
            msx = memento_sexpr(m, deps)
        except Exception as e:                               # the generator made something outside the value syntax
            chk.count("generator-skip")
            return
        short = msx if len(msx) < 1500 else msx[:1500] + "..."
        # ---- real encode ---------------------------------------------------------------------
        try:
            doc = C.encode_memento(m)
        except Exception as e:
            self.viol(case_id, "encode_memento raised on a memento of the domain: %r" % (e,), {"clause": "roundtrip", "stage": "encode"}, memento=short)
            return
        text, strict = None, True
        try:
            text = json.dumps(doc, allow_nan=False)
        except ValueError:
            strict = False
        except TypeError as e:
            self.viol(case_id, "the emitted document is not JSON at all: %r" % (e,), {"clause": "plain-json", "cause": "not-serialisable"}, memento=short)
            return
        nf = non_finite_paths(doc)
        if not strict:
            self.viol(case_id, "the emitted document is not plain JSON: non-finite float arguments are written as the bare tokens "
                      "NaN / Infinity / -Infinity (a strict RFC 8259 reader rejects the document)",
                      {"clause": "plain-json", "cause": "non-finite-float" if nf else "other"}, memento=short, paths=nf[:5],
                      minimal="MementoCodec.encode_arg(float('nan')) -> {'type': 'number', 'value': nan}; json.dumps(...) prints NaN")
            chk.count("non-strict-documents")
            text = json.dumps(doc)
        try:
            if strict:
                json.loads(text, parse_constant=_no_constant)
            doc2 = json.loads(text)
        except Exception as e:
            self.viol(case_id, "the emitted text does not parse as JSON: %r" % (e,), {"clause": "plain-json", "cause": "unparsable"}, memento=short, text=text[:500])
            return
        probs = schema_memento(doc2)
        if probs:
            self.viol(case_id, "the emitted document does not conform to the wire format: " + probs[0],
                      {"clause": "wire-format"}, memento=short, problems=probs[:5], text=text[:800])
        # ---- real decode + equivalence ---------------------------------------------------------
        m2 = None
        try:
            m2 = C.decode_memento(doc2)
        except Exception as e:
            self.viol(case_id, "decode_memento raised on the document encode_memento produced: %r" % (e,),
                      {"clause": "roundtrip", "stage": "decode"}, memento=short, text=text[:800])
        if m2 is not None:
            diffs = memento_diffs(m, m2)
            if diffs:
                self.viol(case_id, "decode(encode(m)) is not equivalent to m: %s differs (%s -> %s)" % diffs[0],
                          {"clause": "roundtrip", "field": diffs[0][0].split(".")[-1].split("[")[0]}, memento=short, diffs=diffs[:4], text=text[:800])
            hd = hash_diffs(m, m2)
            if hd:
                self.viol(case_id, "the argument hash recomputed from the decoded arguments differs (%s: %s -> %s)" % hd[0],
                          {"clause": "arg-hash"}, memento=short, text=text[:800])
        # ---- bookkeeping -----------------------------------------------------------------------
        im = m.invocation_metadata
        nontrivial = bool(im.fn_reference_with_args.args or im.fn_reference_with_args.kwargs or im.invocations)
        chk.case(msx, nontrivial=nontrivial, sample=dict(memento=short[:300], document=(text or "")[:300]) if sample else None)
        chk.count("mementos")
        if nf:
            chk.count("mementos-with-nan-or-inf")
        if m.content_key is not None and "#" in m.content_key.key:
            chk.count("content-keys-with-#")
        if any(r.external for r in deps) or im.fn_reference_with_args.fn_reference.external:
            chk.count("mementos-with-external-refs")
        if self.use_model:
            self.lines.append("enc " + msx)
            self.pending.append(("enc", dict(case=case_id, text=canon_text(doc), strict=strict, memento=short,
                                              hash=im.fn_reference_with_args.arg_hash, finite=not nf)))
            self.lines.append("wire " + jval_sexpr(schema_ordered(doc2)))
            self.pending.append(("wire", dict(case=case_id, schema_ok=not probs, strict=strict, memento=short)))
            self.lines.append("dec " + jval_sexpr(doc2))
            self.pending.append(("dec", dict(case=case_id, real=None if m2 is None else memento_sexpr(m2, sort_deps=True),
                                              hash=None if m2 is None else m2.invocation_metadata.fn_reference_with_args.arg_hash,
                                              memento=short)))

    def decode_foreign(self, case_id, doc, what):
        """a document the encoder did not produce (another implementation's, or a damaged one): both sides must agree"""
        try:
            m2 = self.C.decode_memento(json.loads(json.dumps(doc)))
            real = memento_sexpr(m2, sort_deps=True)
            h = m2.invocation_metadata.fn_reference_with_args.arg_hash
        except Exception as e:
            real, h = None, None
        self.chk.count("foreign-documents")
        self.chk.count("foreign-rejected" if real is None else "foreign-accepted")
        if self.use_model:
            self.lines.append("dec " + jval_sexpr(doc))
            self.pending.append(("dec", dict(case=case_id, real=real, hash=h, memento=what, foreign=True)))

    def flush(self):
        if not self.use_model or not self.pending:
            return
        outs = model_batch("codec", self.lines, timeout=1200)
        chk = self.chk
        if outs[0] != "ok":
            chk.correspondence_break("code-base", dict(model=outs[0]))
        for o, (kind, info) in zip(outs[1:], self.pending):
            if kind == "enc":
                p = o.split(" ")
                if p[0] != "doc" or len(p) < 12:
                    chk.correspondence_break("encode-doc", dict(case=info["case"], model=o[:200], memento=info["memento"]))
                    continue
                mtext = bytes.fromhex(p[1]).decode() if p[1] != "-" else ""
                flags = dict(zip(p[2:12:2], p[3:12:2]))
                if mtext != info["text"]:
                    chk.correspondence_break("encode-doc", dict(case=info["case"], real=info["text"][:1500], model=mtext[:1500], memento=info["memento"]))
                if flags.get("wf") != "1":
                    chk.correspondence_break("theorem-hypotheses", dict(case=info["case"], note="generated memento outside wfMemento", memento=info["memento"]))
                if (flags.get("strict") == "1") != info["strict"] or (flags.get("finite") == "1") != info["finite"]:
                    chk.correspondence_break("strict-json", dict(case=info["case"], model=flags, real_strict=info["strict"], memento=info["memento"]))
                if flags.get("wire") != "1":
                    chk.correspondence_break("wire-model", dict(case=info["case"], memento=info["memento"]))
                key = flags.get("key", "err")
                if key == "err" or hashlib.sha256(bytes.fromhex(key) if key != "-" else b"").hexdigest() != info["hash"]:
                    chk.correspondence_break("arg-hash", dict(case=info["case"], memento=info["memento"], real_hash=info["hash"]))
            elif kind == "wire":
                want = ("1" if info["schema_ok"] else "0") + " " + ("1" if info["strict"] else "0")
                if o != want:
                    chk.correspondence_break("wire-on-real-document", dict(case=info["case"], lean_wire_strict=o, python_schema_strict=want, memento=info["memento"]))
            elif kind == "dec":
                if info["real"] is None:
                    if o != "err":
                        chk.correspondence_break("decode-rejects", dict(case=info["case"], model=o[:300], what=info["memento"]))
                    continue
                if not o.startswith("ok "):
                    chk.correspondence_break("decode", dict(case=info["case"], model=o[:300], real=info["real"][:1500], what=info["memento"]))
                    continue
                body, _, key = o[3:].rpartition(" key ")
                if body != info["real"]:
                    chk.correspondence_break("decode", dict(case=info["case"], model=body[:1500], real=info["real"][:1500], what=info["memento"]))
                elif key == "err" or hashlib.sha256(bytes.fromhex(key) if key != "-" else b"").hexdigest() != info["hash"]:
                    chk.correspondence_break("arg-hash-decoded", dict(case=info["case"], what=info["memento"], real_hash=info["hash"]))
        self.lines = [self.W.cb_line()]
        self.pending = []


# ----------------------------------------------------------------------------------------------
# foreign / damaged documents
# ----------------------------------------------------------------------------------------------

def foreign_variants(rng, doc):
    """(description, document) pairs obtained from a real document by one edit each"""
    out = []

    def clone():
        return json.loads(json.dumps(doc))

    def typed_nodes(node, acc):
        if isinstance(node, dict):
            if "type" in node and set(node) <= {"type", "value"}:
                acc.append(node)
                v = node.get("value")
                if node["type"] in ("list_result", "dictionary", FNREF_TAG):
                    typed_nodes(v, acc)
            else:
                for v in node.values():
                    typed_nodes(v, acc)
        elif isinstance(node, list):
            for v in node:
                typed_nodes(v, acc)
        return acc
    d = clone()
    top_field = rng.choice(sorted(d))
    del d[top_field]
    out.append(("top-level field %s missing" % top_field, d))
    d = clone()
    f = rng.choice(sorted(d["invocationMetadata"]))
    del d["invocationMetadata"][f]
    out.append(("invocationMetadata.%s missing" % f, d))
    d = clone()
    f = rng.choice(sorted(d["invocationMetadata"]["fnReferenceWithArgs"]))
    del d["invocationMetadata"]["fnReferenceWithArgs"][f]
    out.append(("call field %s missing" % f, d))
    for f in ("args", "kwargs", "contextArgs"):
        d = clone()
        d["invocationMetadata"]["fnReferenceWithArgs"][f] = None
        out.append(("call.%s null" % f, d))
    for f in ("partialArgs", "partialKwargs", "parameterNames"):
        d = clone()
        d["invocationMetadata"]["fnReferenceWithArgs"]["fnReference"][f] = None
        out.append(("reference.%s null" % f, d))
    d = clone()
    d["functionDependencies"] = None
    out.append(("functionDependencies null", d))
    d = clone()
    d["functionDependencies"] = d["functionDependencies"] + d["functionDependencies"]
    out.append(("functionDependencies duplicated", d))
    d = clone()
    d["invocationMetadata"]["invocations"] = None
    d["invocationMetadata"]["resources"] = None
    out.append(("invocations and resources null", d))
    d = clone()
    d["time"] = "2021-03-04"
    out.append(("date-only time", d))
    d = clone()
    d["time"] = "2021-03-04T05:06:07+00:00"
    out.append(("time with +00:00 instead of Z", d))
    d = clone()
    d["invocationMetadata"]["resultType"] = rng.choice(["nope", "", "Number", "list"])
    out.append(("unknown result type", d))
    d = clone()
    d["invocationMetadata"]["runtimeSeconds"] = rng.choice([0, 2, 86400, 123456789])
    out.append(("integer runtime", d))
    d = clone()
    d["invocationMetadata"]["runtimeSeconds"] = float("nan")
    out.append(("NaN runtime", d))
    d = clone()
    d["contentKey"] = rng.choice(["nohash", "", "a#b#c#d", "#", "##"])
    out.append(("content key %r" % d["contentKey"], d))
    for _ in range(4):
        d = clone()
        nodes = typed_nodes(d["invocationMetadata"], [])
        if not nodes:
            break
        n = rng.choice(nodes)
        edit = rng.choice(["tag-unknown", "tag-empty", "drop-value", "swap-date", "retag-prim", "not-a-dict"])
        if edit == "tag-unknown":
            n["type"] = rng.choice(["foo", "binary2", "Boolean", "list"])
        elif edit == "tag-empty":
            n["type"] = ""
        elif edit == "drop-value":
            if "value" not in n:
                continue
            del n["value"]
        elif edit == "swap-date":
            if n["type"] not in ("date", "timestamp"):
                continue
            n["type"] = "date" if n["type"] == "timestamp" else "timestamp"
        elif edit == "retag-prim":
            if n["type"] not in ("boolean", "number", "string"):
                continue
            n["type"] = rng.choice(["boolean", "number", "string"])
        else:
            if n["type"] != "list_result" or not n["value"]:
                continue
            n["value"][0] = "plain"
        out.append(("typed node edit " + edit, d))
    return out


# ----------------------------------------------------------------------------------------------
# leaf codecs
# ----------------------------------------------------------------------------------------------

def leaf_streams(chk, rng, proof_ok, quick, failed=None):
    from twosigma.memento.serialization import MementoCodec as C
    from twosigma.memento.types import VersionedDataSourceKey as VK
    reported = 0
    failed = set() if failed is None else failed

    def violation(rep):
        failed.add((rep["case"], rep["class"].get("clause")))
        rep["how_to_replay"] = "cd /verif && ./check C11 --replay <this file>   (re-runs the leaf codec streams)"
        chk.violation(rep)
    # versioned keys: exhaustive over a small alphabet + interesting ones
    alpha = ["a", "#", "/"]
    keys = [""]
    for n in range(1, 4 if quick else 5):
        keys += ["".join(p) for p in __import__("itertools").product(alpha, repeat=n)]
    versions = ["", "v", "9f1c2b3a-0000-4000-8000-000000000000", "é"]
    lines, meta = [], []
    for k in keys + ["reports/2024#q1", "clé#😀"]:
        for v in versions:
            wire = C.encode_versioned_data_source_key(VK(k, v))
            back = C.decode_versioned_data_source_key(json.loads(json.dumps(wire)))
            chk.count("versioned-keys")
            if (back.key, back.version) != (k, v) and reported < 3:
                reported += 1
                violation({"what": "content key %r (version %r) decodes as key %r version %r" % (k, v, back.key, back.version),
                               "class": {"clause": "roundtrip", "field": "content-key"}, "case": "vkey", "key": k, "version": v, "wire": wire})
            lines += ["vkenc %s %s" % (hx(k), hx(v)), "vkdec " + hx(wire)]
            meta.append((k, v, wire, back))
    # texts without '#' and with '#' in the version: what the decoder makes of them (model vs real)
    for s in ["", "x", "abc", "#", "a#", "#b", "a#b#", "a##b", "é"]:
        back = C.decode_versioned_data_source_key(s)
        lines += ["vkenc - -", "vkdec " + hx(s)]
        meta.append((None, None, s, back))
    if proof_ok:
        outs = model_batch("codec", lines)
        for i, (k, v, wire, back) in enumerate(meta):
            if k is not None and outs[2 * i] != hx(wire):
                chk.correspondence_break("versioned-key-encode", dict(key=k, version=v, real=wire, model=outs[2 * i]))
            hxo = lambda t: "~none~" if t is None else hx(t)         # (a decoder that yields None for a part: shown, not a crash)
            if outs[2 * i + 1] != hxo(back.key) + " " + hxo(back.version):
                chk.correspondence_break("versioned-key-decode", dict(text=wire, real=[back.key, back.version], model=outs[2 * i + 1]))
    # datetime texts
    dts = []
    for y in [1, 999, 1000, 2024, 9999]:
        for (mo, da) in [(1, 1), (12, 31), (2, 28), (10, 10)]:
            dts.append(datetime.date(y, mo, da))
            for t in [(0, 0, 0, 0), (23, 59, 59, 999999), (1, 2, 3, 0), (0, 0, 0, 1)]:
                for z in [None, tz.utc, tz(td(minutes=1)), tz(td(minutes=-1)), tz(td(hours=5, minutes=30)), tz(td(hours=-12)), tz(td(hours=14)), tz(td(0), "Z")]:
                    if z is not None and z is not tz.utc and y in (1, 9999):
                        continue
                    dts.append(datetime.datetime(y, mo, da, *t, tzinfo=z))
    for _ in range(100 if quick else 3000):
        dts.append(gen_datetime(rng))
    lines, meta = [], []
    reported = 0
    for d in dts:
        e = C.encode_datetime(d)
        b = C.decode_datetime(json.loads(json.dumps(e)))
        chk.count("datetime-texts")
        ok = type(b) is type(d) or (isinstance(d, datetime.datetime) and isinstance(b, datetime.datetime))
        if not (ok and same_instant(d, b) and b.isoformat() == d.isoformat()) and reported < 3:
            reported += 1
            violation({"what": "%r is written as %r and read back as %r" % (d, e, b), "class": {"clause": "roundtrip", "field": "time"},
                           "case": "datetime", "value": repr(d), "text": e})
        lines += ["dtenc " + hx(d.isoformat()), "dtdec " + hx(e)]
        meta.append((d, e, b))
    if proof_ok:
        outs = model_batch("codec", lines)
        for i, (d, e, b) in enumerate(meta):
            if outs[2 * i] != hx(e):
                chk.correspondence_break("datetime-encode", dict(value=repr(d), real=e, model=outs[2 * i]))
            if outs[2 * i + 1] != to_sexpr(b):
                chk.correspondence_break("datetime-decode", dict(text=e, real=to_sexpr(b), model=outs[2 * i + 1]))
        names = model_batch("codec", ["names"])[0].split(" ")
        from twosigma.memento.metadata import ResultType
        if names != [r.name for r in ResultType] or names != WIRE_RESULT_TYPES:
            chk.correspondence_break("result-type-names", dict(model=names, real=[r.name for r in ResultType]))
    from twosigma.memento.metadata import ResultType
    if [r.name for r in ResultType] != WIRE_RESULT_TYPES:
        violation({"what": "the result type wire names changed: %s" % sorted(set(r.name for r in ResultType) ^ set(WIRE_RESULT_TYPES)),
                       "class": {"clause": "wire-format", "field": "result-type-names"}, "case": "names"})


# ----------------------------------------------------------------------------------------------
# memento files written by the filesystem backend
# ----------------------------------------------------------------------------------------------

def fs_stream(chk, R, W):
    import twosigma.memento as m
    from twosigma.memento import Environment, ConfigurationRepository, FunctionCluster
    from twosigma.memento.storage_filesystem import FilesystemStorageBackend
    f = W.fns
    base = os.path.join(chk.tmpdir(), "fs")
    os.makedirs(base, exist_ok=True)
    orig = m.Environment.get()
    m.Environment.set(Environment(name="c11", base_dir=base, repos=[ConfigurationRepository(name="r", clusters={
        "default": FunctionCluster(name="default", storage=FilesystemStorageBackend(path=os.path.join(base, "data")))})]))
    try:
        when = datetime.datetime(2021, 5, 6, 7, 8, 9, 10, tzinfo=tz(td(hours=-3, minutes=-30)))
        calls = [
            (f.top, (1.0, True), dict(when=when, fn=f.leaf.partial(w=[0.0, False]))),
            (f.top, ("é😀", None), dict(when=datetime.date(2020, 2, 29))),
            (f.top, ([1, [2.5, {"k": None}]], {"a": datetime.datetime(2020, 1, 1, tzinfo=tz.utc)}), {}),
            (f.keyed, (2024, 1), {}),
            (f.leaf, (float("inf"),), dict(w=float("nan"))),
            (f.leaf, (2 ** 70,), dict(w=-0.0)),
        ]
        for fn, a, kw in calls:
            fn(*a, **kw)
        try:
            f.failing("x")
        except Exception:
            pass
        calls.append((f.failing, ("x",), {}))
        n = 0
        for fn, a, kw in calls + [(f.mid, (1.0,), {}), (f.leaf, (1.0,), {}), (f.leaf, (True,), {})]:
            mem = fn.memento(*a, **kw)
            if mem is None:
                chk.count("fs-memento-missing")
                continue
            n += 1
            R.run("fs/%d" % n, mem, sample=(n == 1))
        # the files themselves
        files = []
        for d, _, fs in os.walk(base):
            for x in fs:
                if x.endswith(".memento.json"):
                    files.append(os.path.join(d, x))
        seen = 0
        for p in sorted(files):
            try:
                txt = open(p, "rb").read().decode("utf-8")
            except Exception:
                continue
            try:
                doc = json.loads(txt)
            except Exception:
                continue
            if not (isinstance(doc, dict) and "invocationMetadata" in doc):
                continue
            seen += 1
            chk.count("fs-memento-files")
            strict = True
            try:
                json.loads(txt, parse_constant=_no_constant)
            except ValueError:
                strict = False
            nf = non_finite_paths(doc)
            if not strict:
                R.viol("fs-file", "a memento file written by the filesystem backend is not plain JSON (bare NaN / Infinity tokens)",
                       {"clause": "plain-json", "cause": "non-finite-float" if nf else "other"}, file=os.path.relpath(p, base), paths=nf[:5])
            probs = schema_memento(doc)
            if probs:
                R.viol("fs-file", "a memento file written by the filesystem backend does not conform to the wire format: " + probs[0],
                       {"clause": "wire-format"}, file=os.path.relpath(p, base), problems=probs[:5], text=txt[:800])
            R.decode_foreign("fs-file/%d" % seen, doc, "file " + os.path.relpath(p, base))
        if seen == 0:
            chk.correspondence_break("fs-files", dict(note="no memento file found under the filesystem store", files=[os.path.relpath(x, base) for x in files][:10]))
    finally:
        m.Environment.set(orig)


# ----------------------------------------------------------------------------------------------

def leaf_pair_mementos(W, L):
    from twosigma.memento import Memento, InvocationMetadata
    from twosigma.memento.metadata import ResultType
    from twosigma.memento.reference import FunctionReferenceWithArguments as FWA
    k = 0
    for a in L:
        for b in L:
            call = FWA(W.fns.target.fn_reference(), (a,), {"y": b})
            yield k, Memento(time=datetime.datetime(2024, 1, 1, tzinfo=tz.utc), invocation_metadata=InvocationMetadata(
                call, [], [], td(seconds=1), ResultType.number), function_dependencies=set(), runner={}, correlation_id="c", content_key=None)
            k += 1


def run_other_tz(chk, W):
    R2 = Runner(chk, W, use_model=False)
    if hasattr(time, "tzset"):
        old = os.environ.get("TZ")
        try:
            os.environ["TZ"] = "America/St_Johns"
            time.tzset()
            corners = corner_mementos(W)
            for i, m in enumerate(corners):
                R2.run("corner-tz/%d" % i, m)
            chk.count("corner-cases-under-other-TZ", len(corners))
        finally:
            if old is None:
                os.environ.pop("TZ", None)
            else:
                os.environ["TZ"] = old
            time.tzset()
    return R2


def case_rng(seed, tier, i):
    import random
    return random.Random("C11/%s/%s/%d" % (seed, tier, i))


def main(chk, replay=None):
    W = World()
    L = W.leaves()
    if replay is not None:
        case = replay.get("case")
        clause = replay.get("class", {}).get("clause")
        R = Runner(chk, W, use_model=False)
        failed = R.failed_cases
        for i, m in enumerate(corner_mementos(W)):          # the fixed history that precedes every case
            R.run("corner/%d" % i, m)
        if isinstance(case, str) and case.startswith("gen/"):
            _, seed, tier, i = case.split("/")
            R.run(case, gen_memento(case_rng(int(seed), tier, int(i)), W, L))
        elif isinstance(case, str) and case.startswith("pair/"):
            for k, mm in leaf_pair_mementos(W, L):
                if "pair/%d" % k == case:
                    R.run(case, mm)
        elif case in ("vkey", "datetime", "names"):
            leaf_streams(chk, chk.rng, False, True, failed)
        elif isinstance(case, str) and case.startswith("fs"):
            fs_stream(chk, R, W)
        elif isinstance(case, str) and case.startswith("corner-tz/"):
            failed = run_other_tz(chk, W).failed_cases
        still = (case, clause) in failed
        print(json.dumps(dict(case=case, clause=clause, still_fails=bool(still))))
        return 1 if still else 0

    chk.rule = ("mementos built from the real classes: call = (local | external) function reference with partial positional/keyword "
                "arguments x positional prefix x keyword subset (incl. overriding and **kw names) x context args; values = trees "
                "(depth <= 3) over None/bool/int (2^70)/float (NaN, +-inf, -0.0, subnormal, 1e22)/str (escapes, non-BMP, '#', 'Z')/"
                "date/naive+UTC+offset datetimes (years 1..9999, microseconds)/list/dict (keys 'type','value',...)/nested function "
                "references with partials; invocation lists (None, duplicates), resource handles (None fields, non-ASCII), runtimes, every "
                "result type, dependency sets, runner dicts, correlation ids, content keys (None, '#' in key, empty version). "
                "Distinct = distinct canonical memento; non-trivial = has arguments or invocations. Plus: foreign/damaged documents "
                "(one edit each), exhaustive versioned keys over {a,#,/}^<=4, datetime texts, memento files of a real filesystem store.")
    chk.assumptions += [
        "json.dumps/json.loads on primitives, float repr, datetime.isoformat, dateutil parsing of the texts encode_datetime writes, "
        "timedelta(seconds=total_seconds()) and hashlib.sha256 are below the model; the correspondence streams exercise them",
        "qualified names are opaque tokens (parsing/rebuilding them is property C12); the code base is the table of the harness's own functions",
        "function_dependencies is a Python set: the model lists it in the set's iteration order, equality is as sets",
    ]
    proof_ok = chk.build_and_audit()
    import gen_tables
    gen_tables.attach(chk, "C11Tables")
    quick = chk.tier == "quick"
    rng = chk.rng
    R = Runner(chk, W, use_model=proof_ok)
    t0 = time.time()
    # ---- stream 0: leaf codecs -------------------------------------------------------------------
    leaf_streams(chk, rng, proof_ok, quick)
    # ---- stream 1: corner cases ------------------------------------------------------------------
    corners = corner_mementos(W)
    for i, m in enumerate(corners):
        R.run("corner/%d" % i, m, sample=(i in (0, 14)))
    R.flush()
    # ---- stream 2: filesystem store --------------------------------------------------------------
    fs_stream(chk, R, W)
    R.flush()
    # ---- stream 3: generated mementos + foreign documents -----------------------------------------
    n = 1200 if quick else 30000
    budget = 45 if quick else 480
    done = 0
    for i in range(n):
        if time.time() - t0 > budget:
            chk.notes.append("time budget reached after %d of %d generated mementos" % (i, n))
            break
        r = case_rng(chk.seed, chk.tier, i)
        try:
            m = gen_memento(r, W, L)
        except Exception as e:
            chk.count("generator-rejected:" + type(e).__name__)
            continue
        R.run("gen/%d/%s/%d" % (chk.seed, chk.tier, i), m, sample=(i == 0))
        done += 1
        if i % (4 if quick else 6) == 0:
            try:
                doc = json.loads(json.dumps(R.C.encode_memento(m)))
                for j, (what, d) in enumerate(foreign_variants(r, doc)):
                    R.decode_foreign("foreign/%d/%d" % (i, j), d, what)
            except Exception:
                chk.count("foreign-skip")
        if len(R.pending) > 3000:
            R.flush()
    R.flush()
    # ---- thorough: exhaustive pairs of leaves as arguments ---------------------------------------
    if not quick:
        k = 0
        for k, mm in leaf_pair_mementos(W, L):
            if time.time() - t0 > budget + 90:
                break
            R.run("pair/%d" % k, mm)
            if len(R.pending) > 3000:
                R.flush()
        R.flush()
        chk.count("exhaustive-leaf-pairs", k + 1)
    # a second time zone for the process: 'Z' must still mean UTC
    run_other_tz(chk, W)
    chk.extra["generated_mementos"] = done


if __name__ == "__main__":
    sys.exit(run_check(PROP, main, sys.argv[1:]))
