"""C01 — memoized results are never stale with respect to code and data changes.

Lean: Model/Version.lean + Props/C01.lean (equal version ⇒ equal closure ⇒ equal meaning).
Oracle: generated programs and edit histories; every edition is executed memoized (against one
persistent filesystem store carried through the whole history) and un-memoized (null storage);
the memoized result must equal the un-memoized one or be the undeclared-dependency error.
Editions are delivered cross-process (fresh interpreter per edition) and in-process (definitions
re-executed / module attributes rebound in one interpreter).
"""
import json
import os
import shutil
import sys
import tempfile

import common
from common import run_check
import vmodel
import vprogs
import vrun

PROP = "C01"


def judge(edition_idx, fn, memo, unmemo):
    """memo / unmemo: vchild call records"""
    if not isinstance(memo, dict) or "error" in memo:
        return dict(clause="call-runs", edition=edition_idx, fn=fn, error=memo)
    m, u = memo["result"], unmemo["result"] if isinstance(unmemo, dict) and "result" in unmemo else None
    if m[0] == "raise" and m[1] == "UndeclaredDependencyError":
        return None
    if u is not None and u[0] == "raise" and m[0] == "raise":
        return None                      # both fail (e.g. the un-memoized run hits the same refusal deeper down)
    if m != u:
        return dict(clause="never-stale", edition=edition_idx, fn=fn, memoized=m, unmemoized=u)
    return None


# ---- hand-written edit histories (package layouts the generator does not produce) -----------------------------------------
_HDR = "from twosigma.memento import memento_function\nimport vrec\n"


def _mfn(name, body, deco='cluster="vp"'):
    return '@memento_function(%s)\ndef %s(x):\n    vrec.REC.enter(%r, x)\n    return %s\n' % (deco, name, name, body)


def raw_histories():
    out = []
    # a memento function defined in the package's __init__.py; the plain helper it uses lives in a sub-module and is edited
    init = _HDR + "from . import aux\n\n\n" + _mfn("m1", "aux.with_fee(x) * 2")
    out.append(dict(name="memento-function-in-package-init", ms=["m1"], editions=[
        {"__init__.py": init, "aux.py": "def with_fee(a):\n    return a + %d\n" % k, "mod.py": "from . import m1\n"} for k in (5, 7, 5, 9)]))
    # a hidden call (through a plain helper) to an explicitly versioned callee whose body and version string are edited
    def hid(ver, val):
        return {"aux.py": _HDR, "mod.py": _HDR + "\n\n" + _mfn("m1", str(val), 'cluster="vp", version="%s"' % ver) +
                "\n\ndef price(x):\n    return globals()['m' + '1'](x)\n\n\n" + _mfn("m2", "price(x) * x")}
    out.append(dict(name="hidden-call-to-explicitly-versioned-callee", ms=["m2"], editions=[hid("1", 4), hid("2", 6), hid("3", 4)]))
    # variables of the same name in two modules of one named cluster, edited in turn
    def two(ra, rm):
        # (both readers are memento functions of the named cluster: their rule parents carry the cluster name)
        return {"aux.py": _HDR + "RATE = %d\n\n\n" % ra + _mfn("a1", "x * RATE") + "\n\ndef fee(a):\n    return a * RATE\n",
                "mod.py": _HDR + "from . import aux\nRATE = %d\n\n\n" % rm + _mfn("m1", "[aux.a1(x), aux.fee(x), x * RATE]") + "\n\n" + _mfn("m2", "m1(x)")}
    out.append(dict(name="same-variable-name-in-two-modules", ms=["m1", "m2"], editions=[two(2, 3), two(2, 5), two(4, 5), two(4, 3), two(2, 3), two(6, 3)]))
    return out


RAW_INPROC = [
    dict(name="declared-dependency-redefined-in-process", ms=["m1", "m2"],
         files={"aux.py": _HDR, "mod.py": _HDR + "\n\n" + _mfn("g", "x + 1") + "\n\n" +
                _mfn("m1", "globals()['g'](x) * 10", 'cluster="vp", dependencies=[g]') + "\n\n" + _mfn("m2", "[m1(x), g(x)]")},
         edits=[_mfn("g", "x + 2"), _mfn("g", "x + 3"), _mfn("g", "x + 1")]),
]


def raw_in_process(hist, root):
    """a hand-written program; definitions are executed again, with other code, in the running process; after each of them every
    memento function returns what an un-memoized run of the program as it is now returns"""
    import c03
    store = os.path.join(root, "store")
    sub = os.path.join(root, "ip")
    os.makedirs(sub)
    c03.write_raw(dict(files=hist["files"]), sub, "vpk")
    acts = [["import"]]
    marks = []
    for i in range(len(hist["edits"]) + 1):
        if i > 0:
            acts.append(["exec", "mod", hist["edits"][i - 1]])
        for n in hist["ms"]:
            acts += [["call", n, 2], ["unmemo", n, 2]]
            marks.append((i, n, len(acts) - 2))
    out = vrun.child(dict(root=sub, pkg="vpk", store=store, actions=acts))
    if out[0] != "ok":
        return [dict(clause="program-imports", edition=0, error=out[0])]
    fails = []
    for i, n, k in marks:
        f = judge(i, n, out[k], out[k + 1])
        if f:
            fails.append(f)
    return fails


def raw_cross_process(hist, root):
    import c03
    store = os.path.join(root, "store")
    fails = []
    for i, files in enumerate(hist["editions"]):
        sub = os.path.join(root, "ed%d" % i)
        os.makedirs(sub)
        c03.write_raw(dict(files=files), sub, "vpk")
        acts = [["import"]]
        for n in hist["ms"]:
            acts += [["call", n, 2], ["unmemo", n, 2]]
        out = vrun.child(dict(root=sub, pkg="vpk", store=store, actions=acts), hashseed=i % 3)
        if out[0] != "ok":
            fails.append(dict(clause="program-imports", edition=i, error=out[0]))
            break
        for j, n in enumerate(hist["ms"]):
            f = judge(i, n, out[1 + 2 * j], out[2 + 2 * j])
            if f:
                fails.append(f)
    return fails


def cross_process(editions, root, xs=(2,)):
    store = os.path.join(root, "store")
    fails, log = [], []
    for i, prog in enumerate(editions):
        sub = os.path.join(root, "ed%d" % i)
        vprogs.write_package(prog, sub, "vpk")
        ms = [n for n in prog["order"] if n[0] == "m"]
        acts = [["import"], ["versions"]]
        argsof = lambda n: ([2 + i] if n in prog.get("fresh_args", []) else xs)
        for n in ms:
            for x in argsof(n):
                acts += [["call", n, x], ["unmemo", n, x]]
        out = vrun.child(dict(root=sub, pkg="vpk", store=store, actions=acts), hashseed=i % 3)
        if out[0] != "ok":
            fails.append(dict(clause="program-imports", edition=i, error=out[0]))
            break
        log.append(out[1])
        j = 2
        for n in ms:
            for x in argsof(n):
                f = judge(i, n, out[j], out[j + 1])
                if f:
                    fails.append(f)
                j += 2
    return fails, log


def model_partition(editions, log):
    """correspondence with the Lean model: over the whole history, two (edition, function) pairs have the same real
    version iff the model gives them the same version (the model digests exactly the tracked closure)."""
    vm = vmodel.VModel()
    try:
        pairs = []
        for i, (prog, vers) in enumerate(zip(editions, log)):
            vm.load(prog, order="id" if i % 2 == 0 else "rev")
            for n in sorted(vers):
                if n in prog["defs"] and not str(vers[n]).startswith("err:"):
                    pairs.append(("ed%d:%s" % (i, n), n + "#" + vers[n], n + "#" + vm.ver(n)))
        return vmodel.partition_mismatches(pairs), len(pairs)
    finally:
        vm.close()


def event_actions(prev, cur):
    """in-process delivery of the edit prev -> cur: re-execute changed definitions / rebind changed variables"""
    acts = []
    for name in cur["order"]:
        a, b = prev["defs"].get(name), cur["defs"][name]
        if a == b:
            continue
        if b["kind"] == "var":
            va, vb = (a or {}).get("value"), b["value"]
            if isinstance(va, list) and isinstance(vb, list) and len(vb) == len(va) + 1 and vb[:-1] == va and isinstance(vb[-1], int):
                acts.append(["mutate", b["where"], name, vb[-1]])             # the list is appended to in place (same object)
            elif isinstance(va, dict) and isinstance(vb, dict) and len(vb) == len(va) + 1 and all(vb.get(k) == v for k, v in va.items()) \
                    and [k for k in vb if k not in va][0] == "k%s" % vb[[k for k in vb if k not in va][0]]:
                acts.append(["mutate", b["where"], name, vb[[k for k in vb if k not in va][0]]])   # a key is added in place
            else:
                acts.append(["setvar", b["where"], name, vprogs._lit(b["value"])])
        else:
            acts.append(["exec", b["where"], vprogs.render_def(name, b, cur, "vpk")])
            # every alias name currently bound to the redefined function is re-bound to the new object
            amap = cur.get("alias_map", {})
            used = {t for od in cur["defs"].values() if od["kind"] != "var" for t, f in od["refs"] if f == "alias"}
            for t in sorted(used):
                if amap.get(t, t) == name and t in cur["defs"] and cur["defs"][t]["where"] == b["where"]:
                    acts.append(["exec", b["where"], "a_%s = %s\n" % (t, name)])
    # alias names bound to another function by this edit (the functions themselves are unchanged)
    pmap, cmap = prev.get("alias_map", {}), cur.get("alias_map", {})
    for t in sorted(set(pmap) | set(cmap)):
        if pmap.get(t, t) != cmap.get(t, t) and t in cur["defs"] and cmap.get(t, t) in cur["defs"]:
            line = ["exec", cur["defs"][t]["where"], "a_%s = %s\n" % (t, cmap.get(t, t))]
            if line not in acts:
                acts.append(line)
    return acts


def in_process(editions, root, xs=(2,)):
    store = os.path.join(root, "store")
    sub = os.path.join(root, "ip")
    vprogs.write_package(editions[0], sub, "vpk")
    acts = [["import"]]
    marks = []
    for i, prog in enumerate(editions):
        if i > 0:
            acts += event_actions(editions[i - 1], prog)
        ms = [n for n in prog["order"] if n[0] == "m"]
        if i % 2 == 1:
            ms = list(reversed(ms))          # callers first: the callees are first reached from inside a running body
        for n in ms:
            # functions listed under "fresh_args" (explicitly versioned roots whose version string the user leaves alone)
            # are called with an argument no earlier edition used: their body runs and reaches its callees from inside
            for x in ([2 + i] if n in prog.get("fresh_args", []) else xs):
                if i % 2 == 1 and prog["defs"][n].get("explicit") is None:
                    # the call is first made through a modifier clone created just now, then directly
                    acts += [["clone", "cl%d_%s" % (i, n), n, "force_local"], ["call", "cl%d_%s" % (i, n), x]]
                marks.append((i, n, len(acts)))
                acts += [["call", n, x], ["unmemo", n, x]]
    out = vrun.child(dict(root=sub, pkg="vpk", store=store, actions=acts))
    fails = []
    for (i, n, j) in marks:
        f = judge(i, n, out[j], out[j + 1])
        if f:
            f["delivery"] = "in-process"
            fails.append(f)
    return fails


def edit_feature(prev, cur):
    """which abstract feature of which kind of definition differs (for classification)"""
    feats = []
    for name in cur["order"]:
        a, b = prev["defs"].get(name), cur["defs"][name]
        if a == b:
            continue
        if b["kind"] == "var":
            feats.append("var-value")
            continue
        for k in list(vprogs.FEATS) + ["refs", "explicit"]:
            if a is None or a.get(k) != b.get(k):
                feats.append("%s:%s" % (b["kind"], k))
    return sorted(set(feats))


def _fn(kind, refs, **kw):
    d = dict(kind=kind, where="mod", const=1, setc=None, tup=None, dflt=None, kwd=None, lam=None, nest=None, gx=None, dcall=None, refs=refs)
    if kind == "memento":
        d["explicit"] = None
    else:
        d["wrapped"] = False
    d.update(kw)
    return d


def corpus():
    """hand-written histories (minimised past findings and shapes the generator reaches rarely)"""
    out = []
    # a variable / helper referenced only inside the arguments of a call whose result is dereferenced
    p0 = dict(defs={"V1": dict(kind="var", where="mod", value=3), "h1": _fn("plain", []),
                    "m1": _fn("memento", [["V1", "chained"], ["h1", "chained"]])}, order=["V1", "h1", "m1"])
    p1 = json.loads(json.dumps(p0)); p1["defs"]["V1"]["value"] = 5
    p2 = json.loads(json.dumps(p1)); p2["defs"]["h1"]["const"] = 9
    out.append([p0, p1, p2])
    # defaults and keyword-only defaults of a plain helper and of a memento dependency; set constants
    q0 = dict(defs={"h1": _fn("plain", [], dflt=1, kwd=5), "m1": _fn("memento", [["h1", "bare"]], dflt=1, setc=["a", "b"]),
                    "m2": _fn("memento", [["m1", "bare"], ["h1", "alias"]])}, order=["h1", "m1", "m2"])
    q1 = json.loads(json.dumps(q0)); q1["defs"]["h1"]["dflt"] = 2
    q2 = json.loads(json.dumps(q1)); q2["defs"]["m1"]["kwd"] = 6
    q3 = json.loads(json.dumps(q2)); q3["defs"]["m1"]["setc"] = ["a", "c"]
    q4 = json.loads(json.dumps(q3)); q4["defs"]["h1"]["kwd"] = 6
    out.append([q0, q1, q2, q3, q4])
    # a dependency reached only through another memento function / a plain helper (depth 2), variable edited
    r0 = dict(defs={"V1": dict(kind="var", where="aux", value=[1, 2]), "h1": _fn("plain", [["V1", "bare"]], where="aux"),
                    "m1": _fn("memento", [["h1", "bare"]]), "m2": _fn("memento", [["m1", "bare"]]), "m3": _fn("memento", [["m2", "bare"]])},
              order=["V1", "h1", "m1", "m2", "m3"])
    r1 = json.loads(json.dumps(r0)); r1["defs"]["V1"]["value"] = [2, 1]
    r2 = json.loads(json.dumps(r1)); r2["defs"]["h1"]["lam"] = 2
    out.append([r0, r1, r2])
    # F17 (was K1): explicit version strings of two dependencies re-split ("1","23" -> "12","3") with both bodies edited
    k0 = dict(defs={"m1": _fn("memento", [], explicit="1"), "m2": _fn("memento", [], explicit="23"),
                    "m3": _fn("memento", [["m1", "bare"], ["m2", "bare"]])}, order=["m1", "m2", "m3"])
    k1 = json.loads(json.dumps(k0)); k1["defs"]["m1"].update(const=2, explicit="12"); k1["defs"]["m2"].update(const=2, explicit="3")
    out.append([k0, k1])
    # F23: explicit version digests did not name their function: m3 "1" -> m4 "2" -> m3 replaced by m3 "2" -> m1 "1" -> m1
    # (m3 rewritten and bumped, m4 dropped, a new function m1 whose name sorts first): the same digests in the same order
    e0 = dict(defs={"m2": _fn("memento", [["m3", "bare"]]), "m3": _fn("memento", [["m4", "bare"]], explicit="1"),
                    "m4": _fn("memento", [["m3", "bare"]], explicit="2", const=2)}, order=["m3", "m4", "m2"])
    e1 = dict(defs={"m1": _fn("memento", [["m1", "bare"]], explicit="1", const=5), "m2": _fn("memento", [["m3", "bare"]]),
                    "m3": _fn("memento", [["m1", "bare"]], explicit="2", const=7)}, order=["m1", "m3", "m2"])
    out.append([e0, e1])
    # defaults of functions under a functools.wraps decorator (plain helper, and a memento function stacked on one)
    w0 = dict(defs={"h1": _fn("plain", [], dflt=1, kwd=5, wrapped=True), "m1": _fn("memento", [["h1", "bare"]], dflt=1, kwd=5, wrapped=True),
                    "m2": _fn("memento", [["m1", "bare"]])}, order=["h1", "m1", "m2"])
    w1 = json.loads(json.dumps(w0)); w1["defs"]["h1"]["dflt"] = 2
    w2 = json.loads(json.dumps(w1)); w2["defs"]["m1"]["kwd"] = 6
    w3 = json.loads(json.dumps(w2)); w3["defs"]["h1"]["kwd"] = 6; w3["defs"]["m1"]["dflt"] = 3
    out.append([w0, w1, w2, w3])
    # an explicitly versioned root whose body calls an automatically versioned function; a variable beneath it is re-bound
    # (the callee is reached from inside the running root before anyone asks it directly)
    x0 = dict(defs={"V1": dict(kind="var", where="mod", value=3), "h1": _fn("plain", [["V1", "bare"]]), "m1": _fn("memento", [["h1", "bare"], ["V1", "bare"]]),
                    "m2": _fn("memento", [["m1", "bare"]], explicit="r1")}, order=["V1", "h1", "m1", "m2"])
    x1 = json.loads(json.dumps(x0)); x1["defs"]["V1"]["value"] = 5; x1["defs"]["m2"]["explicit"] = "r2"
    x2 = json.loads(json.dumps(x1)); x2["defs"]["h1"]["const"] = 7; x2["defs"]["m2"]["explicit"] = "r3"
    x3 = json.loads(json.dumps(x2)); x3["defs"]["V1"]["value"] = 6; x3["defs"]["m2"]["explicit"] = "r4"
    out.append([x0, x1, x2, x3])
    # the same without touching the root (no memento function is re-defined between the editions): the root is called with
    # new arguments, its body runs and calls the automatically versioned function, which must be current
    y0 = dict(defs={"V1": dict(kind="var", where="mod", value=3), "h1": _fn("plain", [["V1", "bare"]]), "m1": _fn("memento", [["h1", "bare"], ["V1", "bare"]]),
                    "m2": _fn("memento", [["m1", "bare"], ["m1", "chained"]], explicit="r1")}, order=["V1", "h1", "m1", "m2"], fresh_args=["m2"])
    y1 = json.loads(json.dumps(y0)); y1["defs"]["V1"]["value"] = 5
    y2 = json.loads(json.dumps(y1)); y2["defs"]["h1"]["const"] = 7
    y3 = json.loads(json.dumps(y2)); y3["defs"]["V1"]["value"] = 6
    out.append([y0, y1, y2, y3])
    # keyword-only defaults of functions that have no positional default
    # a caller that named its callee, is re-defined so that it reaches the callee through a hidden call only, and the callee is
    # edited afterwards (also one level down, through a helper)
    u0 = dict(defs={"m1": _fn("memento", []), "h1": _fn("plain", [["m1", "bare"]]), "m2": _fn("memento", [["m1", "bare"]]),
                    "m3": _fn("memento", [["h1", "bare"]])}, order=["m1", "h1", "m2", "m3"])
    u1 = json.loads(json.dumps(u0)); u1["defs"]["m2"]["refs"] = [["m1", "hidden"]]; u1["defs"]["h1"]["refs"] = [["m1", "hidden"]]
    u2 = json.loads(json.dumps(u1)); u2["defs"]["m1"]["const"] = 7
    u3 = json.loads(json.dumps(u2)); u3["defs"]["m2"]["refs"] = [["m1", "bare"]]
    out.append([u0, u1, u2, u3])
    # a builtin used by a memento function (and by a helper below another one) is shadowed by a function the module defines
    # later, which is then edited
    b0 = dict(defs={"h1": _fn("plain", [["abs", "bare"]]), "m1": _fn("memento", [["abs", "bare"]]), "m2": _fn("memento", [["h1", "bare"], ["m1", "bare"]])},
              order=["h1", "m1", "m2"], late_builtin=["abs"])
    b1 = json.loads(json.dumps(b0)); b1["defs"]["abs"] = _fn("plain", [], const=4); b1["order"] = ["abs", "h1", "m1", "m2"]
    b2 = json.loads(json.dumps(b1)); b2["defs"]["abs"]["const"] = 5
    out.append([b0, b1, b2])
    # the names of two required keyword-only parameters of a helper change places together with their uses (same bytecode,
    # other meaning for the keyword callers), directly below a memento function and one level further down
    q0 = dict(defs={"h1": _fn("plain", [], kw2=0), "h2": _fn("plain", [["h1", "bare"]], kw2=1), "m1": _fn("memento", [["h2", "bare"]]),
                    "m2": _fn("memento", [["m1", "bare"], ["h1", "alias"]])}, order=["h1", "h2", "m1", "m2"])
    q1 = json.loads(json.dumps(q0)); q1["defs"]["h1"]["kw2"] = 1
    q2 = json.loads(json.dumps(q1)); q2["defs"]["h2"]["kw2"] = 0
    q3 = json.loads(json.dumps(q2)); q3["defs"]["h1"]["kw2"] = 0
    out.append([q0, q1, q2, q3])
    k0 = dict(defs={"h1": _fn("plain", [], kwd=5), "m1": _fn("memento", [["h1", "bare"]], kwd=5), "m2": _fn("memento", [["m1", "bare"]])},
              order=["h1", "m1", "m2"])
    k1 = json.loads(json.dumps(k0)); k1["defs"]["m1"]["kwd"] = 6
    k2 = json.loads(json.dumps(k1)); k2["defs"]["h1"]["kwd"] = 6
    out.append([k0, k1, k2])
    # a list / a dictionary variable changed in place (in-process: the same object), read by a helper and by the function
    i0 = dict(defs={"V1": dict(kind="var", where="mod", value=[1, 2]), "V2": dict(kind="var", where="mod", value={"a": 1}),
                    "h1": _fn("plain", [["V2", "bare"]]), "m1": _fn("memento", [["V1", "bare"], ["h1", "bare"]]), "m2": _fn("memento", [["m1", "bare"]])},
              order=["V1", "V2", "h1", "m1", "m2"])
    i1 = json.loads(json.dumps(i0)); i1["defs"]["V1"]["value"] = [1, 2, 10]
    i2 = json.loads(json.dumps(i1)); i2["defs"]["V2"]["value"] = {"a": 1, "k12": 12}
    i3 = json.loads(json.dumps(i2)); i3["defs"]["V1"]["value"] = [1, 2, 10, 11]
    out.append([i0, i1, i2, i3])
    # F21: an alias re-bound between two functions that are both dependencies already
    a0 = dict(defs={"m1": _fn("memento", []), "m2": _fn("memento", [], const=2),
                    "m3": _fn("memento", [["m1", "bare"], ["m1", "alias"], ["m2", "bare"]])}, order=["m1", "m2", "m3"])
    a1 = json.loads(json.dumps(a0)); a1["alias_map"] = {"m1": "m2"}
    out.append([a0, a1])
    # the same for plain helpers
    b0 = dict(defs={"h1": _fn("plain", []), "h2": _fn("plain", [], const=2),
                    "m1": _fn("memento", [["h1", "bare"], ["h1", "alias"], ["h2", "bare"]])}, order=["h1", "h2", "m1"])
    b1 = json.loads(json.dumps(b0)); b1["alias_map"] = {"h1": "h2"}
    out.append([b0, b1])
    # two plain helpers reached through alias names only; one edit makes the two names change places
    s0 = dict(defs={"h1": _fn("plain", []), "h2": _fn("plain", [], const=2), "m1": _fn("memento", [["h1", "alias"], ["h2", "alias"]]),
                    "m2": _fn("memento", [["m1", "bare"]])}, order=["h1", "h2", "m1", "m2"])
    s1 = json.loads(json.dumps(s0)); s1["alias_map"] = {"h1": "h2", "h2": "h1"}
    s2 = json.loads(json.dumps(s0))
    out.append([s0, s1, s2])
    # ... the same for two memento functions
    t0 = dict(defs={"m1": _fn("memento", []), "m2": _fn("memento", [], const=2), "m3": _fn("memento", [["m1", "alias"], ["m2", "alias"]])},
              order=["m1", "m2", "m3"])
    t1 = json.loads(json.dumps(t0)); t1["alias_map"] = {"m1": "m2", "m2": "m1"}
    out.append([t0, t1])
    # a hidden call two frames below a function that names the hidden callee itself: the caller in between is refused all the
    # same (its version does not cover the callee), whatever its own caller declares; the callee is edited
    u0 = dict(defs={"m1": _fn("memento", []), "m2": _fn("memento", [["m1", "hidden"]]), "m3": _fn("memento", [["m2", "bare"], ["m1", "bare"]])},
              order=["m1", "m2", "m3"])
    u1 = json.loads(json.dumps(u0)); u1["defs"]["m1"]["const"] = 6
    out.append([u0, u1])
    # constants of nested code objects: the string constant of a generator expression, of a helper and of a memento function
    g0 = dict(defs={"h1": _fn("plain", [], gx="x"), "m1": _fn("memento", [["h1", "bare"]], gx="x"), "m2": _fn("memento", [["m1", "bare"]])},
              order=["h1", "m1", "m2"])
    g1 = json.loads(json.dumps(g0)); g1["defs"]["m1"]["gx"] = "y"
    g2 = json.loads(json.dumps(g1)); g2["defs"]["h1"]["gx"] = "z"
    out.append([g0, g1, g2])
    # a callable default value replaced by another callable
    d0 = dict(defs={"h1": _fn("plain", [], dcall=0), "m1": _fn("memento", [["h1", "bare"]], dcall=0)}, order=["h1", "m1"])
    d1 = json.loads(json.dumps(d0)); d1["defs"]["h1"]["dcall"] = 1
    d2 = json.loads(json.dumps(d1)); d2["defs"]["m1"]["dcall"] = 1
    out.append([d0, d1, d2])
    return out


def main(chk, replay=None):
    if replay is not None:
        root = tempfile.mkdtemp(prefix="c01r_")
        try:
            if replay.get("delivery") == "in-process":
                fails = in_process(replay["editions"], root)
            else:
                if replay.get("raw_in_process"):
                    fails = raw_in_process([h for h in RAW_INPROC if h["name"] == replay["raw_in_process"]][0], root)
                elif replay.get("raw_history"):
                    fails = raw_cross_process([h for h in raw_histories() if h["name"] == replay["raw_history"]][0], root)
                else:
                    fails, _ = cross_process(replay["editions"], root)
            print(json.dumps(dict(still_fails=bool(fails), observed=fails[:2]), default=str))
            return 1 if fails else 0
        finally:
            shutil.rmtree(root, ignore_errors=True)
    chk.rule = ("generated programs (call DAGs/cycles over memento and plain functions, variables of supported types, defaults, "
                "keyword-only defaults, set/tuple constants, nested lambdas, aliases, module attributes, hidden dynamic calls) x "
                "edit histories (1-2 single-feature edits per step; quick <= 4 steps, thorough <= 8) delivered cross-process and "
                "in-process against one persistent store. Distinct = distinct (program, history, delivery); non-trivial = >= 1 edit.")
    proof_ok = chk.build_and_audit()
    quick = chk.tier == "quick"
    rng = chk.rng
    nprog = 12 if quick else 150
    steps = 4 if quick else 8
    reported = 0
    import concurrent.futures

    def work(seed):
        import random
        r = random.Random(seed)
        prog = vprogs.gen_prog(r, nm=r.randint(2, 4), hidden_rate=0.05, kw2_rate=0.15)
        eds = [prog]
        logs = []
        for _ in range(r.randint(1, steps)):
            nxt, lg = vprogs.edits(r, eds[-1], r.randint(1, 2))
            vprogs.discipline(eds[-1], nxt)
            eds.append(nxt)
            logs.append(lg)
        root = tempfile.mkdtemp(prefix="c01_", dir=chk.tmpdir())
        try:
            fx, vlog = cross_process(eds, os.path.join(root, "x"))
            fi = in_process(eds, os.path.join(root, "i"))
        finally:
            shutil.rmtree(root, ignore_errors=True)
        return eds, logs, fx, fi, model_partition(eds, vlog)

    def work_corpus(eds):
        root = tempfile.mkdtemp(prefix="c01c_", dir=chk.tmpdir())
        try:
            fx, vlog = cross_process(eds, os.path.join(root, "x"))
            fi = in_process(eds, os.path.join(root, "i"))
        finally:
            shutil.rmtree(root, ignore_errors=True)
        return eds, [[["corpus", "-"]]], fx, fi, model_partition(eds, vlog)

    for hist in raw_histories():
        root = tempfile.mkdtemp(prefix="c01r_", dir=chk.tmpdir())
        try:
            rf = raw_cross_process(hist, root)
        finally:
            shutil.rmtree(root, ignore_errors=True)
        chk.case(["raw-history", hist["name"]], nontrivial=True, sample=dict(kind="hand-written edit history", name=hist["name"], editions=len(hist["editions"])))
        chk.count("raw-history-editions", len(hist["editions"]))
        if rf and reported < 4:
            reported += 1
            f = rf[0]
            chk.violation({"what": "stale result (cross-process, hand-written history %s): %s returns %s but the current program computes %s" % (
                hist["name"], f.get("fn"), json.dumps(f.get("memoized")), json.dumps(f.get("unmemoized"))),
                "class": {"clause": f["clause"], "delivery": "cross-process", "raw": hist["name"]}, "raw_history": hist["name"], "observed": rf[:2]})
    for hist in RAW_INPROC:
        root = tempfile.mkdtemp(prefix="c01q_", dir=chk.tmpdir())
        try:
            rf = raw_in_process(hist, root)
        finally:
            shutil.rmtree(root, ignore_errors=True)
        chk.case(["raw-in-process", hist["name"]], nontrivial=True, sample=dict(kind="hand-written program edited in the running process", name=hist["name"]))
        chk.count("raw-in-process-edits", len(hist["edits"]))
        if rf and reported < 4:
            reported += 1
            f = rf[0]
            chk.violation({"what": "stale result (in-process, hand-written program %s): %s returns %s but the current program computes %s" % (
                hist["name"], f.get("fn"), json.dumps(f.get("memoized")), json.dumps(f.get("unmemoized"))),
                "class": {"clause": f["clause"], "delivery": "in-process", "raw": hist["name"]}, "raw_in_process": hist["name"], "observed": rf[:2]})
    seeds = [rng.randrange(1 << 30) for _ in range(nprog)]
    with concurrent.futures.ThreadPoolExecutor(max_workers=8) as ex:
        results = list(ex.map(work_corpus, corpus())) + list(ex.map(work, seeds))
        for eds, logs, fx, fi, (mism, npairs) in results:
            chk.count("model-compared-versions", npairs)
            for mm in mism[:2]:
                chk.correspondence_break("version-model:partition:" + mm["kind"], dict(mismatch=mm, editions=eds))
            for delivery, fails in (("cross-process", fx), ("in-process", fi)):
                chk.case([eds, delivery], nontrivial=len(eds) > 1,
                         sample=dict(delivery=delivery, edits=logs[:3], defs=list(eds[0]["defs"])))
                chk.count("delivery:" + delivery)
                for lg in logs:
                    for e in lg:
                        chk.count("edit:" + e[0])
                if fails and reported < 6:
                    f = fails[0]
                    i = f.get("edition", 0)
                    feats = edit_feature(eds[i - 1], eds[i]) if i > 0 else []
                    cls = {"clause": f["clause"], "delivery": delivery}
                    if len(feats) == 1:
                        cls["edited"] = feats[0]
                    p = chk.violation({"what": "stale result (%s) after editing %s: %s returns %s but the current program computes %s" % (
                        delivery, feats, f.get("fn"), json.dumps(f.get("memoized"))[:80], json.dumps(f.get("unmemoized"))[:80]),
                        "class": cls, "delivery": delivery, "editions": eds[: i + 1], "edited_features": feats, "observed": fails[:2],
                        "source_before": vprogs.render_modules(eds[max(i - 1, 0)], "vpk"), "source_after": vprogs.render_modules(eds[i], "vpk")})
                    if p:
                        reported += 1


if __name__ == "__main__":
    sys.exit(run_check(PROP, main, sys.argv[1:]))
