"""C07 — result blobs are content-addressed, deduplicated and immutable once referenced.

Lean: Props/C07.lean on Model/Store.lean (`DS`): content keys hold exactly the bytes that hash to
them, one object per content key, data-area objects are never modified or deleted by memoize /
forget_call / forget_function (so a memento keeps reading the bytes stored when it was created).
Correspondence: the `c/` namespace and the override keys as the file system shows them after every
step (`blobs` stream) vs the model. Oracle: integrity scanner on the real tree + held mementos
re-read through a cache-less twin backend.
"""
import hashlib
import json
import os
import sys

import common
from common import run_check, ddmin
import storeworld as sw

PROP = "C07"

FS_CONFIGS = [c for c in sw.CONFIGS if c["kind"] == "fs"]


class Held:
    """mementos handed out at creation time + what must still be readable through them"""

    def __init__(self):
        self.items = []      # (memento, B, (fn, arg))
        self.seen = 0

    def hook(self, w, i, op, rec):
        from twosigma.memento.storage_filesystem import FilesystemStorageBackend
        fails = []
        for (m, B) in w.created[self.seen:]:
            fr = m.invocation_metadata.fn_reference_with_args
            self.items.append((m, B, None))
        self.seen = len(w.created)
        k = op[0]
        if k == "fall":
            self.items = []          # every call, including the mementos' own, was forgotten
        if k in ("fcall", "ffn", "memoize_bad"):
            def own(m):
                fr = m.invocation_metadata.fn_reference_with_args
                qn = fr.fn_reference.qualified_name
                if k == "ffn":
                    return qn == w.refs[op[1]].qualified_name
                return qn == w.refs[op[1]].qualified_name and fr.arg_hash == w.fwa[(op[1], op[2])].arg_hash
            self.items = [it for it in self.items if not own(it[0])]
        # a cache-less twin on the same directories reads every held memento's bytes
        kw = dict(path=w.data_dir)
        if w.cfg.get("separate"):
            kw["metadata_path"] = w.meta_dir
        twin = FilesystemStorageBackend(**kw)
        for (m, B, _) in self.items[-12:]:
            try:
                got = sw.tag_of(twin.read_result(m))
            except Exception as e:
                got = "err:" + type(e).__name__
            if got != sw.canon_tag(B):
                fails.append(dict(clause="memento-reads-own-bytes", memento=sw.World.mid_of(m), expected=B, got=got,
                                  content_key=str(m.content_key)))
                break
        # ... and so does the memento a reader decodes from the store for the same call (whichever memento is the call's
        # current one: it carries the content key its own bytes were stored under)
        by_mid = {sw.World.mid_of(m): (m, B) for (m, B) in w.created}
        seen_calls = set()
        for (m, B, _) in self.items[-12:]:
            try:
                frh = m.invocation_metadata.fn_reference_with_args.fn_reference_with_arg_hash()
                ck = (frh.fn_reference.qualified_name, frh.arg_hash)
                if ck in seen_calls:
                    continue
                seen_calls.add(ck)
                mm = twin.get_mementos([frh])[0]
                if mm is None:
                    continue
                m0, B0 = by_mid.get(sw.World.mid_of(mm), (None, None))
                if m0 is None:
                    continue
                if mm.content_key != m0.content_key:
                    fails.append(dict(clause="memento-reads-own-bytes", memento=sw.World.mid_of(mm), note="decoded memento carries another content key",
                                      stored=str(m0.content_key), decoded=str(mm.content_key)))
                    break
                got = sw.tag_of(twin.read_result(mm))
                if got != sw.canon_tag(B0):
                    fails.append(dict(clause="memento-reads-own-bytes", memento=sw.World.mid_of(mm), note="read through the decoded memento",
                                      expected=B0, got=got))
                    break
            except Exception as e:
                fails.append(dict(clause="memento-reads-own-bytes", note="reading through the decoded memento raised", error=repr(e)[:200]))
                break
        return fails


def run(cfg, ops, use_model=True, root=None):
    return sw.run_history(cfg, ops, use_model=use_model, root=root, scan=True, hooks=Held().hook)


def report(chk, cfg, ops, res, source):
    first = res["integrity"][0]
    clause = first["clause"]

    def still(cand):
        r = run(cfg, cand, use_model=False)
        return any(f["clause"] == clause for f in r["integrity"])

    small = ddmin(ops[: first["step"] + 1], still)
    r2 = run(cfg, small, use_model=False)
    chk.violation({
        "what": "data area integrity: %s" % clause,
        "class": {"clause": clause},
        "config": cfg, "ops": small, "observed": (r2["integrity"] or res["integrity"])[:2],
        "blobs": [t.get("blobs") for t in r2["transcript"][-4:]], "source": source,
    })


CORPUS = [
    # two functions producing the same bytes share one object; forgetting one keeps the other readable
    [["memoize", 1, 1, None, 2], ["memoize", 4, 1, None, 2], ["ffn", 1], ["lookread", 4, 1], ["memoize", 1, 2, None, 2]],
    # override key rewritten: older mementos keep their version; null under the same override removes only the link
    [["memoize", 1, 1, 1, 3], ["memoize", 4, 1, 1, 5], ["memoize", 4, 2, 1, None], ["lookread", 1, 1], ["lookread", 4, 1]],
    [["memoize", 1, 1, None, 2], ["fcall", 1, 1], ["memoize", 1, 1, None, 2], ["memoize", 2, 3, 2, 2], ["memoize", 2, 3, 2, 2]],
    # two calls share one override key; forgetting either leaves the other's memento readable
    [["memoize", 1, 1, 1, 3], ["memoize", 4, 1, 1, 5], ["fcall", 4, 1], ["lookread", 1, 1]],
    [["memoize", 1, 1, 1, 3], ["memoize", 4, 1, 1, 5], ["fcall", 1, 1], ["lookread", 4, 1], ["ffn", 4], ["memoize", 1, 2, 1, 6], ["lookread", 1, 2]],
    [["memoize", 1, 1, 3, 3], ["memoize", 1, 2, 3, 3], ["fcall", 1, 2], ["lookread", 1, 1], ["memoize", 1, 2, 3, 4], ["ffn", 1]],
    # partitions: equal partitions (index and per-key blobs) from two calls share their objects; per-key blobs are shared
    # with plain results of the same bytes; forgetting one call keeps the other readable
    [["memoize", 1, 1, None, 1000], ["memoize", 4, 1, None, 1000], ["memoize", 1, 2, None, 1000], ["fcall", 1, 1], ["lookread", 4, 1]],
    [["memoize", 1, 1, None, 1], ["memoize", 4, 1, None, 1000], ["memoize", 4, 2, None, 1003], ["ffn", 1], ["lookread", 4, 1], ["lookread", 4, 2]],
    [["memoize", 1, 1, 1, 1001], ["memoize", 4, 1, 1, 1002], ["lookread", 1, 1], ["memoize", 4, 2, 1, 1001], ["fcall", 4, 1], ["lookread", 1, 1], ["lookread", 4, 2]],
    # partitions staged on disk: their values share the objects of equal plain results and of equal in-memory partitions
    [["memoize", 1, 1, None, 1], ["memoize", 4, 1, None, 1008], ["memoize", 4, 2, None, 1000], ["memoize", 1, 2, None, 1008], ["lookread", 4, 1], ["ffn", 1], ["lookread", 4, 2]],
    [["memoize", 1, 1, 1, 1009], ["memoize", 4, 1, 1, 1010], ["lookread", 1, 1], ["memoize", 4, 2, None, 1001], ["lookread", 4, 1]],
    # a partition whose last value cannot be serialised: the failed write must leave the objects other mementos read alone
    [["memoize", 1, 1, None, 1], ["memoize", 1, 2, None, 10], ["memoize", 4, 1, None, 1000], ["memoize_bad", 4, 2, None, 1016], ["lookread", 1, 1], ["lookread", 1, 2], ["lookread", 4, 1]],
    [["memoize", 1, 1, 1, 1001], ["memoize_bad", 4, 1, 1, 1017], ["lookread", 1, 1], ["memoize", 4, 1, 1, 1002], ["lookread", 1, 1], ["lookread", 4, 1]],
    # a partition that cannot be written (failed half-way), then several writes to one override key: each keeps its own object
    [["memoize_bad", 4, 1, None, 1016], ["memoize", 1, 1, 1, 3], ["memoize", 1, 2, 1, 5], ["memoize", 1, 3, 1, 6], ["lookread", 1, 1], ["lookread", 1, 2], ["lookread", 1, 3]],
    [["memoize_bad", 4, 1, 2, 1017], ["memoize", 1, 1, 1, 3], ["memoize", 4, 2, 1, 5], ["memoize_bad", 4, 3, 1, 1018], ["memoize", 1, 2, 1, 6], ["lookread", 1, 1], ["lookread", 4, 2]],
    # two writes to one override key while the process-wide random generator is in the same state (bodies that seed it)
    [["rseed", 7], ["memoize", 1, 1, 1, 3], ["rseed", 7], ["memoize", 4, 1, 1, 5], ["lookread", 1, 1], ["lookread", 4, 1]],
    [["rseed", 1], ["memoize", 1, 1, 2, 1001], ["rseed", 1], ["memoize", 1, 2, 2, 1002], ["lookread", 1, 1], ["rseed", 1], ["memoize", 4, 1, None, 6], ["rseed", 1], ["memoize", 4, 2, None, 7], ["lookread", 4, 1]],
]


MERGED_SRC = """from twosigma.memento import memento_function
from twosigma.memento.partition import InMemoryPartition


def payload(x):
    return b"merged-%d-" % x + bytes(range(200))


@memento_function(cluster="c7b", version="1")
def base(x):
    return InMemoryPartition({"a": payload(x), "b": [x, "b"]})


@memento_function(cluster="c7a", version="1")
def plain_a(x):
    return payload(x)


@memento_function(cluster="c7a", version="1")
def same_store_base(x):
    return InMemoryPartition({"a": payload(x), "b": [x, "b"]})


@memento_function(cluster="c7a", version="1")
def merged_same(x):
    p = InMemoryPartition({"c": [x, "c"]})
    p._merge_parent = same_store_base(x)
    return p


@memento_function(cluster="c7a", version="1")
def merged_cross(x):
    p = InMemoryPartition({"c": [x, "c"], "b": [x, "b-over"]})
    p._merge_parent = base(x)
    return p


@memento_function(cluster="c7a", version="1")
def unmerged_equal(x):
    return InMemoryPartition({"a": payload(x), "b": [x, "b"], "c": [x, "c"]})


@memento_function(cluster="c7a", version="1")
def twin_values(x):
    # several keys of one partition hold values with the same bytes (not in the store before)
    # (large: hashing them releases the interpreter lock, so that whatever threads the library uses really run side by side)
    big = bytes([x % 251]) * (4 * 1024 * 1024)
    return InMemoryPartition({"k%02d" % i: big for i in range(8)})


@memento_function(cluster="c7a", version="1")
def published(x):
    from twosigma.memento.result import KeyOverrideResult
    return KeyOverrideResult(InMemoryPartition({"eu": payload(x + 70), "us": [x, "us"]}), "tables/latest")


@memento_function(cluster="c7a", version="1")
def relayed(x):
    return published(x)            # the partition read back from the store, returned as it is, without a key override
"""
_mp_n = [0]


def exact_size_scenario(root):
    """results whose serialized form is exactly 1 MiB / 2 MiB long, and one byte around: the bytes under a content key hash to it.
    (The serialized length of a bytes result is its own length plus a constant; every length in a window below the power of two
    is stored, so one of them hits it whatever the constant is.)"""
    from twosigma.memento.metadata import ResultType
    w = sw.World(dict(kind="fs", separate=False, budget=None), root=root)
    fails = []
    try:
        mid = 0
        sizes = []
        for k in (1, 2):
            sizes += list(range(k * 1048576 - 48, k * 1048576 + 2))
        hit = []
        for i, n in enumerate(sizes):
            obj = bytes([i % 251]) * n
            mid += 1
            m = w.mfns.make_memento(w.fwa[(1, 1 + i % 3)], result_type=ResultType.from_object(obj), seq=mid)
            w.be.memoize(None, m, obj)
            del obj
        vdir = os.path.join(w.data_dir, "c", ".versions")
        for u in sorted(os.listdir(vdir)):
            for name in os.listdir(os.path.join(vdir, u)):
                data = open(os.path.join(vdir, u, name), "rb").read()
                if len(data) % 1048576 == 0:
                    hit.append(len(data))
                if hashlib.sha256(data).hexdigest() != name:
                    fails.append(dict(clause="content-key-is-sha256-of-bytes", path="c/.versions/%s/%s" % (u, name), serialized_bytes=len(data)))
        if not hit:
            raise common.Infra("no stored object of exactly k MiB among %d sizes" % len(sizes))
    finally:
        w.close()
    return fails


def merged_partition_scenario(root):
    """partitions merged on top of a parent — a parent of the same store, and a parent that lives in another cluster's store
    while the child's store already holds a value with the bytes of one of the parent's values: after every call every file
    under c/ of both stores hashes to its name and there is one object per content key; results read back right"""
    import linecache
    import shutil
    import tempfile
    import types
    import twosigma.memento as m
    from twosigma.memento import Environment, ConfigurationRepository, FunctionCluster
    from twosigma.memento.storage_filesystem import FilesystemStorageBackend
    fails = []
    orig = m.Environment.get()
    d = tempfile.mkdtemp(prefix="c07m_", dir=root)
    try:
        stores = {c: os.path.join(d, c) for c in ("c7a", "c7b")}
        m.Environment.set(Environment(name="c7", base_dir=d, repos=[ConfigurationRepository(name="r", clusters={
            c: FunctionCluster(name=c, storage=FilesystemStorageBackend(path=p)) for c, p in stores.items()})]))
        _mp_n[0] += 1
        modname = "c07mp_%d_%d" % (os.getpid(), _mp_n[0])
        fname = "<%s>" % modname
        linecache.cache[fname] = (len(MERGED_SRC), None, MERGED_SRC.splitlines(True), fname)
        mod = types.ModuleType(modname)
        sys.modules[modname] = mod
        exec(compile(MERGED_SRC, fname, "exec"), mod.__dict__)
        want = {"merged_same": ["a", "b", "c"], "merged_cross": ["a", "b", "c"], "unmerged_equal": ["a", "b", "c"]}
        for step, call in enumerate([("plain_a", 1), ("base", 1), ("merged_cross", 1), ("same_store_base", 2), ("merged_same", 2), ("unmerged_equal", 2),
                                     ("merged_same", 2), ("published", 4), ("published", 4), ("relayed", 4)] + [("twin_values", k) for k in range(3, 9)]):        # (a child whose parent lives in another store is not read back: remark R5)
            try:
                # (threads the library may start on its own get a chance to interleave: short switch interval)
                old_si = sys.getswitchinterval()
                sys.setswitchinterval(1e-6)
                try:
                    v = getattr(mod, call[0])(call[1])
                finally:
                    sys.setswitchinterval(old_si)
                if call[0] in want:
                    keys = sorted(v.list_keys())
                    vals = {k: v.get(k) for k in keys}
                    if keys != want[call[0]] or vals.get("a") != mod.payload(call[1]):
                        fails.append(dict(clause="memento-reads-own-bytes", scenario="merged-partitions", call=list(call), keys=keys))
            except Exception as e:
                fails.append(dict(clause="memento-reads-own-bytes", scenario="merged-partitions", call=list(call), error=repr(e)[:200]))
            if call[0] == "relayed" and not fails:
                mm = mod.relayed.memento(call[1])
                ck = None if mm is None else mm.content_key
                if ck is None or not str(ck.key).startswith("c/"):
                    fails.append(dict(clause="content-key-is-sha256-of-bytes", scenario="merged-partitions", call=list(call),
                                      note="a result stored without a key override does not live under a content key", content_key=str(ck)))
            for c, p in stores.items():
                shim = types.SimpleNamespace(kind="fs", data_dir=p)
                _, bad = sw.World.scan_blobs(shim)
                for b in bad:
                    b.update(scenario="merged-partitions", store=c, after=list(call))
                    fails.append(b)
            if fails:
                break
    finally:
        m.Environment.set(orig)
        shutil.rmtree(d, ignore_errors=True)
    return fails


def main(chk, replay=None):
    if replay is not None and replay.get("exact_size"):
        ef = exact_size_scenario(None)
        print(json.dumps(dict(still_fails=bool(ef), observed=ef[:3]), default=str))
        return 1 if ef else 0
    if replay is not None and replay.get("merged"):
        mf = merged_partition_scenario(None)
        print(json.dumps(dict(still_fails=bool(mf), observed=mf[:3]), default=str))
        return 1 if mf else 0
    if replay is not None:
        r = run(replay["config"], replay["ops"], use_model=False)
        print(json.dumps(dict(still_fails=bool(r["integrity"]), observed=r["integrity"][:3]), default=str))
        return 1 if r["integrity"] else 0
    chk.rule = ("C05 op histories with ~30% override writes over 3 shared override keys and ~35% repeated byte strings, on "
                "the filesystem backend (+-cache, shared/separate metadata). After every step: sha256 of every file under "
                "c/ equals its name, one version per content key, every memento handed out so far (whose own call was not "
                "forgotten) re-reads its creation-time bytes through a cache-less twin backend. Distinct = distinct "
                "(config, ops); non-trivial = >= 2 memoize ops. Every third history also memoizes partitions (index + per-key "
                "blobs; in memory, staged on disk, and ones whose last value cannot be serialised so that the write fails half way); those run against the scanner and the dictionary only (partitions are outside the Lean op language). Every third history re-seeds the process-wide random generator before its writes (bodies that seed it).")
    proof_ok = chk.build_and_audit()
    quick = chk.tier == "quick"
    rng = chk.rng
    n = 30 if quick else 500
    failures = 0
    def go(ops, source):
        nonlocal failures
        for cfg in FS_CONFIGS:
            res = run(cfg, ops, use_model=proof_ok, root=chk.tmpdir())
            chk.case([cfg, ops], nontrivial=sum(1 for o in ops if o[0] == "memoize") >= 2,
                     sample=dict(config=cfg, ops=ops[:5], blobs=[t.get("blobs") for t in res["transcript"][:5]]))
            for t in res["transcript"]:
                chk.count("op:" + t["op"][0])
                if t["op"][0] == "memoize" and t["op"][4] is not None and t["op"][4] >= sw.PART0:
                    chk.count("memoize:partition")
                if t["op"][0] == "memoize":
                    chk.count("memoize:" + ("override" if t["op"][3] is not None else "content") + (":null" if t["op"][4] is None else ""))
            if res["integrity"]:
                failures += 1
                if failures <= 3:
                    report(chk, cfg, ops, res, source)
            elif res["mismatch"]:
                chk.correspondence_break("blobs", dict(config=cfg, ops=ops[: res["mismatch"][0]["step"] + 1], first=res["mismatch"][0]))
            elif res["oracle"]:
                chk.correspondence_break("dict-oracle (C05)", dict(config=cfg, first=res["oracle"][0]))
    mf = merged_partition_scenario(chk.tmpdir())
    chk.case(["merged-partitions"], nontrivial=True, sample=dict(kind="partitions merged on a parent of the same / of another store"))
    chk.count("merged-partition-calls", 16)
    if mf:
        chk.violation({"what": "data area integrity (merged partitions): %s" % mf[0]["clause"], "class": {"clause": mf[0]["clause"], "scenario": "merged-partitions"},
                       "merged": True, "observed": mf[:3]})
    ef = exact_size_scenario(chk.tmpdir())
    chk.case(["exact-size-results"], nontrivial=True, sample=dict(kind="results whose serialized form is exactly 1 MiB / 2 MiB long, and around"))
    chk.count("exact-size-results", 100)
    if ef:
        chk.violation({"what": "data area integrity (result of %s serialized bytes): %s" % (ef[0].get("serialized_bytes"), ef[0]["clause"]),
                       "class": {"clause": ef[0]["clause"], "scenario": "exact-size"}, "exact_size": True, "observed": ef[:3]})
    for ops in CORPUS:
        go(ops, "corpus")
    for i in range(n):
        go(sw.gen_ops(rng, rng.randint(4, 22 if quick else 50), fns=[1, 2, 4, 5], override_rate=0.3 if i % 3 != 1 else 0.6, nvals=14,
                      part_rate=0.4 if i % 3 == 2 else 0.0, seed_rate=0.5 if i % 3 == 1 else 0.0), "random")
        if failures > 3:
            break


if __name__ == "__main__":
    sys.exit(run_check(PROP, main, sys.argv[1:]))
