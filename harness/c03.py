"""C03 — function versions are deterministic, so unchanged programs reuse stored results.

Lean: Model/Version.lean + Props/C03.lean (the version depends only on the rule *set*: any
enumeration order of references, definitions and queries gives the same digest).
Oracle: each generated program is loaded in fresh processes under different PYTHONHASHSEED values,
definition orders and version-query orders — all versions must coincide; then a second process
calls every function against the store filled by the first and must execute no body.
"""
import concurrent.futures
import json
import os
import shutil
import sys
import tempfile

import common
from common import run_check
import vprogs
import vrun

PROP = "C03"


def check_program(prog, root, seeds, rng_orders):
    fails = []
    ms = [n for n in prog["order"] if n[0] == "m"]
    versions = {}
    runs = []
    for i, (seed, order, qorder) in enumerate(rng_orders):
        sub = os.path.join(root, "r%d" % i)
        os.makedirs(sub)
        pkg = "vpk"                      # the same package name everywhere (names are part of the version)
        vprogs.write_package(prog, sub, pkg, order)
        acts = [["import", ["other-first", "other-last", None][i % 3]]] + [["versions", [q]] for q in qorder]
        runs.append((sub, seed, acts, order, qorder))

    def go(r):
        sub, seed, acts, order, qorder = r
        return vrun.child(dict(root=sub, pkg="vpk", store=None, actions=acts), hashseed=seed)
    with concurrent.futures.ThreadPoolExecutor(max_workers=8) as ex:
        outs = list(ex.map(go, runs))
    table = []
    for (sub, seed, acts, order, qorder), out in zip(runs, outs):
        if out[0] != "ok":
            fails.append(dict(clause="program-imports", error=out[0]))
            continue
        v = {}
        for o in out[1:]:
            v.update(o)
        table.append(dict(hashseed=seed, definition_order=order, query_order=qorder, versions=v))
    for n in ms:
        vs = {t["versions"].get(n) for t in table}
        if len(vs) > 1 or any(str(x).startswith("err") for x in vs):
            a = table[0]
            b = next((t for t in table if t["versions"].get(n) != a["versions"].get(n)), a)
            fails.append(dict(clause="version-deterministic", fn=n, versions=sorted(map(str, vs)), run_a=a, run_b=b))
    # second process on the store of the first executes nothing
    sub = os.path.join(root, "store-run")
    os.makedirs(sub)
    vprogs.write_package(prog, sub, "vpk")
    store = os.path.join(root, "store")
    calls = [["call", n, 2] for n in ms]
    first = vrun.child(dict(root=sub, pkg="vpk", store=store, actions=[["import"]] + calls), hashseed=seeds[0])
    sub2 = os.path.join(root, "store-run2")
    os.makedirs(sub2)
    vprogs.write_package(prog, sub2, "vpk", list(reversed(prog["order"])))
    second = vrun.child(dict(root=sub2, pkg="vpk", store=store, actions=[["import"]] + calls), hashseed=seeds[-1])
    for n, a, b in zip(ms, first[1:], second[1:]):
        if not isinstance(b, dict) or "error" in b:
            fails.append(dict(clause="second-process-runs", fn=n, error=b))
            continue
        memoizable = isinstance(a, dict) and a.get("result", [""])[0] == "ok"
        if memoizable and b["trace"]:
            fails.append(dict(clause="second-process-executes-nothing", fn=n, executed=b["trace"][:5], hashseeds=[seeds[0], seeds[-1]]))
        if isinstance(a, dict) and a.get("result") != b.get("result") and memoizable:
            fails.append(dict(clause="second-process-same-result", fn=n, first=a.get("result"), second=b.get("result")))
    return fails, table


def main(chk, replay=None):
    if replay is not None:
        root = tempfile.mkdtemp(prefix="c03r_")
        try:
            fails, _ = check_program(replay["program"], root, replay["seeds"], [tuple(x) for x in replay["runs"]])
            print(json.dumps(dict(still_fails=bool(fails), observed=fails[:2]), default=str))
            return 1 if fails else 0
        finally:
            shutil.rmtree(root, ignore_errors=True)
    chk.rule = ("generated programs (memento + plain functions, variables, set/tuple constants, defaults, nested lambdas, aliases, "
                "module attributes, cycles) x PYTHONHASHSEED in {0..} x shuffled definition orders x shuffled version-query orders, "
                "each in a fresh process; then a second process (other hash seed, reversed definition order) on the first one's "
                "store. Distinct = distinct (program, runs); non-trivial = program has a set constant or >= 2 references.")
    proof_ok = chk.build_and_audit()
    quick = chk.tier == "quick"
    rng = chk.rng
    nprog = 10 if quick else 120
    nseeds = 4 if quick else 12
    reported = 0
    import c01
    corpus = [c[0] for c in c01.corpus()]
    for pi in range(nprog + len(corpus)):
        prog = corpus[pi] if pi < len(corpus) else vprogs.gen_prog(rng, nm=rng.randint(2, 4), hidden_rate=0.0)
        seeds = [0, 1, 2, 3, 7, 11, 13, 42, 99, 123, 1000, 31337][:nseeds]
        ms = [n for n in prog["order"] if n[0] == "m"]
        runs = []
        for si, s_ in enumerate(seeds):
            order = list(prog["order"])
            rng.shuffle(order)
            q = list(ms)
            rng.shuffle(q)
            if si in (0, 2):     # every memento function (callees first) before the plain helpers and variables it
                #                  (transitively) uses; nothing registered afterwards; callers queried first
                order = [n for n in prog["order"] if n[0] == "m"] + [n for n in reversed(prog["order"]) if n[0] != "m"]
                q = list(reversed(ms))
            runs.append((s_, order, q))
        root = tempfile.mkdtemp(prefix="c03_", dir=chk.tmpdir())
        fails, table = check_program(prog, root, seeds, runs)
        shutil.rmtree(root, ignore_errors=True)
        chk.case([prog, runs], nontrivial=any(d.get("setc") for d in prog["defs"].values()) or sum(len(d.get("refs", [])) for d in prog["defs"].values()) >= 2,
                 sample=dict(versions=table[0]["versions"] if table else None, runs=len(runs), defs=list(prog["defs"])))
        chk.count("processes", len(runs) + 2)
        if any(d.get("setc") for d in prog["defs"].values()):
            chk.count("program-with-set-constant")
        if fails and reported < 3:
            reported += 1
            f = fails[0]
            uses_set = any(d.get("setc") and len(d["setc"]) > 1 for d in prog["defs"].values())
            chk.violation({"what": "versions: %s for %s" % (f["clause"], f.get("fn")),
                           "class": {"clause": f["clause"]}, "program": prog, "seeds": seeds, "runs": runs,
                           "observed": fails[:2], "source": vprogs.render_modules(prog, "vpk")})
        if reported >= 3:
            break


if __name__ == "__main__":
    sys.exit(run_check(PROP, main, sys.argv[1:]))
