"""C03 — function versions are deterministic, so unchanged programs reuse stored results.

Lean: Model/Version.lean + Props/C03.lean (the version depends only on the rule *set*: any
enumeration order of references, definitions and queries gives the same digest).
Oracle: each generated program is loaded in fresh processes under different PYTHONHASHSEED values,
definition orders and version-query orders — all versions must coincide; then a second process
calls every function against the store filled by the first and must execute no body.
"""
import concurrent.futures
import json
import os
import shutil
import sys
import tempfile

import common
from common import run_check
import vprogs
import vrun

PROP = "C03"


RAW_HEADER = "from twosigma.memento import memento_function\nimport vrec\n"

# hand-written packages around the places where the rule set could be enumerated in a process-dependent order:
# equal symbols under different parents, several aliases of one function, equal-named helpers in two modules
RAW = [
    dict(name="same-symbol-two-parents", ms=["m1", "m2"], files={
        "aux.py": RAW_HEADER + "_RATE = 2\n\n\ndef apply(a):\n    return a + _RATE\n",
        "mod.py": RAW_HEADER + "from . import aux\n_RATE = 20\n\n\ndef apply(a):\n    return a * _RATE\n\n\n"
                  "@memento_function(cluster=\"vp\")\ndef m1(x):\n    vrec.REC.enter('m1', x)\n    return [apply(x), aux.apply(x)]\n\n\n"
                  "@memento_function(cluster=\"vp\")\ndef m2(x):\n    vrec.REC.enter('m2', x)\n    return [m1(x), aux.apply(x), apply(x)]\n"}),
    dict(name="two-aliases-of-one-helper", ms=["m1", "m2"], files={
        "aux.py": RAW_HEADER,
        "mod.py": RAW_HEADER + "def _h(t):\n    return t + 1\n\n\nname_a = _h\nname_b = _h\nzz = _h\n\n\n"
                  "@memento_function(cluster=\"vp\")\ndef m1(x):\n    vrec.REC.enter('m1', x)\n    return [name_b(x), name_a(x)]\n\n\n"
                  "@memento_function(cluster=\"vp\")\ndef m2(x):\n    vrec.REC.enter('m2', x)\n    return [zz(x), m1(x), name_a(x), name_b(x)]\n"}),
    dict(name="two-aliases-of-one-memento-function", ms=["m1", "m2", "m3"], files={
        "aux.py": RAW_HEADER + "@memento_function(cluster=\"vp\")\ndef m1(x):\n    vrec.REC.enter('m1', x)\n    return x + 1\n\n\nfirst = m1\nsecond = m1\n",
        "mod.py": RAW_HEADER + "from . import aux\nfrom .aux import m1, first, second\n\n\ndef via(x):\n    return aux.second(x) + aux.first(x)\n\n\n"
                  "@memento_function(cluster=\"vp\")\ndef m2(x):\n    vrec.REC.enter('m2', x)\n    return [second(x), first(x), m1(x)]\n\n\n"
                  "@memento_function(cluster=\"vp\")\ndef m3(x):\n    vrec.REC.enter('m3', x)\n    return [via(x), first(x), m2(x)]\n"}),
    dict(name="same-helper-name-three-levels", ms=["m1"], files={
        "aux.py": RAW_HEADER + "K = 'aux'\n\n\ndef leaf(a):\n    return [a, K]\n\n\ndef mid(a):\n    return leaf(a) + [K]\n",
        "mod.py": RAW_HEADER + "from . import aux\nK = 'mod'\n\n\ndef leaf(a):\n    return [K, a]\n\n\ndef mid(a):\n    return leaf(a) + [K, K]\n\n\n"
                  "@memento_function(cluster=\"vp\")\ndef m1(x):\n    vrec.REC.enter('m1', x)\n    return [mid(x), aux.mid(x), leaf(x), aux.leaf(x), K, aux.K]\n"}),
    dict(name="functions-sharing-a-qualified-name", ms=["m1", "m2"], files={
        "aux.py": RAW_HEADER,
        "mod.py": RAW_HEADER + "def helper(a):\n    return a + 1\n\n\nold_helper = helper\n\n\ndef helper(a):\n    return a + 2\n\n\n"
                  "def make(k):\n    def inner(a):\n        return a * k\n    return inner\n\n\ndouble = make(2)\n\n\ndef make(k):\n    def inner(a):\n        return a + k\n    return inner\n\n\nplus3 = make(3)\n\n\n"
                  "@memento_function(cluster=\"vp\")\ndef m1(x):\n    vrec.REC.enter('m1', x)\n    return [old_helper(x), helper(x)]\n\n\n"
                  "@memento_function(cluster=\"vp\")\ndef m2(x):\n    vrec.REC.enter('m2', x)\n    return [double(x), plus3(x), m1(x)]\n"}),
    # import orders: a circular import (the function is defined before or after the attribute it uses exists) and a plug-in
    # module that adds entries to a table another module owns
    dict(name="circular-import", ms=["m1"], orders=[["mod"], ["aux"], ["mod", "aux"], ["aux", "mod"]], files={
        "aux.py": RAW_HEADER + "from . import mod\n\n\ndef factor(a):\n    return a * 3\n\n\nLIMIT = 10\n",
        "mod.py": RAW_HEADER + "from . import aux\n\n\n@memento_function(cluster=\"vp\")\ndef m1(x):\n    vrec.REC.enter('m1', x)\n    return [aux.factor(x), aux.LIMIT]\n"}),
    dict(name="plug-in-fills-a-table", ms=["m1"], orders=[["plugin", "mod"], ["mod", "plugin"], ["aux", "mod", "plugin"], ["plugin"]], files={
        "aux.py": RAW_HEADER + "TABLE = {'m': 1}\nNAMES = ['m']\n",
        "plugin.py": "from . import aux\naux.TABLE['ft'] = 3\naux.TABLE['in'] = 4\naux.NAMES.append('ft')\n",
        "mod.py": RAW_HEADER + "from . import aux\n\n\n@memento_function(cluster=\"vp\")\ndef m1(x):\n    vrec.REC.enter('m1', x)\n    return [sorted(aux.TABLE.items()), aux.NAMES, x]\n"}),
    dict(name="two-packages", ms=["m1", "m2"], files={
        "vpb/__init__.py": "",
        "vpb/lib.py": RAW_HEADER + "RATE = 3\n\n\ndef round_half(a):\n    return a // 2 + RATE\n\n\ndef scale(a):\n    return round_half(a) * RATE\n\n\n"
                      "@memento_function(cluster=\"vp\")\ndef rate(x):\n    vrec.REC.enter('rate', x)\n    return scale(x) + round_half(x)\n",
        "aux.py": RAW_HEADER,
        "mod.py": RAW_HEADER + "from vpb import lib\nfrom vpb.lib import rate, round_half, scale\n\n\ndef local_helper(a):\n    return [round_half(a), lib.scale(a)]\n\n\n"
                  "@memento_function(cluster=\"vp\")\ndef m1(x):\n    vrec.REC.enter('m1', x)\n    return [round_half(x), rate(x), scale(x), lib.RATE]\n\n\n"
                  "@memento_function(cluster=\"vp\")\ndef m2(x):\n    vrec.REC.enter('m2', x)\n    return [local_helper(x), lib.rate(x), m1(x), scale(x)]\n"}),
    dict(name="lambdas-and-variables-sharing-names", ms=["m1", "m2"], files={
        "aux.py": RAW_HEADER + "T = (1, 2)\nf = lambda a: [a, T]\ng = lambda a: [T, a]\n",
        "mod.py": RAW_HEADER + "from . import aux\nT = (2, 1)\nf = lambda a: [a, T, 0]\ng = lambda a: [T, a, 0]\n\n\n"
                  "@memento_function(cluster=\"vp\")\ndef m1(x):\n    vrec.REC.enter('m1', x)\n    return [f(x), g(x), aux.f(x), aux.g(x)]\n\n\n"
                  "@memento_function(cluster=\"vp\")\ndef m2(x):\n    vrec.REC.enter('m2', x)\n    return [aux.g(x), g(x), m1(x)]\n"}),
]


def _M(name, params, body):
    return "@memento_function(cluster=\"vp\")\ndef %s(%s):\n    vrec.REC.enter('%s', x)\n    return %s\n" % (name, params, name, body)


def _variants(pieces, orders):
    """hand-written definition orders of one module"""
    return [{"mod.py": RAW_HEADER + "\n\n".join(pieces[k] for k in o)} for o in orders]


_P1 = dict(scale="def scale(a):\n    return a * 3\n", m1=_M("m1", "x", "scale(x) + 1"), m2=_M("m2", "x, source=m1", "source(x) + x"))
_P2 = dict(fmt="def format(value):\n    return '<%s>' % value\n", rnd="def round(a):\n    return a + 100\n",
           h="def h(a):\n    return [round(a), len([a])]\n", m1=_M("m1", "x", "x + 1"), m2=_M("m2", "x", "[format(x), h(x), m1(x)]"))
_P3 = dict(mk="def make_counter():\n    seen = []\n\n    def count(a):\n        return a + 0 * len(seen)\n    return count, seen\n\n\ncount, _seen = make_counter()\n",
           m1=_M("m1", "x", "count(x) + 1"), m2=_M("m2", "x", "[count(x), m1(x)]"), mut="_seen.append('x')\n_seen.append('y')\n")
RAW += [
    # module-level sets of strings (their iteration order follows hash randomisation), at top level and inside a list / dict
    dict(name="set-valued-globals", ms=["m1", "m2"], files={
        "aux.py": RAW_HEADER + "UNIVERSE = {'alpha', 'beta', 'gamma', 'delta', 'eps', 'zeta'}\nNESTED = [1, {'k': frozenset({'ab', 'cd', 'ef', 'gh'})}]\n",
        "mod.py": RAW_HEADER + "from . import aux\nTAGS = {'x1', 'y22', 'z333', 'w4444', 'v55555'}\n\n\ndef size(a):\n    return a + len(TAGS)\n\n\n"
                  "@memento_function(cluster=\"vp\")\ndef m1(x):\n    vrec.REC.enter('m1', x)\n    return [size(x), len(aux.UNIVERSE), len(aux.NESTED)]\n\n\n"
                  "@memento_function(cluster=\"vp\")\ndef m2(x):\n    vrec.REC.enter('m2', x)\n    return [m1(x), sorted(TAGS)]\n"}),
    # a plain helper made by a factory, closing over a list that changes after the definitions
    dict(name="helper-closing-over-state", ms=["m1", "m2"], files={"aux.py": RAW_HEADER, "mod.py": ""},
         variants=_variants(_P3, [["mk", "m1", "m2", "mut"], ["mk", "m2", "m1", "mut"], ["mk", "m1", "mut", "m2"], ["mk", "mut", "m2", "m1"]])),
    # a memento function as the default value of a parameter of another one, defined before / after the helper it uses
    dict(name="memento-function-as-default", ms=["m1", "m2"], files={"aux.py": RAW_HEADER, "mod.py": ""},
         variants=_variants(_P1, [["scale", "m1", "m2"], ["m1", "scale", "m2"], ["m1", "m2", "scale"]])),
    # module-level helpers named like builtins, defined above / below the last memento function of the program
    dict(name="helpers-named-like-builtins", ms=["m1", "m2"], files={"aux.py": RAW_HEADER, "mod.py": ""},
         variants=_variants(_P2, [["fmt", "rnd", "h", "m1", "m2"], ["m1", "m2", "h", "rnd", "fmt"], ["m1", "h", "m2", "fmt", "rnd"],
                                  ["rnd", "m1", "m2", "fmt", "h"]])),
]


def write_raw(raw, sub, pkg, variant=0):
    d = os.path.join(sub, pkg)
    os.makedirs(d, exist_ok=True)
    open(os.path.join(d, "__init__.py"), "w").write("")
    files = dict(raw["files"])
    if raw.get("variants"):
        files.update(raw["variants"][variant % len(raw["variants"])])
    for fn, src in files.items():
        path = os.path.join(sub, fn) if "/" in fn else os.path.join(d, fn)       # "otherpkg/x.py": a second package
        os.makedirs(os.path.dirname(path), exist_ok=True)
        open(path, "w").write(src)
    open(os.path.join(d, "other.py"), "w").write(
        'from twosigma.memento import memento_function\n\n\n@memento_function(cluster="vp")\ndef unrelated(x):\n    return x\n')


def check_program(prog, root, seeds, rng_orders):
    fails = []
    raw = prog.get("raw")
    ms = raw["ms"] if raw else [n for n in prog["order"] if n[0] == "m"]
    if raw:
        class _W:
            variant = 0

            @staticmethod
            def write_package(prog, sub, pkg, order=None):
                write_raw(raw, sub, pkg, _W.variant)
                _W.variant += 1           # every process of the comparison gets the next hand-written definition order
        vp = _W
    else:
        vp = vprogs
    versions = {}
    runs = []
    for i, (seed, order, qorder) in enumerate(rng_orders):
        sub = os.path.join(root, "r%d" % i)
        os.makedirs(sub)
        pkg = "vpk"                      # the same package name everywhere (names are part of the version)
        vp.write_package(prog, sub, pkg, order)
        if raw and raw.get("orders"):
            # the package's modules are imported in a given order, every module once at the end ("plugin" included)
            first = raw["orders"][i % len(raw["orders"])]
            acts = [["import", first + [m_[:-3] for m_ in sorted(raw["files"]) if m_.endswith(".py") and "/" not in m_ and m_[:-3] not in first]]]
            acts += [["versions", [q]] for q in qorder]
        else:
            acts = [["import", ["other-first", "other-last", None][i % 3]]] + [["versions", [q]] for q in qorder]
        runs.append((sub, seed, acts, order, qorder))

    def go(r):
        sub, seed, acts, order, qorder = r
        return vrun.child(dict(root=sub, pkg="vpk", store=None, actions=acts), hashseed=seed)
    with concurrent.futures.ThreadPoolExecutor(max_workers=8) as ex:
        outs = list(ex.map(go, runs))
    table = []
    for (sub, seed, acts, order, qorder), out in zip(runs, outs):
        if out[0] != "ok":
            fails.append(dict(clause="program-imports", error=out[0]))
            continue
        v = {}
        for o in out[1:]:
            v.update(o)
        table.append(dict(hashseed=seed, definition_order=order, query_order=qorder, versions=v))
    for n in ms:
        vs = {t["versions"].get(n) for t in table}
        if len(vs) > 1 or any(str(x).startswith("err") for x in vs):
            a = table[0]
            b = next((t for t in table if t["versions"].get(n) != a["versions"].get(n)), a)
            fails.append(dict(clause="version-deterministic", fn=n, versions=sorted(map(str, vs)), run_a=a, run_b=b))
    # second process on the store of the first executes nothing
    sub = os.path.join(root, "store-run")
    os.makedirs(sub)
    vp.write_package(prog, sub, "vpk")
    store = os.path.join(root, "store")
    calls = [["call", n, 2] for n in ms]
    first = vrun.child(dict(root=sub, pkg="vpk", store=store, actions=[["import"]] + calls), hashseed=seeds[0])
    sub2 = os.path.join(root, "store-run2")
    os.makedirs(sub2)
    vp.write_package(prog, sub2, "vpk", list(reversed(prog["order"])))
    second = vrun.child(dict(root=sub2, pkg="vpk", store=store, actions=[["import"]] + calls), hashseed=seeds[-1])
    for n, a, b in zip(ms, first[1:], second[1:]):
        if not isinstance(b, dict) or "error" in b:
            fails.append(dict(clause="second-process-runs", fn=n, error=b))
            continue
        memoizable = isinstance(a, dict) and a.get("result", [""])[0] == "ok"
        if memoizable and b["trace"]:
            fails.append(dict(clause="second-process-executes-nothing", fn=n, executed=b["trace"][:5], hashseeds=[seeds[0], seeds[-1]]))
        if isinstance(a, dict) and a.get("result") != b.get("result") and memoizable:
            fails.append(dict(clause="second-process-same-result", fn=n, first=a.get("result"), second=b.get("result")))
    return fails, table


def main(chk, replay=None):
    if replay is not None:
        root = tempfile.mkdtemp(prefix="c03r_")
        try:
            fails, _ = check_program(replay["program"], root, replay["seeds"], [tuple(x) for x in replay["runs"]])
            print(json.dumps(dict(still_fails=bool(fails), observed=fails[:2]), default=str))
            return 1 if fails else 0
        finally:
            shutil.rmtree(root, ignore_errors=True)
    chk.rule = ("generated programs (memento + plain functions, variables, set/tuple constants, defaults, nested lambdas, aliases, "
                "module attributes, cycles) x PYTHONHASHSEED in {0..} x shuffled definition orders x shuffled version-query orders, "
                "each in a fresh process; then a second process (other hash seed, reversed definition order) on the first one's "
                "store. Distinct = distinct (program, runs); non-trivial = program has a set constant or >= 2 references.")
    proof_ok = chk.build_and_audit()
    quick = chk.tier == "quick"
    rng = chk.rng
    nprog = 10 if quick else 120
    nseeds = 4 if quick else 12
    reported = 0
    import c01
    corpus = [dict(raw=r, order=list(r["ms"]), defs={}) for r in RAW] + [c[0] for c in c01.corpus()]
    for pi in range(nprog + len(corpus)):
        prog = corpus[pi] if pi < len(corpus) else vprogs.gen_prog(rng, nm=rng.randint(2, 4), hidden_rate=0.0)
        seeds = [0, 1, 2, 3, 7, 11, 13, 42, 99, 123, 1000, 31337][:12 if prog.get("raw") else nseeds]
        ms = [n for n in prog["order"] if n[0] == "m"]
        runs = []
        for si, s_ in enumerate(seeds):
            order = list(prog["order"])
            rng.shuffle(order)
            q = list(ms)
            rng.shuffle(q)
            if si in (0, 2):     # every memento function (callees first) before the plain helpers and variables it
                #                  (transitively) uses; nothing registered afterwards; callers queried first
                order = [n for n in prog["order"] if n[0] == "m"] + [n for n in reversed(prog["order"]) if n[0] != "m"]
                q = list(reversed(ms))
            runs.append((s_, order, q))
        root = tempfile.mkdtemp(prefix="c03_", dir=chk.tmpdir())
        fails, table = check_program(prog, root, seeds, runs)
        shutil.rmtree(root, ignore_errors=True)
        if prog.get("raw"):
            chk.count("hand-written package: " + prog["raw"]["name"])
        chk.case([prog, runs], nontrivial=bool(prog.get("raw")) or any(d.get("setc") for d in prog["defs"].values()) or sum(len(d.get("refs", [])) for d in prog["defs"].values()) >= 2,
                 sample=dict(versions=table[0]["versions"] if table else None, runs=len(runs), defs=list(prog["defs"])))
        chk.count("processes", len(runs) + 2)
        if any(d.get("setc") for d in prog["defs"].values()):
            chk.count("program-with-set-constant")
        if fails and reported < 3:
            reported += 1
            f = fails[0]
            uses_set = any(d.get("setc") and len(d["setc"]) > 1 for d in prog["defs"].values())
            chk.violation({"what": "versions: %s for %s" % (f["clause"], f.get("fn")),
                           "class": {"clause": f["clause"]}, "program": prog, "seeds": seeds, "runs": runs,
                           "observed": fails[:2],
                           "source": prog["raw"]["files"] if prog.get("raw") else vprogs.render_modules(prog, "vpk")})
        if reported >= 3:
            break


if __name__ == "__main__":
    sys.exit(run_check(PROP, main, sys.argv[1:]))
