"""C17 — partitions round-trip key by key and merge as an overlay of their parents.

Lean: Model/Partition.lean + Props/C17.lean (round trip, overlay, chains of any length with any
provenance of the parent, serialising preserves the object handed back).
Correspondence / oracle: chains of memento functions, each returning a partition (in-memory or
on-disk staging) whose parent is the previous level's result, obtained as the object the computing
call handed back / the memory cache serves, or read back from the store; on the filesystem backend,
the filesystem backend with memory cache and the memory backend. For every level the first-call value,
the second-call value and the value read back from the store are observed through `list_keys()`,
`list_keys(False)` and `get(k)` for every key, compared with the model and with a plain dict overlay;
every body must run exactly once.
"""
import json
import linecache
import os
import shutil
import sys
import tempfile
import types

import common
from common import run_check

PROP = "C17"
KEYS = ["#", "a", "b", "c", "d", "e", "f", "g", "k#1"]          # partition keys may contain '#' (the separator of stored keys)
VALUES = [1, 2, "x", [1, 2], {"k": 1}, 3.5, None, True, "y", 7, 0.5, 1.5, 2.5, 4.5, [], {"k": 2}, {"k": 3}, [3], [4],
          {"A": ["Ada"], "B": [1, 2]}]
NESTED = 19        # this value is itself a partition (rendered as one; viewed as the dictionary of its entries)


def lit(v):
    return "InMemoryPartition(%r)" % (VALUES[v],) if v == NESTED else repr(VALUES[v])
_counter = [0]


def gen_scenario(rng, maxlen):
    n = rng.randint(1, maxlen)
    levels = []
    for j in range(n):
        ks = rng.sample(KEYS, rng.choice([0, 1, 2, 3, 3, 5, 6]))
        kind = rng.choice([None, None, [10, 11, 12, 13, 5], [4, 15, 16], [3, 14, 17, 18]])   # values of one kind (floats / dicts / lists)
        own = {k: (rng.choice(kind) if kind else rng.randrange(len(VALUES))) for k in ks}
        if kind and len(ks) >= 3 and rng.random() < 0.7:
            own = {k: kind[i % len(kind)] for i, k in enumerate(ks)}                          # pairwise distinct as far as possible
        staging = rng.choice(["mem", "mem", "memdd", "disk", "disk"])
        if ks and rng.random() < 0.12:
            own[rng.choice(ks)] = NESTED
        lvl = dict(own=own, staging=staging, from_store=rng.random() < 0.5)
        if staging in ("mem", "memdd") and len(ks) >= 2 and rng.random() < 0.4:
            lvl["late"] = ks[len(ks) // 2:]           # entries added to the wrapped dictionary after the key list was asked for
        if staging == "disk" and ks and rng.random() < 0.6:
            # keys assigned more than once while staging; the earlier value is often the final value of another key
            lvl["pre"] = [[rng.choice(ks), rng.choice(list(own.values()))] for _ in range(rng.randint(1, 3))]
        levels.append(lvl)
    backend = rng.choice(["fs", "fscache", "fscache", "memory"])
    mode = rng.choice(["bottom-up", "top-down"])
    return dict(backend=backend, levels=levels, mode=mode, reret=rng.random() < 0.35, override=rng.random() < 0.25)


def render(sc, modname):
    L = ["from twosigma.memento import memento_function",
         "from twosigma.memento.partition import InMemoryPartition",
         "from twosigma.memento.storage_filesystem import OnDiskPartition",
         "from twosigma.memento.result import KeyOverrideResult",
         "import collections",
         "import vrec", "", ""]
    ret = "    return KeyOverrideResult(p, 'ov/c17')" if sc.get("override") else "    return p"
    for j, lv in enumerate(sc["levels"]):
        L.append('@memento_function(cluster="c17")')
        L.append("def lv%d():" % j)
        L.append('    vrec.REC.enter("lv%d", 0)' % j)
        late = lv.get("late", [])
        items = ", ".join("%r: %s" % (k, lit(v)) for k, v in lv["own"].items() if k not in late)
        rest = ", ".join("%r: %s" % (k, lit(v)) for k, v in lv["own"].items() if k in late)
        if lv["staging"] in ("mem", "memdd"):
            # memdd: built from a defaultdict (as in the library's own documentation example)
            L.append("    d = %s" % ("{%s}" % items if lv["staging"] == "mem" else "collections.defaultdict(list, {%s})" % items))
            L.append("    p = InMemoryPartition(d)")
            if late:
                # the function looks at the keys so far, then adds entries to the dictionary it wrapped
                L.append("    p.list_keys()")
                L.append("    p.list_keys(False)")
                L.append("    d.update({%s})" % rest)
        else:
            L.append("    p = OnDiskPartition()")
            for k, v in lv.get("pre", []):
                L.append("    p[%r] = %s" % (k, lit(v)))
            for k, v in lv["own"].items():
                L.append("    p[%r] = %s" % (k, lit(v)))
        if j > 0:
            L.append("    p._merge_parent = lv%d()" % (j - 1))
        L.append(ret)
        L += ["", ""]
    if sc["reret"]:
        L.append('@memento_function(cluster="c17")')
        L.append("def rr():")
        L.append('    vrec.REC.enter("rr", 0)')
        L.append("    return lv%d()" % (len(sc["levels"]) - 1))
        L += ["", ""]
    return "\n".join(L)


def plain(v):
    """a value as plain data: a partition that is the value of a key is viewed as the dictionary of its entries"""
    from twosigma.memento.partition import Partition
    if isinstance(v, Partition):
        return {k: plain(v.get(k)) for k in sorted(v.list_keys())}
    return v


def view(p):
    try:
        keys = list(p.list_keys())
        own = list(p.list_keys(False))
        vals = {k: plain(p.get(k)) for k in keys}
        # every key on its own, and keys outside the key list are refused
        try:
            p.get("zz-not-a-key")
            extra = "accepted-unknown-key"
        except ValueError:
            extra = None
        return dict(keys=keys, own=own, vals=vals, extra=extra, type=type(p).__name__)
    except Exception as e:
        return dict(error="%s: %s" % (type(e).__name__, str(e)[:150]))


def call_view(fn):
    """call a memento function and describe what it returned; an escaping exception is an observation, not a crash"""
    try:
        return view(fn())
    except Exception as e:
        return dict(error="call raised %s: %s" % (type(e).__name__, str(e)[:150]))


def run_real(sc, root):
    """returns per level: first / second / back views and the execution trace; + reret views"""
    import twosigma.memento as m
    from twosigma.memento import Environment, ConfigurationRepository, FunctionCluster
    from twosigma.memento.storage_filesystem import FilesystemStorageBackend
    from twosigma.memento.storage_memory import MemoryStorageBackend
    import vrec
    if sc["backend"] == "memory":
        st = MemoryStorageBackend()
    else:
        st = FilesystemStorageBackend(path=os.path.join(root, "store"), memory_cache_mb=(10 if sc["backend"] == "fscache" else None))
    prev_env = m.Environment.get()
    m.Environment.set(Environment(name="c17", base_dir=root, repos=[
        ConfigurationRepository(name="r", clusters={"c17": FunctionCluster(name="c17", storage=st)})]))
    _counter[0] += 1
    modname = "c17s_%d_%d" % (os.getpid(), _counter[0])
    src = render(sc, modname)
    fname = "<%s>" % modname
    linecache.cache[fname] = (len(src), None, src.splitlines(True), fname)
    mod = types.ModuleType(modname)
    mod.__package__ = ""
    sys.modules[modname] = mod
    out = dict(levels=[], source=src)
    cache = getattr(st, "_memory_cache", None)

    def purge():
        if cache is not None:
            cache.forget_everything()

    try:
        exec(compile(src, fname, "exec"), mod.__dict__)
        n = len(sc["levels"])
        order = list(range(n)) if sc["mode"] == "bottom-up" else [n - 1]
        firsts = {}
        for j in order:
            if sc["levels"][j]["from_store"]:
                purge()
            vrec.REC.calls.clear()
            v1 = call_view(getattr(mod, "lv%d" % j))
            firsts[j] = dict(first=v1, first_trace=[c[0] for c in vrec.REC.calls])
        for j in range(n):
            rec = firsts.get(j, {})
            vrec.REC.calls.clear()
            rec["second"] = call_view(getattr(mod, "lv%d" % j))
            rec["second_trace"] = [c[0] for c in vrec.REC.calls]
            out["levels"].append(rec)
        if sc["backend"] != "memory":
            for j in range(n):
                purge()
                vrec.REC.calls.clear()
                out["levels"][j]["back"] = call_view(getattr(mod, "lv%d" % j))
                out["levels"][j]["back_trace"] = [c[0] for c in vrec.REC.calls]
        if sc["reret"]:
            if sc["levels"][-1]["from_store"]:
                purge()
            vrec.REC.calls.clear()
            rr = dict(first=call_view(mod.rr), first_trace=[c[0] for c in vrec.REC.calls])
            purge()
            vrec.REC.calls.clear()
            rr["back"] = call_view(mod.rr)
            rr["back_trace"] = [c[0] for c in vrec.REC.calls]
            out["reret"] = rr
    finally:
        m.Environment.set(prev_env)
        sys.modules.pop(modname, None)
    return out


def expected_views(sc):
    """plain dict overlay per level"""
    res, acc = [], {}
    for lv in sc["levels"]:
        acc = dict(acc)
        acc.update({k: VALUES[v] for k, v in lv["own"].items()})
        res.append(dict(keys=sorted(acc), own=sorted(lv["own"]), vals=dict(acc)))
    return res


def same_view(v, e):
    if "error" in v:
        return False
    return v["keys"] == e["keys"] and v["own"] == e["own"] and json.dumps(v["vals"], sort_keys=True) == json.dumps(e["vals"], sort_keys=True) \
        and v["extra"] is None


def judge(sc, out):
    fails = []
    exp = expected_views(sc)
    for j, (rec, e) in enumerate(zip(out["levels"], exp)):
        for which in ("first", "second", "back"):
            if which in rec and not same_view(rec[which], e):
                fails.append(dict(clause="overlay-of-parents" if j > 0 else "round-trip", level=j, which=which, got=rec[which], expected=e))
        if rec.get("second_trace"):
            fails.append(dict(clause="stored-result-served", level=j, executed=rec["second_trace"]))
        if rec.get("back_trace"):
            fails.append(dict(clause="stored-result-served", level=j, which="after purging the cache", executed=rec["back_trace"]))
    if "reret" in out:
        e = exp[-1]
        for which in ("first", "back"):
            v = out["reret"][which]
            if "error" in v or v["keys"] != e["keys"] or json.dumps(v["vals"], sort_keys=True) != json.dumps(e["vals"], sort_keys=True):
                fails.append(dict(clause="round-trip", level="returned-again", which=which, got=v, expected=dict(keys=e["keys"], vals=e["vals"])))
        if out["reret"]["back_trace"]:
            fails.append(dict(clause="stored-result-served", level="returned-again", executed=out["reret"]["back_trace"]))
    return fails


def model_views(sc):
    """the same chain through the Lean model; flags as the real run realises them"""
    kid = {k: i + 1 for i, k in enumerate(KEYS)}
    lines = ["reset"]
    for j, lv in enumerate(sc["levels"]):
        kv = ",".join("%d:%d" % (kid[k], v + 1) for k, v in lv["own"].items()) or "-"
        nxt = sc["levels"][j + 1]["from_store"] if j + 1 < len(sc["levels"]) else (sc["levels"][-1]["from_store"] if sc["reret"] else False)
        flag = effective_flag(sc, j, nxt)
        lines.append("level %s %d" % (kv, 1 if flag else 0))
    if sc["reret"]:
        lines.append("reret 1")
    outs = common.model_batch("partition", lines)[1:]
    rk = {v: k for k, v in kid.items()}

    def parse(s):
        if s == "ioerror":
            return dict(error="ioerror")
        d = dict(x.split("=", 1) for x in s.split(" "))
        vals = {}
        for kvs in d["vals"].split(","):
            if kvs:
                a, b = kvs.split(":")
                vals[rk[int(a)]] = VALUES[int(b) - 1]
        return dict(keys=[rk[int(x)] for x in d["keys"].split(",") if x], own=[rk[int(x)] for x in d["own"].split(",") if x], vals=vals)
    res = []
    for o in outs:
        if o == "ioerror":
            res.append(dict(first=dict(error="ioerror"), back=dict(error="ioerror")))
        else:
            f, b = o.split(" | ")
            res.append(dict(first=parse(f[len("first "):]), back=parse(b[len("back "):])))
    return res


def effective_flag(sc, j, planned_next):
    """how level j+1 really obtains level j's result in the real run"""
    if sc["backend"] == "memory":
        return False
    if sc["mode"] == "top-down":
        return False                    # everything is computed inside one cold call: objects handed back
    if sc["backend"] == "fs":
        return True                     # no cache: a memoized parent always comes from the store
    return planned_next


def compare_model(sc, out, mv):
    diffs = []
    n = len(sc["levels"])
    for j in range(n):
        real = out["levels"][j]
        for which, mw in (("first", "first"), ("back", "back")):
            if which not in real:
                continue
            r, mo = real[which], mv[j][mw]
            if ("error" in r) != ("error" in mo):
                diffs.append(dict(level=j, which=which, real=r, model=mo))
            elif "error" not in r and (r["keys"] != mo["keys"] or r["own"] != mo["own"] or
                                       json.dumps(r["vals"], sort_keys=True) != json.dumps(mo["vals"], sort_keys=True)):
                diffs.append(dict(level=j, which=which, real=r, model=mo))
    if sc["reret"] and "reret" in out and len(mv) > n:
        r, mo = out["reret"]["back"], mv[n]["back"]
        if ("error" in r) != ("error" in mo) or ("error" not in r and (r["keys"] != mo["keys"] or json.dumps(r["vals"], sort_keys=True) != json.dumps(mo["vals"], sort_keys=True))):
            diffs.append(dict(level="returned-again", which="back", real=r, model=mo))
    return diffs


def run_one(sc, root):
    out = run_real(sc, root)
    return out, judge(sc, out), compare_model(sc, out, model_views(sc))


UNWRITTEN_SRC = '''from twosigma.memento import memento_function
from twosigma.memento.partition import InMemoryPartition
from twosigma.memento.storage_filesystem import OnDiskPartition


@memento_function(cluster="c17")
def parent_b():
    base = InMemoryPartition({"a": 1, "b": 2})            # built in memory, never written
    result = %s
    result._merge_parent = base
    return result


@memento_function(cluster="c17")
def child_b():
    child = InMemoryPartition({"c": 300, "d": 400})
    child._merge_parent = parent_b()
    return child


@memento_function(cluster="c17")
def grandchild_b():
    g = InMemoryPartition({"e": 5})
    g._merge_parent = child_b()
    return g
'''


STAGED_SRC = '''from twosigma.memento import memento_function
from twosigma.memento.partition import InMemoryPartition
from twosigma.memento.storage_filesystem import OnDiskPartition
import gc


@memento_function(cluster="c17")
def parent_s():
    return InMemoryPartition({"a": 1, "b": [2, 3]})


@memento_function(cluster="c17")
def holder_s():
    p = parent_s()                      # stored (or served): p knows where its entries live
    d = OnDiskPartition()
    d["nested"] = p                     # ... and is staged as a value of an on-disk partition
    d["x"] = 5
    %s
    child = InMemoryPartition({"c": 4, "a": 10})
    child._merge_parent = p
    return child


@memento_function(cluster="c17")
def both_s():
    p = parent_s()
    d = OnDiskPartition()
    d["nested"] = p
    d["own"] = [7]
    d._merge_parent = p                 # the on-disk partition itself is merged on the partition it also holds as a value
    return d
'''


def staged_parent_scenario(root, backend, keep):
    """F29: a partition that is (also) staged as a value of an OnDiskPartition still merges as a parent; everything reads back"""
    import twosigma.memento as m
    from twosigma.memento import Environment, ConfigurationRepository, FunctionCluster
    from twosigma.memento.storage_filesystem import FilesystemStorageBackend
    mk = lambda: FilesystemStorageBackend(path=os.path.join(root, "store_s"), memory_cache_mb=(10 if backend == "fscache" else None))
    prev_env = m.Environment.get()
    env = lambda st: Environment(name="c17", base_dir=root, repos=[ConfigurationRepository(name="r", clusters={"c17": FunctionCluster(name="c17", storage=st)})])
    m.Environment.set(env(mk()))
    _counter[0] += 1
    modname = "c17g_%d_%d" % (os.getpid(), _counter[0])
    src = STAGED_SRC % ("pass" if keep else "del d\n    gc.collect()")
    fname = "<%s>" % modname
    linecache.cache[fname] = (len(src), None, src.splitlines(True), fname)
    mod = types.ModuleType(modname)
    mod.__package__ = ""
    sys.modules[modname] = mod
    fails = []
    try:
        exec(compile(src, fname, "exec"), mod.__dict__)
        want = {"holder_s": {"a": 10, "b": [2, 3], "c": 4}, "both_s": {"a": 1, "b": [2, 3], "nested": {"a": 1, "b": [2, 3]}, "own": [7]}}
        for fn in ("holder_s", "both_s"):
            for i, which in enumerate(("first call", "second call", "another backend object over the same store")):
                if i == 2:
                    m.Environment.set(env(mk()))
                v = call_view(getattr(mod, fn))
                if "error" in v or v["vals"] != want[fn] or v["keys"] != sorted(want[fn]):
                    fails.append(dict(clause="overlay-of-parents", level=fn, which=which, got=v, expected=want[fn]))
                    break
            if fails:
                break
    finally:
        m.Environment.set(prev_env)
        sys.modules.pop(modname, None)
    return fails


def unwritten_parent_scenario(root, backend, staging):
    """a partition merged on a parent that only exists in memory cannot be written (the library refuses: the runner logs the
    error and hands the object back); used as a merge parent itself, it must still contribute all of its entries to whatever
    is served for its children, on the first call and on every later one. Returns failures."""
    import logging
    import twosigma.memento as m
    from twosigma.memento import Environment, ConfigurationRepository, FunctionCluster
    from twosigma.memento.storage_filesystem import FilesystemStorageBackend
    st = FilesystemStorageBackend(path=os.path.join(root, "store_u"), memory_cache_mb=(10 if backend == "fscache" else None))
    prev_env = m.Environment.get()
    m.Environment.set(Environment(name="c17", base_dir=root, repos=[
        ConfigurationRepository(name="r", clusters={"c17": FunctionCluster(name="c17", storage=st)})]))
    _counter[0] += 1
    modname = "c17u_%d_%d" % (os.getpid(), _counter[0])
    body = ('InMemoryPartition({"b": 20, "c": 30})' if staging == "mem" else 'OnDiskPartition()\n    result["b"] = 20\n    result["c"] = 30')
    src = UNWRITTEN_SRC % body
    fname = "<%s>" % modname
    linecache.cache[fname] = (len(src), None, src.splitlines(True), fname)
    mod = types.ModuleType(modname)
    mod.__package__ = ""
    sys.modules[modname] = mod
    fails = []
    lg = logging.getLogger("memento")
    level = lg.level
    lg.setLevel(logging.CRITICAL + 1)
    try:
        exec(compile(src, fname, "exec"), mod.__dict__)
        want = {"parent_b": {"a": 1, "b": 20, "c": 30}, "child_b": {"a": 1, "b": 20, "c": 300, "d": 400},
                "grandchild_b": {"a": 1, "b": 20, "c": 300, "d": 400, "e": 5}}
        for fn in ("child_b", "grandchild_b", "parent_b"):
            for i in (1, 2, 3):
                v = call_view(getattr(mod, fn))
                if "error" in v or v["vals"] != want[fn] or v["keys"] != sorted(want[fn]):
                    fails.append(dict(clause="overlay-of-parents", level=fn, which="call %d" % i, got=v, expected=want[fn], staging=staging))
                    break
            if fails:
                break
    finally:
        lg.setLevel(level)
        m.Environment.set(prev_env)
        sys.modules.pop(modname, None)
    return fails


def corpus():
    lv = lambda own, staging="mem", fs=False: dict(own=own, staging=staging, from_store=fs)
    return [
        # F7: parents handed back by the computing call / served by the cache; on-disk staging
        dict(backend="fs", mode="top-down", reret=False, levels=[lv({"a": 0, "b": 1}), lv({"b": 2, "c": 3}), lv({"c": 4, "d": 5})]),
        dict(backend="fscache", mode="bottom-up", reret=False, levels=[lv({"a": 0, "b": 1}), lv({"b": 2, "c": 3}), lv({"c": 4, "d": 5})]),
        dict(backend="fs", mode="bottom-up", reret=False, levels=[lv({"a": 0, "b": 3}, "disk")]),
        dict(backend="fscache", mode="bottom-up", reret=False, levels=[lv({"a": 0}, "disk"), lv({"b": 1}, "disk", False), lv({"a": 2}, "mem", True)]),
        # F20: a read-back partition with inherited keys is returned again
        dict(backend="fs", mode="bottom-up", reret=True, levels=[lv({"a": 0, "b": 1}), lv({"b": 2, "c": 3}, "mem", True)]),
        dict(backend="fscache", mode="bottom-up", reret=True, levels=[lv({"a": 0}), lv({"c": 3}, "disk", True), lv({}, "mem", True)]),
        # staging on disk: equal values under several keys, one of them assigned again
        dict(backend="fs", mode="bottom-up", reret=False, levels=[dict(own={"a": 14, "b": 14, "c": 3}, staging="disk", from_store=False,
                                                                         pre=[["c", 14], ["a", 3]])]),
        dict(backend="fscache", mode="bottom-up", reret=False, levels=[lv({"a": 0}), dict(own={"b": 14, "c": 14, "d": 17}, staging="disk", from_store=True,
                                                                                        pre=[["d", 14]])]),
        # many keys holding distinct values of one kind, loaded on demand while being stored (on-disk staging; returned again)
        dict(backend="fs", mode="bottom-up", reret=True, levels=[dict(own={"a": 10, "b": 11, "c": 12, "d": 13, "e": 5, "f": 10, "g": 12}, staging="disk", from_store=True)]),
        dict(backend="fs", mode="bottom-up", reret=True, levels=[dict(own={"a": 4, "b": 15, "c": 16, "d": 4, "e": 15}, staging="disk", from_store=True),
                                                                 dict(own={"f": 3, "g": 17, "a": 18}, staging="disk", from_store=True)]),
        # entries added to the wrapped dictionary after the function asked for the key list
        dict(backend="fs", mode="bottom-up", reret=False, levels=[dict(own={"a": 0, "b": 1, "c": 3, "d": 17}, staging="mem", from_store=False, late=["c", "d"])]),
        dict(backend="fscache", mode="bottom-up", reret=False, levels=[lv({"a": 0, "c": 2}), dict(own={"b": 1, "c": 3, "a": 17}, staging="mem", from_store=True, late=["c", "a"])]),
        # every level published under one key override; all of them read back from disk in one process
        dict(backend="fs", mode="bottom-up", reret=False, override=True, levels=[lv({"a": 0, "b": 1}), lv({"b": 2, "c": 3}, "mem", True), lv({"d": 4}, "disk", True)]),
        dict(backend="fscache", mode="bottom-up", reret=True, override=True, levels=[lv({"a": 10, "b": 11}, "disk"), lv({"a": 12}, "mem", True)]),
        # keys containing '#', published under a key override and read back
        dict(backend="fs", mode="bottom-up", reret=False, override=True, levels=[lv({"k#1": 0, "#": 1, "a": 2}), lv({"k#1": 3, "b": 4}, "disk", True)]),
        # a value that is itself a partition, staged on disk / in memory
        dict(backend="fs", mode="bottom-up", reret=False, levels=[dict(own={"a": NESTED, "b": 1}, staging="disk", from_store=False), lv({"c": NESTED}, "mem", True)]),
        dict(backend="fscache", mode="bottom-up", reret=True, levels=[dict(own={"a": NESTED}, staging="disk", from_store=True)]),
        # partitions built from a defaultdict, with parent-only keys, with and without memory cache
        dict(backend="fscache", mode="bottom-up", reret=False, levels=[lv({"a": 3, "b": 17, "c": 18}), dict(own={"a": 14, "d": 3}, staging="memdd", from_store=False)]),
        dict(backend="fs", mode="top-down", reret=False, levels=[lv({"a": 3, "b": 17}), dict(own={"c": 14}, staging="memdd", from_store=False), lv({"e": 0}, "memdd")]),
    ]


def main(chk, replay=None):
    if replay is not None and replay.get("staged"):
        root = tempfile.mkdtemp(prefix="c17r_")
        try:
            fails = staged_parent_scenario(root, *replay["staged"])
            print(json.dumps(dict(still_fails=bool(fails), observed=fails[:2]), default=str))
            return 1 if fails else 0
        finally:
            shutil.rmtree(root, ignore_errors=True)
    if replay is not None and replay.get("unwritten"):
        root = tempfile.mkdtemp(prefix="c17r_")
        try:
            fails = unwritten_parent_scenario(root, *replay["unwritten"])
            print(json.dumps(dict(still_fails=bool(fails), observed=fails[:2]), default=str))
            return 1 if fails else 0
        finally:
            shutil.rmtree(root, ignore_errors=True)
    if replay is not None:
        root = tempfile.mkdtemp(prefix="c17r_")
        try:
            out, fails, diffs = run_one(replay["scenario"], root)
            print(json.dumps(dict(still_fails=bool(fails), observed=fails[:2], model_diffs=diffs[:2]), default=str))
            return 1 if fails else 0
        finally:
            shutil.rmtree(root, ignore_errors=True)
    chk.rule = ("chains of 1..k memento functions returning partitions (0-3 of 5 string keys per level, overlapping; values of 10 "
                "kinds; in-memory or on-disk staging) x provenance of each parent {object handed back / served by the cache, read "
                "back from the store} x backends {filesystem, filesystem + memory cache, memory} x {bottom-up, one cold top-level "
                "call} x optionally a function returning the last partition again. Distinct = distinct scenario; non-trivial = "
                "chain length >= 2 or on-disk staging.")
    proof_ok = chk.build_and_audit()
    quick = chk.tier == "quick"
    rng = chk.rng
    n = 120 if quick else 2500
    maxlen = 4 if quick else 5
    scs = corpus() + [gen_scenario(rng, maxlen) for _ in range(n)]
    reported = 0
    for backend, keep in (("fs", False), ("fs", True), ("fscache", False), ("fscache", True)):
        root = tempfile.mkdtemp(prefix="c17g_", dir=chk.tmpdir())
        try:
            sf_ = staged_parent_scenario(root, backend, keep)
        finally:
            shutil.rmtree(root, ignore_errors=True)
        chk.case(["parent-also-staged-as-a-value", backend, keep], nontrivial=True, sample=dict(kind="merge parent staged as a value of an on-disk partition", backend=backend))
        chk.count("staged-parent-chains")
        if sf_:
            chk.violation({"what": "partition merged on a parent that is also staged as a value of an on-disk partition (%s): %s at %s (%s)" % (
                backend, sf_[0]["clause"], sf_[0]["level"], sf_[0]["which"]), "class": {"clause": sf_[0]["clause"], "backend": backend, "staged": True},
                "staged": [backend, keep], "observed": sf_[:2], "source": STAGED_SRC})
    for backend, staging in (("fs", "mem"), ("fscache", "mem"), ("fs", "disk"), ("fscache", "disk")):
        root = tempfile.mkdtemp(prefix="c17u_", dir=chk.tmpdir())
        try:
            uf = unwritten_parent_scenario(root, backend, staging)
        finally:
            shutil.rmtree(root, ignore_errors=True)
        chk.case(["parent-that-could-not-be-written", backend, staging], nontrivial=True, sample=dict(kind="merge parent only in memory", backend=backend))
        chk.count("unwritten-parent-chains")
        if uf:
            chk.violation({"what": "partition merged on a parent that could not be written (%s, %s): %s at %s (%s)" % (
                backend, staging, uf[0]["clause"], uf[0]["level"], uf[0]["which"]), "class": {"clause": uf[0]["clause"], "backend": backend, "unwritten": True},
                "unwritten": [backend, staging], "observed": uf[:2], "source": UNWRITTEN_SRC})
    for sc in scs:
        root = tempfile.mkdtemp(prefix="c17_", dir=chk.tmpdir())
        try:
            out, fails, diffs = run_one(sc, root)
        finally:
            shutil.rmtree(root, ignore_errors=True)
        chk.case(sc, nontrivial=len(sc["levels"]) >= 2 or any(l["staging"] == "disk" for l in sc["levels"]),
                 sample=dict(scenario=sc, last_level=out["levels"][-1].get("second")))
        chk.count("backend:" + sc["backend"])
        chk.count("chain-length:%d" % len(sc["levels"]))
        chk.count("mode:" + sc["mode"])
        if sc["reret"]:
            chk.count("returned-again")
        for l in sc["levels"]:
            chk.count("staging:" + l["staging"])
        for d in diffs[:1]:
            chk.correspondence_break("partition-model", dict(diff=d, scenario=sc))
        if fails and reported < 5:
            f = fails[0]
            p = chk.violation({"what": "partition chain on %s: %s at level %s (%s)" % (sc["backend"], f["clause"], f.get("level"), f.get("which", "")),
                               "class": {"clause": f["clause"], "backend": sc["backend"]}, "scenario": sc, "observed": fails[:3],
                               "source": out.get("source")})
            if p:
                reported += 1


if __name__ == "__main__":
    sys.exit(run_check(PROP, main, sys.argv[1:]))
