"""Child process of the C12 check: one *phase* of an evolution scenario in a fresh interpreter.
Usage: c12child.py '<json spec>'

spec = {root, pkgdir, clusters: [names, null = default], modules: [names of the edition's modules],
        observe: {module, function, arg, list: [cluster names]}, describe: [module names]}
The edition's files were written to pkgdir by the parent. Prints one JSON document:
  {obs: <c12world.observe_function>, codebase: <c12world.describe_codebase>}
"""
import json
import logging
import os
import sys


def main():
    spec = json.loads(sys.argv[1])
    sys.path.insert(0, os.path.dirname(os.path.abspath(__file__)))
    sys.path.insert(0, spec["pkgdir"])
    import twosigma.memento as m  # noqa: F401
    logging.getLogger("memento").setLevel(logging.CRITICAL + 1)
    import c12world
    clusters = {c: None for c in spec["clusters"]}
    c12world.make_env(spec["root"], clusters, "fs")
    o = spec["observe"]
    out = {}
    ok, v = c12world.guarded(lambda: c12world.observe_function(o["module"], o["function"], o["arg"], o["list"]))
    out["obs"] = [ok, v]
    out["codebase"] = c12world.describe_codebase(spec["describe"])
    sys.stdout.write(json.dumps(out) + "\n")
    sys.stdout.flush()


if __name__ == "__main__":
    main()
