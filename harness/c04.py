"""C04 — argument identity: the memo key is canonical in the bound argument values.

Lean: Model/Json.lean (normalized JSON as tokens), Model/ArgHash.lean (encode / decode / normalize /
effective kwargs / key tokens), Props/C04.lean. Correspondence: value trees and presentations on
the real ArgumentHasher / FunctionReferenceWithArguments vs `mmodel arghash` — the model prints the
canonical JSON *string*; it is compared byte for byte with the real normalized JSON and its SHA-256
with the real arg_hash (independent implementation of the documented algorithm).
Oracle: equal normalized bindings <=> equal arg_hash, over all enumerated presentations and
near-miss pairs; body receives the normalized values; real hit/miss behaviour.
"""
import datetime

import dateutil.tz
import hashlib
import itertools
import json
import math
import sys

import common
from common import run_check, model_batch

PROP = "C04"


def hx(s):
    b = s.encode("utf-8")
    return b.hex() if b else "-"


def to_sexpr(v):
    from twosigma.memento.types import MementoFunctionType
    if v is None:
        return "N"
    if isinstance(v, bool):
        return "T" if v else "F"
    if isinstance(v, int):
        return "I%d" % v
    if isinstance(v, float):
        return "D" + hx(json.dumps(v))
    if isinstance(v, str):
        return "S" + hx(v)
    if isinstance(v, datetime.datetime):
        return "M" + hx(v.isoformat())
    if isinstance(v, datetime.date):
        return "A" + hx(v.isoformat())
    if isinstance(v, (list, tuple)):
        return "L ( " + "".join(to_sexpr(x) + " " for x in v) + ")"
    if isinstance(v, dict):
        return "O ( " + "".join(hx(k) + " " + to_sexpr(x) + " " for k, x in v.items()) + ")"
    if isinstance(v, MementoFunctionType):
        r = v.fn_reference()
        return "R " + hx(r.qualified_name) + " ( " + "".join(to_sexpr(x) + " " for x in (r.partial_args or ())) + ") ( " + \
            "".join(hx(k) + " " + to_sexpr(x) + " " for k, x in (r.partial_kwargs or {}).items()) + ") ( " + \
            "".join(hx(n) + " " for n in r.parameter_names) + ")"
    raise ValueError(type(v))


def sorted_obj(d):
    return "".join(hx(k) + " " + to_sexpr(d[k]) + " " for k in sorted(d))


LEAVES = None


def leaves():
    import c04fns
    tz = datetime.timezone
    td = datetime.timedelta
    return [
        None, True, False, 0, 1, -1, 2 ** 70, -(2 ** 63), 1.0, 0.0, -0.0, 1.5, 1e16, 1e22, 1e-7, float("nan"), float("inf"),
        float("-inf"), 0.1 + 0.2, "", "1", "true", "a b", "é", " x", "quote\"back\\slash", "tab\tnl\n", "\x00\x1f\x7f", "😀",
        "_mementoType", datetime.date(2020, 1, 1), datetime.date(999, 12, 31), datetime.datetime(2020, 1, 1),
        datetime.datetime(2020, 1, 1, 12, 30, 15, 123456), datetime.datetime(2020, 1, 1, tzinfo=tz.utc),
        datetime.datetime(2020, 1, 1, 5, 6, 7, 8, tzinfo=tz(td(hours=-3, minutes=-30))),
        datetime.datetime(2020, 6, 1, tzinfo=tz(td(hours=5, minutes=45))),
        datetime.datetime(2021, 1, 14, 12, 0, tzinfo=dateutil.tz.tzrange("CET", 3600, "CEST", 7200)),     # a zone with DST rules
        c04fns.target, c04fns.target.partial(1), c04fns.target.partial(y="k"), c04fns.target.partial(1, y=[1, {"z": None}]),
        [], {}, [[]], {"": 0},
    ]


def gen_value(rng, depth):
    L = leaves()
    if depth == 0 or rng.random() < 0.45:
        return rng.choice(L)
    if rng.random() < 0.5:
        return [gen_value(rng, depth - 1) for _ in range(rng.randint(0, 3))]
    keys = rng.sample(["a", "b", "z", "é", "A", "_", "aa", "a b", "10", "9", "iso8601", "à", "\U0001f600"], rng.randint(0, 4))
    return {k: gen_value(rng, depth - 1) for k in keys}


def same_norm(a, b):
    """structural, type-strict equality of normalized values (NaN equals NaN; -0.0 differs from 0.0)"""
    return to_sexpr(a) == to_sexpr(b)


def presentations(rng, params, kwonly, binding, limit=40):
    """all ways of presenting `binding`: the first i parameters as partial positional args, ANY subset of the
    others as partial kwargs, the first r of the names still unbound positionally, the rest as kwargs (both orders)"""
    n = len(params)
    res = []
    for i in range(0, n + 1):
        others = params[i:] + kwonly
        for k in range(0, len(others) + 1):
            for pk in itertools.combinations(others, k):
                remaining = [p for p in params[i:] if p not in pk]          # positional slots still open, in order
                for r in range(0, len(remaining) + 1):
                    kw = [p for p in remaining[r:]] + [p for p in kwonly if p not in pk]
                    for perm in ([kw, list(reversed(kw))] if len(kw) > 1 else [kw]):
                        res.append(dict(pargs=[binding[p] for p in params[:i]], pkw={p: binding[p] for p in pk},
                                        args=[binding[p] for p in remaining[:r]], kwargs={p: binding[p] for p in perm}))
    rng.shuffle(res)
    res = res[:limit]
    for pr in res:
        # the partial application is made in one step or in two chained ones (positional prefix cut anywhere, keywords dealt out)
        if len(pr["pargs"]) + len(pr["pkw"]) >= 2 and rng.random() < 0.6:
            pr["split"] = [rng.randint(0, len(pr["pargs"])), sorted(k for k in pr["pkw"] if rng.random() < 0.5)]
    return res


def make_partial(fn, pres):
    """the partial application a presentation describes (chained in two steps when it says so)"""
    if not (pres["pargs"] or pres["pkw"]):
        return fn
    if pres.get("split"):
        j, first_kw = pres["split"]
        f = fn.partial(*pres["pargs"][:j], **{k: v for k, v in pres["pkw"].items() if k in first_kw})
        return f.partial(*pres["pargs"][j:], **{k: v for k, v in pres["pkw"].items() if k not in first_kw})
    return fn.partial(*pres["pargs"], **pres["pkw"])


def real_fwa(fn, pres, ctx):
    from twosigma.memento.reference import FunctionReferenceWithArguments
    f = make_partial(fn, pres)
    return FunctionReferenceWithArguments(f.fn_reference(), tuple(pres["args"]), dict(pres["kwargs"]), ctx or None)


def effkw_line(names, pres, ctx):
    return "effkw ( " + "".join(hx(n) + " " for n in names) + ") " + to_sexpr(pres["pargs"]) + " " + to_sexpr(pres["pkw"]) + " " + \
        to_sexpr(pres["args"]) + " " + to_sexpr(pres["kwargs"]) + " " + to_sexpr(ctx or {})


def main(chk, replay=None):
    from twosigma.memento.reference import ArgumentHasher
    import twosigma.memento as m
    from twosigma.memento import Environment, ConfigurationRepository, FunctionCluster
    from twosigma.memento.storage_memory import MemoryStorageBackend
    import c04fns

    if replay is not None:
        print(json.dumps(dict(note="replays are self-contained: see 'what' / 'observed'", still_fails=None)))
        return 0

    chk.rule = ("typed value trees (depth <= 4) over None/bool/int (incl. 2^70)/float (NaN, +-inf, -0.0, 1e22)/str (escapes, "
                "non-BMP)/date/naive+aware datetime/list/dict/function references with partials; signatures of 1-5 "
                "parameters incl. keyword-only; all presentations (partial prefix x partial kwargs x positional x keyword "
                "order) and near-miss bindings (one value or type changed, also made by re-binding a partial keyword), context args, the batch entry points (call_batch / map_over_range) under context args. Distinct = distinct canonical "
                "value / (signature, binding, presentation); non-trivial = containers or presentations with >= 2 params.")
    chk.assumptions += ["json.dumps on primitives, float repr, datetime.isoformat/dateutil.isoparse, hashlib.sha256 are trusted; "
                        "the model's character rendering of primitives is validated here against them"]
    proof_ok = chk.build_and_audit()
    quick = chk.tier == "quick"
    rng = chk.rng
    nvals = 1500 if quick else 40000
    reported = 0

    def viol(what, cls, **kw):
        nonlocal reported
        if reported < 5:
            if chk.violation(dict(what=what, **{"class": cls}, **kw)):
                reported += 1

    # ---- stream 1: encode / normalized JSON / normalize on value trees ---------------------------
    vals = [gen_value(rng, rng.randint(0, 4)) for _ in range(nvals)] + leaves()
    if not quick:
        L = leaves()[:14]
        vals += [[a, b] for a in L for b in L] + [{"k": a, "j": b} for a in L for b in L]
    lines, metas = [], []
    for v in vals:
        s = to_sexpr(v)
        lines += ["enc " + s, "norm " + s]
    outs = model_batch("arghash", lines) if proof_ok else None
    by_json = {}
    for i, v in enumerate(vals):
        try:
            rj = ArgumentHasher._normalized_json(ArgumentHasher._encode(v))
            rn = ArgumentHasher.normalize(v)
        except Exception as e:
            viol("encode/normalize raised on a value of the documented domain", {"clause": "accepts-domain"}, value=to_sexpr(v), error=repr(e))
            continue
        chk.case(to_sexpr(v), nontrivial=isinstance(v, (list, dict)) and len(v) > 0,
                 sample=dict(value=repr(v)[:120], normalized_json=rj[:160]))
        chk.count("value:" + type(v).__name__)
        # oracle: injectivity on normalized values (type separation etc.)
        key = to_sexpr(rn) if not isinstance(rn, dict) else "O ( " + sorted_obj(rn) + ")"
        canon = canon_sexpr(rn)
        if rj in by_json and by_json[rj][0] != canon:
            viol("two different normalized values have the same canonical JSON (same arg hash)", {"clause": "injective"},
                 a=by_json[rj][1], b=repr(v)[:200], json=rj)
        by_json.setdefault(rj, (canon, repr(v)[:200]))
        # the normalized value is the value its canonical encoding denotes (observable behaviour included)
        if received_form(rn) != received_form(independent_normalize(v)):
            viol("normalize(v) is not the value the canonical encoding of v denotes", {"clause": "normalize-denotes"},
                 value=repr(v)[:200], normalized=repr(rn)[:200])
        # idempotence: normalize(normalize(v)) == normalize(v) and encodes equally
        rj2 = ArgumentHasher._normalized_json(ArgumentHasher._encode(rn))
        if rj2 != rj:
            viol("encoding of the normalized value differs from the encoding of the value", {"clause": "encode-normalize"}, value=repr(v)[:200])
        if outs:
            mj, mn = outs[2 * i], outs[2 * i + 1]
            if mj != hx(rj):
                chk.correspondence_break("normalized-json", dict(value=repr(v)[:200], real=rj, model=bytes.fromhex(mj).decode() if mj not in ("-", "bad-op") else mj))
            if mn != to_sexpr(rn):
                chk.correspondence_break("normalize", dict(value=repr(v)[:200], real=to_sexpr(rn), model=mn))
    # dict insertion order
    for _ in range(200 if quick else 3000):
        d = gen_value(rng, 3)
        if isinstance(d, dict) and len(d) > 1:
            items = list(d.items())
            rng.shuffle(items)
            d2 = dict(items)
            if ArgumentHasher.compute_hash({"x": d}) != ArgumentHasher.compute_hash({"x": d2}):
                viol("dictionary insertion order changes the key", {"clause": "dict-order"}, a=repr(d), b=repr(d2))
            chk.count("dict-order-pairs")

    # ---- stream 2: presentations ----------------------------------------------------------------
    orig_env = m.Environment.get()
    m.Environment.set(Environment(name="c04", repos=[ConfigurationRepository(name="r", clusters={
        "default": FunctionCluster(name="default", storage=MemoryStorageBackend())})]))
    try:
        nb = 60 if quick else 1200
        plines, pmeta = [], []
        for _ in range(nb):
            name = rng.choice(list(c04fns.SIGS))
            fn, params, kwonly = c04fns.SIGS[name]
            binding = {p: gen_value(rng, rng.randint(0, 2)) for p in params + kwonly}
            ctx = rng.choice([None, None, {}, {"k": 1}, {"k": 2}, {"k": 1, "j": [True]}])
            pres = presentations(rng, params, kwonly, binding, limit=12 if quick else 40)
            hashes = set()
            ref_norm = None
            for pr in pres:
                try:
                    fwa = real_fwa(fn, pr, ctx)
                except Exception as e:
                    viol("a well-formed presentation is rejected", {"clause": "presentation-accepted"}, fn=name, presentation=repr(pr)[:300], error=repr(e))
                    continue
                hashes.add(fwa.arg_hash)
                chk.case([name, to_sexpr(binding), to_sexpr(pr)], nontrivial=len(params) + len(kwonly) >= 2,
                         sample=dict(fn=name, presentation=repr(pr)[:200], arg_hash=fwa.arg_hash[:16]))
                chk.count("presentation")
                # (c) documented algorithm: sha256 of the canonical JSON of effective kwargs (+ context)
                ek = dict(fwa.effective_kwargs)
                if ctx:
                    ek["_memento_context_args"] = fwa.context_args
                doc = hashlib.sha256(ArgumentHasher._normalized_json(ArgumentHasher._encode(ek)).encode("utf-8")).hexdigest()
                if doc != fwa.arg_hash:
                    viol("arg_hash is not the documented digest", {"clause": "documented-algorithm"}, fn=name, presentation=repr(pr)[:300])
                if canon_sexpr(fwa.effective_kwargs) != canon_sexpr(ArgumentHasher.normalize(binding)):
                    viol("effective kwargs differ from the bound values", {"clause": "presentation-invariance"}, fn=name,
                         presentation=repr(pr)[:300], got=repr(fwa.effective_kwargs)[:300])
                plines.append(effkw_line(params + kwonly, pr, ctx))
                pmeta.append((name, pr, ctx, fwa.arg_hash, canon_sexpr(fwa.effective_kwargs)))
            if len(hashes) > 1:
                viol("equivalent presentations of one binding have different keys", {"clause": "presentation-invariance"},
                     fn=name, binding=repr(binding)[:300], n_hashes=len(hashes))
            # near misses: one value changed (or its type) => different key; context differs => different key
            base = real_fwa(fn, dict(pargs=[], pkw={}, args=[], kwargs=binding), ctx)
            for p in params + kwonly:
                for alt in near_misses(binding[p]):
                    b2 = dict(binding)
                    b2[p] = alt
                    other = real_fwa(fn, dict(pargs=[], pkw={}, args=[], kwargs=b2), ctx)
                    chk.count("near-miss")
                    if other.arg_hash == base.arg_hash:
                        viol("a different bound value (or type) gives the same key", {"clause": "injective"}, fn=name, param=p,
                             a=repr(binding[p])[:100], b=repr(alt)[:100])
                    # the same change made by re-binding an already bound partial keyword is the same call
                    try:
                        from twosigma.memento.reference import FunctionReferenceWithArguments as _FWA
                        reb = fn.partial(**{p: binding[p]}).partial(**{p: alt})
                        rk = _FWA(reb.fn_reference(), (), {q: v for q, v in b2.items() if q != p}, ctx or None)
                        chk.count("rebound-partial")
                        if rk.arg_hash != other.arg_hash or canon_sexpr(rk.effective_kwargs) != canon_sexpr(other.effective_kwargs):
                            viol("re-binding a partial keyword to another value does not give the key of that value",
                                 {"clause": "presentation-invariance", "via": "rebound-partial"}, fn=name, param=p,
                                 first=repr(binding[p])[:100], second=repr(alt)[:100], got=canon_sexpr(rk.effective_kwargs)[:300])
                    except Exception as e:
                        viol("re-binding a partial keyword raised", {"clause": "presentation-accepted", "via": "rebound-partial"}, fn=name, error=repr(e)[:200])
            for ctx2 in ({"k": 3}, {"k": "1"}, {"kk": 1}):
                if (ctx or {}) != ctx2:
                    o = real_fwa(fn, dict(pargs=[], pkw={}, args=[], kwargs=binding), ctx2)
                    if o.arg_hash == base.arg_hash:
                        viol("different context args give the same key", {"clause": "context"}, ctx_a=repr(ctx), ctx_b=repr(ctx2))
            e1 = real_fwa(fn, dict(pargs=[], pkw={}, args=[], kwargs=binding), {})
            e2 = real_fwa(fn, dict(pargs=[], pkw={}, args=[], kwargs=binding), None)
            if e1.arg_hash != e2.arg_hash:
                viol("empty context args change the key", {"clause": "context"})
            # (d) the body receives the normalized values; real hit / miss
            c04fns.REC.calls.clear()
            pr = pres[0]
            f = make_partial(fn, pr)
            try:
                f(*pr["args"], **pr["kwargs"])
                n1 = len(c04fns.REC.calls)
                pr2 = pres[-1]
                f2 = make_partial(fn, pr2)
                f2(*pr2["args"], **pr2["kwargs"])
                if len(c04fns.REC.calls) != n1:
                    viol("an equivalent presentation missed the memoized result", {"clause": "shares-result"}, fn=name)
                if n1 >= 1:
                    got = c04fns.REC.calls[0][1]
                    if canon_sexpr(got) != canon_sexpr(ArgumentHasher.normalize(binding)) or \
                            received_form(got) != received_form(independent_normalize(binding)):
                        viol("the body did not receive the normalized bound values", {"clause": "body-receives-normalized"},
                             fn=name, got=repr(got)[:300])
                chk.count("real-calls")
            except Exception as e:
                viol("calling with a well-formed presentation raised", {"clause": "presentation-accepted"}, fn=name, error=repr(e)[:300])
            fn.forget()
        if proof_ok and plines:
            outs = model_batch("arghash", plines)
            for o, (name, pr, ctx, ah, ek) in zip(outs, pmeta):
                if not o.startswith("json "):
                    chk.correspondence_break("effective-kwargs", dict(fn=name, presentation=repr(pr)[:300], model=o))
                    continue
                parts = o.split(" ", 3)
                js = bytes.fromhex(parts[1]) if parts[1] != "-" else b""
                if hashlib.sha256(js).hexdigest() != ah:
                    chk.correspondence_break("arg-hash", dict(fn=name, presentation=repr(pr)[:300], ctx=repr(ctx), model_json=js.decode()[:400], real_hash=ah))
                mk = "O ( " + parts[3] + ")" if len(parts) > 3 else "O ( )"
                if mk != ek:
                    chk.correspondence_break("effective-kwargs", dict(fn=name, presentation=repr(pr)[:300], model=mk, real=ek))
        # partial applications are values: deriving another partial from one must not change what the first one binds
        if True:
            from twosigma.memento.reference import FunctionReferenceWithArguments as FWA
            for first, second in (({"b": 1}, {"c": 2}), ({"b": 1}, {"b": 9}), ({"a": [1], "c": "x"}, {"c": "y", "b": 0})):
                p1 = c04fns.s3.partial(**first)
                rest = {k: 7 for k in ("a", "b", "c") if k not in first}
                k1 = FWA(p1.fn_reference(), (), dict(rest), None)
                h1, e1 = k1.arg_hash, canon_sexpr(k1.effective_kwargs)
                p2 = p1.partial(**second)                       # noqa: F841  (only its creation matters)
                k1b = FWA(p1.fn_reference(), (), dict(rest), None)
                k1c = FWA(c04fns.s3.fn_reference(), (), dict(first, **rest), None)
                if (k1b.arg_hash, canon_sexpr(k1b.effective_kwargs)) != (h1, e1) or k1c.arg_hash != h1:
                    viol("deriving a second partial changed what the first partial binds", {"clause": "presentation"},
                         first=first, second=second, before=e1, after=canon_sexpr(k1b.effective_kwargs))
                c04fns.REC.calls.clear()
                p1(**rest)
                got = c04fns.REC.calls[0][1] if c04fns.REC.calls else None
                if got is not None and canon_sexpr(got) != canon_sexpr(dict(first, **rest)):
                    viol("the body did not receive the normalized bound values", {"clause": "body-receives-normalized"}, fn="s3",
                         got=repr(got)[:200], expected=repr(dict(first, **rest)))
                c04fns.s3.forget_all()
            chk.count("chained-partial-scenarios")
        # every entry point keys a call alike: single call, call_batch and map_over_range, with and without context args
        for ei in range(12 if quick else 120):
            name = rng.choice(["s1", "s2", "s3", "s4"])
            fn, params, kwonly = c04fns.SIGS[name]
            binding = {p: gen_value(rng, rng.randint(0, 1)) for p in params + kwonly}
            ctx = rng.choice([{"tenant": "a"}, {"k": 1}, {"k": 1, "j": [True]}, {}])
            other_ctx = rng.choice([{"tenant": "b"}, {"k": 2}, {"k": "1"}])
            if canon_sexpr(ctx) == canon_sexpr(other_ctx):
                continue
            entry = rng.choice(["call_batch", "map_over_range"])
            hashable = [q for q in params + kwonly if not isinstance(binding[q], (list, dict))]    # the range's values key the answer
            if not hashable:
                entry = "call_batch"
            bound = fn.with_context_args(ctx) if ctx else fn
            want_key = real_fwa(fn, dict(pargs=[], pkw={}, args=[], kwargs=binding), ctx).arg_hash
            fn.forget_all()
            c04fns.REC.calls.clear()
            try:
                if entry == "call_batch":
                    bound.call_batch([dict(binding)])
                else:
                    free = rng.choice(hashable)
                    rest = {q: v for q, v in binding.items() if q != free}
                    (bound.partial(**rest) if rest else bound).map_over_range(**{free: [binding[free]]})
                n0 = len(c04fns.REC.calls)
                stored = [mm.invocation_metadata.fn_reference_with_args.arg_hash for mm in fn.list_mementos()]
                bound(**binding)
                n1 = len(c04fns.REC.calls)
                fn.with_context_args(other_ctx)(**binding)
                n2 = len(c04fns.REC.calls)
                if ctx:
                    fn(**binding)
                n3 = len(c04fns.REC.calls)
            except Exception as e:
                viol("an entry point raised on a well-formed call", {"clause": "presentation-accepted", "via": entry}, fn=name, error=repr(e)[:300])
                continue
            chk.case(["entry", name, entry, to_sexpr(binding), to_sexpr(ctx)], nontrivial=True,
                     sample=dict(fn=name, entry=entry, context_args=ctx, key=want_key[:16]))
            chk.count("entry-point:" + entry)
            if n0 != 1 or stored != [want_key]:
                viol("%s stored the call under another key than the single call uses" % entry, {"clause": "presentation-invariance", "via": entry},
                     fn=name, context_args=ctx, stored=[h[:16] for h in stored], expected=want_key[:16], executions=n0)
            elif n1 != n0:
                viol("a single call missed the result %s had just memoized under the same context args" % entry,
                     {"clause": "shares-result", "via": entry}, fn=name, context_args=ctx)
            elif n2 != n1 + 1 or (ctx and n3 != n2 + 1):
                viol("a call under different context args was served the result of %s" % entry, {"clause": "context", "via": entry},
                     fn=name, context_args=ctx, other=other_ctx)
            fn.forget_all()
        # a nested call that inherits its caller's context arguments is keyed with them (stored under the documented key, served
        # separately per context)
        for ni in range(4 if quick else 40):
            v = gen_value(rng, rng.randint(0, 1))
            ctxs = [{"tenant": "a"}, {"tenant": "b"}, {"k": 1, "j": [True]}]
            rng.shuffle(ctxs)
            c04fns.s1.forget_all()
            c04fns.n_outer.forget_all()
            c04fns.n_top.forget_all()
            c04fns.REC.calls.clear()
            entry_fn = c04fns.n_top if ni % 2 else c04fns.n_outer          # (one or two frames above the keyed call)
            try:
                seen = []
                for cx in ctxs[:2]:
                    entry_fn.with_context_args(cx)(v)
                    seen.append(sorted(mm.invocation_metadata.fn_reference_with_args.arg_hash for mm in c04fns.s1.list_mementos()))
                entry_fn(v)
                inner_runs = len([c for c in c04fns.REC.calls if c[0] == "s1"])
                want = [real_fwa(c04fns.s1, dict(pargs=[], pkw={}, args=[], kwargs={"a": v}), cx).arg_hash for cx in ctxs[:2]]
            except Exception as e:
                viol("a nested call under context args raised", {"clause": "presentation-accepted", "via": "nested"}, error=repr(e)[:300])
                continue
            chk.case(["nested-context", to_sexpr(v), to_sexpr(ctxs[:2])], nontrivial=True, sample=dict(kind="nested call inheriting context args", contexts=ctxs[:2]))
            chk.count("entry-point:nested-inherited-context")
            if seen[0] != [want[0]] or seen[1] != sorted(want):
                viol("a nested call that inherits context args is not stored under the key of those context args", {"clause": "context", "via": "nested"},
                     contexts=ctxs[:2], stored=[[h[:16] for h in x] for x in seen], expected=[h[:16] for h in want])
            elif inner_runs != 3:
                viol("nested calls under different context args shared a result", {"clause": "context", "via": "nested"}, contexts=ctxs[:2], executions=inner_runs)
        c04fns.s1.forget_all()
        c04fns.n_outer.forget_all()
        c04fns.n_top.forget_all()
        # malformed stream: both sides reject
        for bad in [(1, 2), {1, 2}, {1: 2}, b"x", object(), complex(1, 2), [b"x"], {"a": (1,)}]:
            try:
                real_fwa(c04fns.s1, dict(pargs=[], pkw={}, args=[bad], kwargs={}), None)
                chk.count("malformed-accepted:" + type(bad).__name__)     # (not required by the property)
            except Exception:
                chk.count("malformed-rejected")
    finally:
        m.Environment.set(orig_env)


def received_form(v):
    """what the body can observe of a value: like canon_sexpr, plus — for datetimes — how the value behaves under date
    arithmetic (a zone with daylight-saving rules and the fixed offset it denotes at one instant are different values)"""
    if isinstance(v, dict):
        return "O ( " + "".join(hx(k) + " " + received_form(v[k]) + " " for k in sorted(v)) + ")"
    if isinstance(v, (list, tuple)):
        return "L ( " + "".join(received_form(x) + " " for x in v) + ")"
    if isinstance(v, datetime.datetime):
        return "M" + hx(v.isoformat()) + "+" + hx((v + datetime.timedelta(days=190)).isoformat())
    return to_sexpr(v)


def independent_normalize(v):
    """the normalized value by the documented rule, without the library: values are what their canonical encoding denotes
    (a datetime is the instant + offset of its ISO-8601 text)"""
    if isinstance(v, dict):
        return {k: independent_normalize(x) for k, x in v.items()}
    if isinstance(v, (list, tuple)):
        return [independent_normalize(x) for x in v]
    if isinstance(v, datetime.datetime):
        return datetime.datetime.fromisoformat(v.isoformat())
    return v


def canon_sexpr(v):
    """to_sexpr with dict keys sorted (recursively): equality of normalized values as maps"""
    if isinstance(v, dict):
        return "O ( " + "".join(hx(k) + " " + canon_sexpr(v[k]) + " " for k in sorted(v)) + ")"
    if isinstance(v, (list, tuple)):
        return "L ( " + "".join(canon_sexpr(x) + " " for x in v) + ")"
    return to_sexpr(v)


def near_misses(v):
    out = []
    if isinstance(v, bool):
        out += [int(v), not v, str(v).lower()]
    elif isinstance(v, int):
        out += [float(v) if abs(v) < 2 ** 53 else v + 1, str(v), v + 1, bool(v) if v in (0, 1) else -v if v else 1]
    elif isinstance(v, float):
        out += [str(v), -v if v == v and v != 0 else 1.25, int(v) if v == v and abs(v) < 1e15 and v == int(v) else 7]
        if v == 0:
            out.append(-v)
    elif isinstance(v, str):
        out += [v + " ", None if v else "x", [v]]
    elif isinstance(v, datetime.datetime):
        out += [v.date(), v.isoformat(), v.replace(tzinfo=datetime.timezone.utc) if v.tzinfo is None else v.replace(tzinfo=None),
                v + datetime.timedelta(microseconds=1)]
    elif isinstance(v, datetime.date):
        out += [datetime.datetime(v.year, v.month, v.day), v.isoformat()]
    elif v is None:
        out += [False, 0, "", [], {}]
    elif isinstance(v, list):
        out += [v + [None], {"0": 0}]
    elif isinstance(v, dict):
        out += [dict(v, extra=None), list(v.items()) and [list(x) for x in v.items()] or [[]]]
    res = []
    for o in out:
        try:
            if canon_sexpr(o) != canon_sexpr(v):
                res.append(o)
        except Exception:
            pass
    return res


if __name__ == "__main__":
    sys.exit(run_check(PROP, main, sys.argv[1:]))
