"""a memento function whose result depends on the *type* of its argument (C15 typed batches)"""
from twosigma.memento import memento_function


@memento_function(cluster="cp", version="1")
def ty(x):
    if isinstance(x, str):
        raise ValueError("zq1zq string argument %s" % x)
    return "%s:%r" % (type(x).__name__, x)
