"""a memento function whose result depends on the *type* of its argument (C15 typed batches)"""
from twosigma.memento import memento_function


@memento_function(cluster="cp", version="1")
def ty(x):
    if isinstance(x, str):
        raise ValueError("zq1zq string argument %s" % x)
    return "%s:%r" % (type(x).__name__, x)


EXECS = []


@memento_function(cluster="cp", version="1")
def child(x, factor=10, offset=0):
    EXECS.append(("child", x, factor, offset))
    if x % 7 == 3:
        raise ValueError("zq1zq bad element %d" % x)
    return x * factor + offset


def _show(r):
    return ("exc:" + type(r).__name__) if isinstance(r, BaseException) else r


@memento_function(cluster="cp", version="1")
def caller_batch(xs, tag):
    try:
        rs = child.call_batch([{"x": x} for x in xs], raise_first_exception=False)
    except RuntimeError as e:            # further calls prevented: the whole batch is refused
        rs = [e for _ in xs]
    return [_show(r) for r in rs]


@memento_function(cluster="cp", version="1")
def caller_single(xs, tag):
    out = []
    for x in xs:
        try:
            out.append(child(x))
        except Exception as e:
            out.append(_show(e))
    return out
