"""Child process of the C08 check: performs calls under an optional crash / fault plan and prints
one JSON document. Usage: c08child.py '<json spec>'

spec = {root, cache_mb|null, calls: [[fn, x], ...], fault: null | {kind: crash|crash_after|error_event|error_write|error_close, index: i},
        then: [[fn, x], ...]}      # `then`: calls made in the same process after the faulted phase
Mutating events under root are recorded by an audit hook and indexed 0.. in order of occurrence.
  crash:        os._exit(77) when event `index` is about to happen
  error_event:  OSError(ENOSPC) raised from the hook at event `index` (open-for-write, mkdir, rename, remove)
  error_write:  the file opened by event `index` (an open-for-write) accepts half of the first write, then EFBIG
  error_read:   OSError(ESTALE), once, when the file-open-for-reading number `index` under root is about to happen
  fsize:        the whole faulted phase runs under RLIMIT_FSIZE = `limit` bytes (kernel-level short writes, then EFBIG)
"""
import builtins
import errno
import io
import json
import logging
import os
import sys


def main():
    spec = json.loads(sys.argv[1])
    root = spec["root"]
    sys.path.insert(0, os.path.dirname(os.path.abspath(__file__)))
    import fsaudit
    import twosigma.memento as m
    logging.getLogger("memento").setLevel(logging.CRITICAL + 1)
    from twosigma.memento import Environment, ConfigurationRepository, FunctionCluster
    from twosigma.memento.storage_filesystem import FilesystemStorageBackend
    import c08fns

    kw = {}
    if spec.get("cache_mb"):
        kw["memory_cache_mb"] = spec["cache_mb"]
    st = FilesystemStorageBackend(path=os.path.join(root, "data"), **kw)
    m.Environment.set(Environment(name="c8", base_dir=root, repos=[
        ConfigurationRepository(name="r", clusters={"c8": FunctionCluster(name="c8", storage=st)})]))

    fault = spec.get("fault")
    state = {"n": 0, "reads": 0, "armed": fault is not None, "pending_write_fault": None}
    out = {"events": [], "results": [], "then": [], "reads": 0}

    def flush_and_exit():
        sys.stdout.write(json.dumps(out) + "\n")
        sys.stdout.flush()
        os._exit(77)

    def on_event(ev):
        if ev[0] == "open-r":
            # files under the root opened for reading are counted separately; `error_read` makes the read number `index` fail once
            r = state["reads"]
            state["reads"] += 1
            out["reads"] = state["reads"]
            if state["armed"] and fault is not None and fault["kind"] == "error_read" and r == fault["index"]:
                state["armed"] = False
                raise OSError(errno.ESTALE, "injected: stale file handle", ev[1])
            return
        i = state["n"]
        state["n"] += 1
        out["events"].append(list(ev))
        if not state["armed"] or fault is None or i != fault["index"]:
            return
        state["armed"] = False
        if fault["kind"] == "crash":
            out["events"].pop()           # the event did not happen
            flush_and_exit()
        if fault["kind"] == "error_event":
            out["events"].pop()
            raise OSError(errno.ENOSPC, "injected: no space left on device", ev[1])
        if fault["kind"] == "crash_after":
            # the operation completes, then the process dies (buffers of files that are still open are lost)
            if ev[0] == "os.rename":
                os.replace(ev[1], ev[2])
            flush_and_exit()
        if fault["kind"] in ("error_write", "error_close"):
            state["pending_write_fault"] = (ev[1], fault["kind"])

    # files opened for writing are wrapped so that a write fault can be injected
    real_open = io.open

    class Faulty:
        def __init__(self, f):
            self._f = f

        def write(self, data):
            half = data[: len(data) // 2]
            self._f.write(half)
            self._f.flush()
            raise OSError(errno.EFBIG, "injected: file too large")

        def __getattr__(self, a):
            return getattr(self._f, a)

        def __enter__(self):
            self._f.__enter__()
            return self

        def __exit__(self, *a):
            return self._f.__exit__(*a)

    class FaultyOnClose:
        """writes are accepted (buffered); the device reports the error when the data is flushed on close"""

        def __init__(self, f):
            self._f = f

        def write(self, data):
            return len(data)

        def flush(self):
            raise OSError(errno.EFBIG, "injected: file too large (on flush)")

        def close(self):
            self._f.close()
            raise OSError(errno.EFBIG, "injected: file too large (on close)")

        def __getattr__(self, a):
            return getattr(self._f, a)

        def __enter__(self):
            self._f.__enter__()
            return self

        def __exit__(self, *a):
            self._f.__exit__(*a)
            if a[0] is None:
                raise OSError(errno.EFBIG, "injected: file too large (on close)")
            return False

    def patched_open(file, mode="r", *a, **k):
        f = real_open(file, mode, *a, **k)
        p = state["pending_write_fault"]
        if p is not None and not isinstance(file, int) and os.path.abspath(os.fspath(file)) == p[0] and any(c in mode for c in "wax+"):
            state["pending_write_fault"] = None
            return Faulty(f) if p[1] == "error_write" else FaultyOnClose(f)
        return f

    io.open = patched_open
    builtins.open = patched_open

    held = []          # spec["hold"]: the caller keeps every result it got (as a program that goes on working with them does)

    def do_calls(calls, sink):
        for call in calls:
            name, x = call[0], call[1]
            fn = c08fns.FNS[name]
            if len(call) > 2 and call[2] == "ignore":
                fn = fn.ignore_result()            # the caller does not want the value (a warm-up call)
            before = len(c08fns.REC.calls)
            try:
                v = fn(x)
                res = c08fns.canon(v)
                if spec.get("hold"):
                    held.append(v)
                # every key of a partition must be loadable
            except Exception as e:
                res = ["raise", type(e).__name__, str(e)[:60].split("\n")[0]]
            ran = c08fns.REC.calls[before:]
            # executions of the called function itself, and of every function (nested calls included), each at most once
            sink.append(dict(call=list(call), result=res, execs=sum(1 for c in ran if c == (name, x)),
                             nested_max=max([ran.count(c) for c in set(ran)] or [0])))

    restore = None
    if fault is not None and fault["kind"] == "fsize":
        # a real kernel-level limit on the size of every file this process writes (RLIMIT_FSIZE, SIGXFSZ ignored): a write
        # that crosses the limit is cut short by the kernel and the next one fails with EFBIG
        import resource
        import signal
        signal.signal(signal.SIGXFSZ, signal.SIG_IGN)
        soft, hard = resource.getrlimit(resource.RLIMIT_FSIZE)
        resource.setrlimit(resource.RLIMIT_FSIZE, (int(fault["limit"]), hard))
        restore = lambda: resource.setrlimit(resource.RLIMIT_FSIZE, (soft, hard))
        state["armed"] = False
    with fsaudit.Recorder([root], fault=on_event):
        try:
            do_calls(spec.get("calls", []), out["results"])
        finally:
            if restore:
                restore()
    state["armed"] = False
    do_calls(spec.get("then", []), out["then"])
    sys.stdout.write(json.dumps(out) + "\n")


if __name__ == "__main__":
    main()
