"""Cooperative scheduler: run N thunks in N real threads and force a given interleaving at the granularity of
source lines of selected code objects (sys.settrace), so that a schedule replays deterministically.

A schedule is a list of segments (tid, nsteps): thread `tid` is granted `nsteps` steps (a step = run until the
next line event in traced code, or until the thread finishes); after the list is exhausted the remaining
threads run to completion one after the other (lowest tid first). A thread that does not reach its next line
event within `block_timeout` is considered blocked on a lock held by another (paused) thread: the scheduler
moves on and the thread re-joins when it arrives.
"""
import queue
import sys
import threading
import time


class Deadlock(Exception):
    pass


class Sched:
    def __init__(self, want_code, block_timeout=0.15, hard_timeout=30.0, want_call=None):
        """want_code(code) -> bool: trace line events of frames running this code object;
        want_call(code) -> bool: a yield point at the entry of every call of this code object (function-call granularity)"""
        self.want_code = want_code
        self.want_call = want_call
        self._ccache = {}
        self.block_timeout = block_timeout
        self.hard_timeout = hard_timeout
        self._cache = {}

    def _wanted(self, code):
        r = self._cache.get(code)
        if r is None:
            r = self._cache[code] = bool(self.want_code(code))
        return r

    def run(self, thunks, schedule):
        n = len(thunks)
        go = [threading.Semaphore(0) for _ in range(n)]
        events = queue.Queue()
        results = [None] * n
        steps = [0] * n
        trace = []                      # (tid, filename-less location) of every granted step, for diagnostics
        free_run = [False] * n          # once set, the thread no longer stops at line events

        def make_tracer(i):
            def local(frame, event, arg):
                if event == "line" and not free_run[i]:
                    events.put((i, "arrive", (frame.f_code.co_name, frame.f_lineno)))
                    go[i].acquire()
                return local

            def glob(frame, event, arg):
                if event == "call":
                    code = frame.f_code
                    if self.want_call is not None and not free_run[i]:
                        w = self._ccache.get(code)
                        if w is None:
                            w = self._ccache[code] = bool(self.want_call(code))
                        if w:
                            events.put((i, "arrive", (code.co_name, "call")))
                            go[i].acquire()
                    if self._wanted(code):
                        return local
                return None
            return glob

        def worker(i):
            sys.settrace(make_tracer(i))
            try:
                # first yield point: before anything runs
                events.put((i, "arrive", ("<start>", 0)))
                go[i].acquire()
                try:
                    results[i] = ("ok", thunks[i]())
                except BaseException as e:      # noqa: the outcome of the thread, whatever it is
                    results[i] = ("raise", type(e).__name__, str(e)[:200])
            finally:
                sys.settrace(None)
                events.put((i, "done", None))

        threads = [threading.Thread(target=worker, args=(i,), daemon=True) for i in range(n)]
        state = ["running"] * n          # running | waiting | blocked | done
        where = [None] * n
        for t in threads:
            t.start()

        def note(ev):
            i, kind, loc = ev
            if kind == "arrive":
                state[i] = "waiting"
                where[i] = loc
            else:
                state[i] = "done"
            return i

        def drain():
            while True:
                try:
                    note(events.get_nowait())
                except queue.Empty:
                    return

        def pump(timeout, until=None):
            """wait for arrival events; returns True when `until` (a tid) has arrived/finished, or — without `until` —
            when some event was processed; False on timeout"""
            deadline = time.time() + timeout
            while True:
                rem = deadline - time.time()
                if rem <= 0:
                    return False
                try:
                    i = note(events.get(timeout=rem))
                except queue.Empty:
                    return False
                if until is None or i == until:
                    return True

        # wait until every thread sits at its first yield point
        t0 = time.time()
        while any(s == "running" for s in state):
            pump(0.5)
            if time.time() - t0 > self.hard_timeout:
                raise Deadlock("threads did not start")

        def grant(i):
            state[i] = "running"
            steps[i] += 1
            trace.append((i, where[i]))
            go[i].release()
            if not pump(self.block_timeout, until=i):
                if state[i] == "running":
                    state[i] = "blocked"

        for tid, k in schedule:
            for _ in range(k):
                # a blocked thread may have arrived meanwhile
                drain()
                if state[tid] != "waiting":
                    break
                grant(tid)
        # tail: lowest waiting thread runs to completion, then the next
        t0 = time.time()
        while not all(s == "done" for s in state):
            drain()
            waiting = [i for i in range(n) if state[i] == "waiting"]
            if waiting:
                grant(waiting[0])
            else:
                # only blocked / running threads: wait for one to arrive
                if not pump(1.0):
                    if time.time() - t0 > self.hard_timeout:
                        # let everything go to avoid leaking parked threads
                        for i in range(n):
                            free_run[i] = True
                            go[i].release()
                        raise Deadlock("no thread can make progress: %s at %s" % (state, where))
            if time.time() - t0 > self.hard_timeout:
                for i in range(n):
                    free_run[i] = True
                    go[i].release()
                raise Deadlock("schedule did not finish: %s at %s" % (state, where))
        for t in threads:
            t.join(timeout=5)
        return results, steps, trace
