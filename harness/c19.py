"""C19 — read-only and null back-ends never write and never execute.

Lean: Props/C19.lean on Model/Store.lean (read-only FsBackend / MemBackend: the store component is
unchanged by every op list; answers = the dictionary's; mutators rejected) + null storage.
Correspondence / oracle: stores populated by a writable backend, reopened read-only (flag from
the constructor argument or from the config dict; with and without memory cache; shared / separate
metadata root); every op of the C05 language plus function-level calls; observed: API answers,
audit-hook mutation events under both roots, recursive tree snapshot before/after.
"""
import json
import os
import shutil
import sys
import tempfile

import common
from common import run_check, Model, ddmin
import storeworld as sw
import fsaudit

PROP = "C19"

RO_CONFIGS = [
    dict(kind="fs", separate=False, budget=None, source="arg"),
    dict(kind="fs", separate=True, budget=None, source="config"),
    dict(kind="fs", separate=False, budget=800, source="config"),
    dict(kind="fs", separate=True, budget=100000, source="arg"),
    dict(kind="fs", separate=False, budget=None, source="arg-over-config"),
    dict(kind="fs", separate=True, budget=800, source="arg-over-config"),
]


def open_ro(cfg, dirs):
    from twosigma.memento.storage_filesystem import FilesystemStorageBackend
    root, data, meta = dirs
    kw = {}
    conf = {}
    if cfg["source"] == "arg":
        kw.update(path=data, read_only=True)
        if cfg.get("separate"):
            kw["metadata_path"] = meta
    elif cfg["source"] == "arg-over-config":
        # the configuration object says "readonly": False (the dump of a writable backend does); the argument overrides it
        conf.update(path=data, readonly=False)
        kw.update(read_only=True)
        if cfg.get("separate"):
            conf["metadata_path"] = meta
    else:
        conf.update(path=data, readonly=True)
        if cfg.get("separate"):
            conf["metadata_path"] = meta
    if cfg.get("budget") is not None:
        kw["memory_cache_mb"] = cfg["budget"] / 2 ** 20
    return FilesystemStorageBackend(config=conf or None, **kw)


def scenario(cfg, pop_ops, ro_ops, use_model=True, root=None):
    """returns dict(fails=[...], mismatch=[...], transcript=[...])"""
    res = dict(fails=[], mismatch=[], transcript=[])
    w = sw.World(dict(kind="fs", separate=cfg.get("separate"), budget=None), root=root)
    oracle = sw.DictOracle()
    model = Model("store") if use_model else None
    try:
        if model:
            model.send("init fs %d - 0" % int(bool(cfg.get("separate"))))
        mid = 0
        for op in pop_ops:
            op = list(op)
            if not oracle.admissible(op):
                continue
            if op[0] == "memoize":
                mid += 1
                op = op[:5] + [mid]
            w.apply(op)
            oracle.step(op)
            if model:
                for ln in w.model_lines(op):
                    model.send(ln)
        dirs = (w.root, w.data_dir, w.meta_dir)
        roots = [w.data_dir, w.meta_dir]
        # reopen read-only
        ro = sw.World(dict(kind="fs", separate=cfg.get("separate"), budget=cfg.get("budget"), mid_base=mid),
                      reuse_dirs=dirs)
        try:
            ro.be = open_ro(cfg, dirs)
        except Exception as e:          # a store that a writable backend reads must open read-only as well
            res["fails"].append(dict(clause="reads-keep-working", step=0, op=["open-read-only"], error=repr(e)[:200], source=cfg["source"]))
            return res
        if not ro.be.read_only:
            res["fails"].append(dict(clause="read-only-flag-honoured", source=cfg["source"]))
        oracle.ro = True
        if model:
            model.send("ro 1")
            model.send("newcache %s" % ("-" if cfg.get("budget") is None else cfg["budget"]))
        for r_ in roots:
            if os.path.isdir(r_):
                age_tree(r_)
        before = fsaudit.snapshot(roots)
        with fsaudit.Recorder(roots) as rec:
            for i, op in enumerate(ro_ops):
                op = list(op)
                if op[0] == "wmeta" and not oracle.admissible(op):
                    pass       # on a read-only store even this must be rejected without writing
                if op[0] == "memoize":
                    mid += 1
                    op = op[:5] + [mid]
                real = ro.apply(op)
                want = oracle.step(op)
                mout = None
                mlines = ro.model_lines(op) if model else []
                if model:
                    for ln in mlines:
                        mout = model.send(ln)
                res["transcript"].append(dict(op=op, real=real, spec=want, model=mout))
                if real != want:
                    res["fails"].append(dict(clause="read-only-answers", step=i, op=op, real=real, expected=want))
                if model and mlines and mout != real:
                    res["mismatch"].append(dict(step=i, op=op, real=real, model=mout))
                if rec_mut(rec_events()):
                    res["fails"].append(dict(clause="no-mutation-under-storage-paths", step=i, op=op,
                                             events=rec_mut(rec_events())[:4]))
                if res["fails"] or res["mismatch"]:
                    break
            # metadata stored next to the data object (store_with_content_key) is a write as well
            if not res["fails"]:
                for (m0, B0) in [c for c in w.created if c[0].content_key is not None][:2]:
                    fr = m0.invocation_metadata.fn_reference_with_args.fn_reference_with_arg_hash()
                    try:
                        ro.be.write_metadata(fr, "log", b"meta1", store_with_content_key=m0.content_key)
                        out = "ok"
                    except ValueError:
                        out = "err:ValueError"
                    except Exception as e:
                        out = "err:" + type(e).__name__
                    res["transcript"].append(dict(op=["wmeta-with-data", str(m0.content_key)], real=out, spec="err:ValueError", model=None))
                    if out != "err:ValueError":
                        res["fails"].append(dict(clause="read-only-answers", step=len(ro_ops), op=["wmeta-with-data"], real=out, expected="err:ValueError"))
                    if rec_mut(rec_events()):
                        res["fails"].append(dict(clause="no-mutation-under-storage-paths", step=len(ro_ops), op=["wmeta-with-data"],
                                                 events=rec_mut(rec_events())[:4]))
                        break
        after = fsaudit.snapshot(roots)
        if before != after and not any(f["clause"] == "no-mutation-under-storage-paths" for f in res["fails"]):
            diff = [x for x in after if x not in before][:3] + [x for x in before if x not in after][:3]
            res["fails"].append(dict(clause="no-mutation-under-storage-paths", step=len(res["transcript"]) - 1,
                                     snapshot_diff=diff))
        ro.held.clear()
    finally:
        if model:
            model.close()
        w.close()
    return res


def age_tree(root, when=1.0e9):
    """a store that was populated long ago: every file and directory gets an old modification time"""
    for d, dirs, files in os.walk(root, topdown=False):
        for f in files:
            os.utime(os.path.join(d, f), (when, when))
        os.utime(d, (when, when))


def rec_events():
    return list(fsaudit._state["events"])


def rec_mut(evs):
    return [e for e in evs if e[0] != "open-r"]


# ---- function-level scenarios (runner on a read-only / null cluster) --------------------------

def env_with(storage, runner=None, base=None):
    import twosigma.memento as m
    from twosigma.memento import Environment, ConfigurationRepository, FunctionCluster
    kw = dict(name="vc", storage=storage)
    if runner is not None:
        kw["runner"] = runner
    return Environment(name="verif", base_dir=base, repos=[ConfigurationRepository(name="r", clusters={"vc": FunctionCluster(**kw)})])


def function_level(chk, root):
    """returns list of failures"""
    import twosigma.memento as m
    import mfns
    from twosigma.memento.storage_filesystem import FilesystemStorageBackend
    from twosigma.memento.storage_null import NullStorageBackend
    from twosigma.memento.runner_null import NullRunnerBackend
    fails = []
    orig = m.Environment.get()
    base = tempfile.mkdtemp(prefix="c19fn_", dir=root)
    data = os.path.join(base, "data")
    try:
        for budget in (None, 0.001, 1):
            shutil.rmtree(data, ignore_errors=True)
            # populate
            m.Environment.set(env_with(FilesystemStorageBackend(path=data), base=base))
            mfns.REC.calls.clear()
            assert mfns.ga(1) == 1 and mfns.gb(2) == [2, "gb"]
            try:
                mfns.gx(9)               # a memoized failure, below a caller that handles it
            except ValueError:
                pass
            assert mfns.gcatch(9) == "caught"
            # read-only: memoized calls are served, others computed, nothing written
            # a leftover of a writer that died long ago (an old file in the staging directory): opening the store read-only
            # must not clean it up
            tmpd = os.path.join(data, ".tmp")
            os.makedirs(tmpd, exist_ok=True)
            stale = os.path.join(tmpd, "0a0a0a0a-1111-2222-3333-444444444444.link")
            open(stale, "w").write(os.path.join(data, "c", ".versions", "gone", "x"))
            os.utime(stale, (1.0e9, 1.0e9))
            age_tree(data, 1.1e9)
            os.utime(stale, (1.0e9, 1.0e9))
            for source in ("arg", "config", "arg-over-dump-of-writable", "cluster-config", "replaced-in-repository"):
                before_open = fsaudit.snapshot([data])
                kw = dict(memory_cache_mb=budget) if budget else {}
                if source == "cluster-config":
                    # the whole cluster comes from configuration dictionaries (StorageBackend.create): first a writable cluster
                    # on the same path is built and used in this process, then the one declared read-only
                    from twosigma.memento import Environment, ConfigurationRepository, FunctionCluster
                    scfg = {"type": "filesystem", "path": data}
                    if budget:
                        scfg["memory_cache_mb"] = budget
                    m.Environment.set(Environment(name="verif", base_dir=base, repos=[ConfigurationRepository(name="r", clusters={
                        "vc": FunctionCluster(config={"name": "vc", "storage": dict(scfg)})})]))
                    assert mfns.ga(1) == 1
                    m.Environment.set(Environment(name="verif", base_dir=base, repos=[ConfigurationRepository(name="r", clusters={
                        "vc": FunctionCluster(config={"name": "vc", "storage": dict(scfg, readonly=True)})})]))
                elif source == "replaced-in-repository":
                    # one Environment object: the cluster is used while it is writable, then replaced, through the repository's
                    # public `clusters` dictionary, by a cluster on the same path that is read-only
                    from twosigma.memento import FunctionCluster
                    env = env_with(FilesystemStorageBackend(path=data, **kw), base=base)
                    m.Environment.set(env)
                    assert mfns.ga(1) == 1 and env.get_cluster("vc") is not None
                    env.repos[0].clusters["vc"] = FunctionCluster(name="vc", storage=FilesystemStorageBackend(path=data, read_only=True, **kw))
                    age_tree(data, 1.1e9)
                elif source == "arg-over-dump-of-writable":
                    # the configuration is the dump of a writable backend on the same path (it says "readonly": False); the explicit
                    # argument declares the store read-only
                    st = FilesystemStorageBackend(config=FilesystemStorageBackend(path=data, **kw).to_dict(), read_only=True)
                    m.Environment.set(env_with(st, base=base))
                else:
                    st = (FilesystemStorageBackend(path=data, read_only=True, **kw) if source == "arg"
                          else FilesystemStorageBackend(config={"path": data, "readonly": True}, **kw))
                    m.Environment.set(env_with(st, base=base))
                before = fsaudit.snapshot([data])
                if source not in ("cluster-config", "replaced-in-repository") and before != before_open:
                    fails.append(dict(clause="no-mutation-under-storage-paths", level="function", when="opening the store read-only",
                                      budget=budget, source=source))
                mfns.REC.calls.clear()
                with fsaudit.Recorder([data]) as rec:
                    outs = []
                    for thunk_ in (lambda: mfns.ga(1), lambda: mfns.gb(2), lambda: mfns.ga(3), lambda: mfns.ga(3),
                                   lambda: mfns.ga.call_batch([{"x": 1}, {"x": 4}])):
                        try:
                            outs.append(thunk_())
                        except Exception as e:
                            outs.append("raised " + type(e).__name__)
                    try:
                        mfns.ga.forget()
                        outs.append("forget-accepted")
                    except ValueError:
                        outs.append("ValueError")
                    # forgetting the recorded failures beneath a call is a forget like any other
                    # (for a memento that is not a failure nothing is to be done: returning normally is no acceptance)
                    for what, counts in ((lambda: mfns.gcatch.memento(9), False), (lambda: mfns.gx.memento(9), True)):
                        try:
                            mm_ = what()
                            if mm_ is not None:
                                mm_.forget_exceptions_recursively()
                                if counts:
                                    outs.append("forget-exceptions-accepted")
                        except ValueError:
                            pass
                    # a result that is staged on disk while its body runs; the caller keeps it while the store is compared
                    try:
                        staged = mfns.gp(5)
                        staged_ok = sorted(staged.list_keys()) == ["a", "b"] and staged.get("a") == [5, "a"]
                    except Exception as e:          # a call that is not memoized is computed, memoization is skipped: it does not fail
                        staged, staged_ok = None, False
                        fails.append(dict(clause="read-only-answers", level="function", budget=budget, source=source,
                                          outs="a call returning an on-disk partition raised %r" % (e,)))
                    during = fsaudit.snapshot([data])
                if not staged_ok or during != before:
                    fails.append(dict(clause="no-mutation-under-storage-paths", level="function", when="while a computed on-disk partition is alive",
                                      budget=budget, source=source, events=rec.mutations[:4]))
                del staged
                chk.case(["fn-level", budget, source], sample=dict(kind="function-level read-only", budget=budget, source=source, outs=str(outs)))
                if outs != [1, [2, "gb"], 3, 3, [1, 4], "ValueError"]:
                    fails.append(dict(clause="read-only-answers", level="function", outs=str(outs), budget=budget, source=source))
                if ("ga", 1) in mfns.REC.calls or ("gb", 2) in mfns.REC.calls:
                    fails.append(dict(clause="read-only-serves-memoized", calls=list(mfns.REC.calls)))
                if rec.mutations or fsaudit.snapshot([data]) != before:
                    fails.append(dict(clause="no-mutation-under-storage-paths", level="function", events=rec.mutations[:4],
                                      budget=budget, source=source))
            # null runner: never executes — memoized, not memoized, memoized with the blob missing
            for damaged in (False, True):
                if damaged:
                    cdir = os.path.join(data, "c", ".versions")
                    for u in os.listdir(cdir):
                        shutil.rmtree(os.path.join(cdir, u))
                kw = dict(memory_cache_mb=budget) if budget else {}
                m.Environment.set(env_with(FilesystemStorageBackend(path=data, **kw), runner=NullRunnerBackend(), base=base))
                mfns.REC.calls.clear()
                outs = []
                for thunk in (lambda: mfns.ga(1), lambda: mfns.ga(7), lambda: mfns.ga.call_batch([{"x": 1}, {"x": 8}]),
                              lambda: mfns.gb(2),
                              # chains of call modifiers (none of them asks for local execution)
                              lambda: mfns.ga.monitor_progress().ignore_result()(9),
                              lambda: mfns.ga.ignore_result().monitor_progress()(9),
                              lambda: mfns.ga.monitor_progress().with_context_args({"k": 1}).call_batch([{"x": 9}]),
                              lambda: mfns.ga.monitor_progress(True).monitor_progress(False).with_prevent_further_calls(True)(9),
                              lambda: mfns.ga.monitor_progress().partial(x=9)(),
                              lambda: mfns.ga.ignore_result().with_context_args({"k": 2}).monitor_progress().ignore_result(False)(9)):
                    try:
                        outs.append(("ok", thunk()))
                    except RuntimeError:
                        outs.append("RuntimeError")
                    except Exception as e:
                        outs.append(type(e).__name__)
                chk.case(["null-runner", budget, damaged], sample=dict(kind="null runner", damaged=damaged, outs=str(outs)))
                if mfns.REC.calls:
                    fails.append(dict(clause="null-runner-never-executes", damaged_store=damaged, calls=list(mfns.REC.calls), outs=str(outs)))
                if damaged:
                    # a store whose data objects are missing, opened read-only: calls recompute, still nothing is modified
                    m.Environment.set(env_with(FilesystemStorageBackend(path=data, read_only=True, **kw), base=base))
                    before = fsaudit.snapshot([data])
                    mfns.REC.calls.clear()
                    with fsaudit.Recorder([data]) as rec:
                        try:
                            outs = [mfns.ga(1), mfns.gb(2), mfns.ga(1)]
                        except Exception as e:
                            outs = ["raised " + type(e).__name__]
                    chk.case(["damaged-read-only", budget], sample=dict(kind="read-only on a store with missing data objects", outs=str(outs)))
                    if outs != [1, [2, "gb"], 1]:
                        fails.append(dict(clause="read-only-answers", level="function", damaged_store=True, outs=str(outs), budget=budget))
                    if rec.mutations or fsaudit.snapshot([data]) != before:
                        fails.append(dict(clause="no-mutation-under-storage-paths", level="function", damaged_store=True,
                                          events=rec.mutations[:4], budget=budget))
        # a store that was written at one place and is opened read-only at another (link files record absolute paths): reads
        # may fail or recompute, nothing is modified
        shutil.rmtree(data, ignore_errors=True)
        m.Environment.set(env_with(FilesystemStorageBackend(path=data), base=base))
        assert mfns.ga(1) == 1 and mfns.gb(2) == [2, "gb"]
        moved = os.path.join(base, "moved")
        shutil.rmtree(moved, ignore_errors=True)
        os.rename(data, moved)
        for budget in (None, 1):
            kw = dict(memory_cache_mb=budget) if budget else {}
            before = fsaudit.snapshot([moved])
            m.Environment.set(env_with(FilesystemStorageBackend(path=moved, read_only=True, **kw), base=base))
            with fsaudit.Recorder([moved]) as rec:
                outs = []
                for thunk in (lambda: mfns.ga(1), lambda: mfns.gb(2), lambda: mfns.ga.memento(1), lambda: mfns.ga.list_mementos(), lambda: mfns.ga(1)):
                    try:
                        thunk()
                        outs.append("ok")
                    except Exception as e:          # noqa: reads of a relocated store may fail; they must not write
                        outs.append(type(e).__name__)
            chk.case(["moved-read-only", budget], sample=dict(kind="store moved, opened read-only", outs=outs))
            if rec.mutations or fsaudit.snapshot([moved]) != before:
                fails.append(dict(clause="no-mutation-under-storage-paths", level="function", moved_store=True, events=rec.mutations[:4], budget=budget))
        # a configuration that says read-only, used once with the documented override read_only=False (a populating job) and
        # then as it is: the second backend is read-only
        shutil.rmtree(data, ignore_errors=True)
        cfg = {"path": data, "readonly": True}
        m.Environment.set(env_with(FilesystemStorageBackend(config=cfg, read_only=False), base=base))
        assert mfns.ga(1) == 1
        st = FilesystemStorageBackend(config=cfg)
        m.Environment.set(env_with(st, base=base))
        before = fsaudit.snapshot([data])
        mfns.REC.calls.clear()
        with fsaudit.Recorder([data]) as rec:
            outs = [mfns.ga(1), mfns.ga(5)]
            try:
                mfns.ga.forget()
                outs.append("forget-accepted")
            except ValueError:
                outs.append("ValueError")
        chk.case(["shared-config-object"], sample=dict(kind="read-only configuration object used with an override before", outs=str(outs)))
        if outs != [1, 5, "ValueError"] or rec.mutations or fsaudit.snapshot([data]) != before:
            fails.append(dict(clause="no-mutation-under-storage-paths", level="function", shared_config_object=True, outs=str(outs), events=rec.mutations[:4]))
        # a function of a local-runner cluster calls functions of a null-runner cluster: those bodies never run
        shutil.rmtree(data, ignore_errors=True)
        from twosigma.memento import Environment, ConfigurationRepository, FunctionCluster
        for nested_storage in ("fs", "null"):
            m.Environment.set(Environment(name="verif", base_dir=base, repos=[ConfigurationRepository(name="r", clusters={
                "vl": FunctionCluster(name="vl", storage=FilesystemStorageBackend(path=os.path.join(base, "vl_" + nested_storage))),
                "vc": FunctionCluster(name="vc", runner=NullRunnerBackend(),
                                      storage=(FilesystemStorageBackend(path=data) if nested_storage == "fs" else NullStorageBackend()))})]))
            mfns.REC.calls.clear()
            try:
                out = ("ok", mfns.outer_local(40))
            except Exception as e:      # noqa
                out = type(e).__name__
            chk.case(["nested-null-runner", nested_storage], sample=dict(kind="nested call into a null-runner cluster", out=str(out)))
            ran = [c for c in mfns.REC.calls if c[0] in ("ga", "gb")]
            if ran:
                fails.append(dict(clause="null-runner-never-executes", nested=True, storage=nested_storage, calls=ran, out=str(out)))
        # null storage
        ns = NullStorageBackend()
        w = sw.World(dict(kind="mem"))
        w.be = ns
        seq = [["memoize", 1, 1, None, 3, 1], ["ismem", 1, 1], ["getm", [[1, 1], [2, 1]]], ["wmeta", 1, 1, 1, 4], ["rmeta", 1, 1, 1],
               ["lsf"], ["fcall", 1, 1], ["ffn", 1], ["fall"], ["ismem", 1, 1]]
        outs = [w.apply(o) for o in seq]
        chk.case(["null-storage"], sample=dict(kind="null storage", outs=outs))
        if outs != ["ok", "0", "- -", "ok", "none", "[]", "ok", "ok", "ok", "0"]:
            fails.append(dict(clause="null-storage-never-memoized", outs=outs))
        m.Environment.set(env_with(NullStorageBackend(), base=base))
        mfns.REC.calls.clear()
        r = [mfns.ga(5), mfns.ga(5)]
        if r != [5, 5] or mfns.REC.calls != [("ga", 5), ("ga", 5)]:
            fails.append(dict(clause="null-storage-never-memoized", level="function", calls=list(mfns.REC.calls)))
    finally:
        m.Environment.set(orig)
        shutil.rmtree(base, ignore_errors=True)
    return fails


def memory_scenario(pop_ops, ro_ops):
    """the memory backend made read-only after a writable history: answers as the (read-only) dictionary, contents unchanged.
    Custom metadata may exist for calls that were never memoized (the storage API allows it)."""
    w = sw.World(dict(kind="mem"))
    oracle = sw.DictOracle()
    fails = []
    mid = 0
    try:
        for op in pop_ops:
            op = list(op)
            if op[0] == "memoize":
                mid += 1
                op = op[:5] + [mid]
            w.apply(op)
            oracle.step(op)
        be = w.be
        be.read_only = True
        oracle.ro = True

        def contents():
            return (sorted((k, sorted(v)) for k, v in be.mementos.items() if v), sorted(be.result), sorted((k, sorted(v.items())) for k, v in be.metadata.items() if v))
        before = contents()
        for i, op in enumerate(ro_ops):
            op = list(op)
            if op[0] == "memoize":
                mid += 1
                op = op[:5] + [mid]
            real = w.apply(op)
            want = oracle.step(op)
            if real != want:
                fails.append(dict(clause="read-only-answers", backend="memory", step=i, op=op, real=real, expected=want))
                break
            if contents() != before:
                fails.append(dict(clause="no-mutation-under-storage-paths", backend="memory", step=i, op=op))
                break
    finally:
        w.close()
    return fails


def main(chk, replay=None):
    if replay is not None:
        if replay.get("level") == "memory":
            f = memory_scenario(replay["populate"], replay["ops"])
            print(json.dumps(dict(still_fails=bool(f), observed=f[:3]), default=str))
            return 1 if f else 0
        if replay.get("level") == "function":
            f = function_level(chk, None)
            print(json.dumps(dict(still_fails=bool(f), observed=f[:3]), default=str))
            return 1 if f else 0
        r = scenario(replay["config"], replay["populate"], replay["ops"], use_model=False)
        print(json.dumps(dict(still_fails=bool(r["fails"]), observed=r["fails"][:3]), default=str))
        return 1 if r["fails"] else 0

    chk.rule = ("a store populated by a random writable history is reopened read-only (flag from argument or config; "
                "+-cache; shared/separate metadata root) and driven with a random history of all C05 ops incl. "
                "memoize/forget/write_metadata; plus function-level calls on read-only clusters, the null runner on "
                "healthy/damaged stores, the null storage. Distinct = distinct (config, populate, ops); non-trivial = the "
                "read-only phase contains >= 1 mutator.")
    proof_ok = chk.build_and_audit()
    quick = chk.tier == "quick"
    rng = chk.rng
    n = 30 if quick else 500
    failures = 0
    # memory backend, read-only: directed histories (metadata of a never-memoized call; forgetting a function without entries)
    mem_cases = [
        ([["memoize", 1, 1, None, 3], ["wmeta", 1, 1, 1, 4], ["wmeta", 2, 1, 1, 5], ["wmeta", 4, 2, 2, 6]],
         [["ffn", 2], ["ffn", 4], ["rmeta", 2, 1, 1], ["rmeta", 4, 2, 2], ["ffn", 5], ["fcall", 2, 1], ["fcall", 1, 1], ["ffn", 1], ["fall"],
          ["lookread", 1, 1], ["rmeta", 1, 1, 1], ["memoize", 1, 2, None, 7], ["ismem", 1, 2], ["wmeta", 1, 1, 2, 9], ["rmeta", 1, 1, 2]]),
    ] + [(sw.gen_ops(rng, rng.randint(3, 12), fns=[1, 2, 4]), sw.gen_ops(rng, rng.randint(4, 20), fns=[1, 2, 4, 5])) for _ in range(10 if quick else 200)]
    for pop, ops in mem_cases:
        mf = memory_scenario(pop, ops)
        chk.case(["memory-read-only", pop, ops], sample=dict(kind="memory backend read-only", populate=pop[:3], ops=ops[:5]))
        chk.count("memory-read-only")
        if mf and failures < 3:
            failures += 1
            chk.violation({"what": "read-only memory backend: %s at %s" % (mf[0]["clause"], mf[0]["op"]), "class": {"clause": mf[0]["clause"], "backend": "memory"},
                           "level": "memory", "populate": pop, "ops": ops, "observed": mf[:2]})
    # stores that hold null results only (no data object was ever written: with a separate metadata path the data directory
    # does not exist), and stores emptied by forget_everything
    directed = [([["memoize", 1, 1, None, None], ["memoize", 4, 2, None, None]],
                 [["lookread", 1, 1], ["getm", [[1, 1], [4, 2], [1, 2]]], ["ismem", 4, 2], ["lsf"], ["lsm", 1], ["memoize", 1, 2, None, 3], ["fcall", 1, 1], ["lookread", 1, 1]]),
                ([["memoize", 1, 1, None, 3], ["fall"]],
                 [["lookread", 1, 1], ["lsf"], ["ismem", 1, 1], ["memoize", 1, 1, None, 3], ["fall"], ["lsf"]])]
    for i in range(n + len(directed) * len(RO_CONFIGS)):
        cfg = RO_CONFIGS[i % len(RO_CONFIGS)]
        if i < len(directed) * len(RO_CONFIGS):
            pop, ops = directed[i // len(RO_CONFIGS)]
        else:
            pop = sw.gen_ops(rng, rng.randint(3, 15), fns=[1, 2, 4, 5])
            ops = sw.gen_ops(rng, rng.randint(4, 25 if quick else 50), fns=[1, 2, 4, 5])
        res = scenario(cfg, pop, ops, use_model=proof_ok, root=chk.tmpdir())
        chk.case([cfg, pop, ops], nontrivial=any(o[0] in ("memoize", "fcall", "ffn", "fall", "wmeta") for o in ops),
                 sample=dict(config=cfg, populate=pop[:4], ops=ops[:6], answers=[t["real"] for t in res["transcript"][:6]]))
        for t in res["transcript"]:
            chk.count("ro-op:" + t["op"][0])
            if t["real"].startswith("err:"):
                chk.count("rejected:" + t["op"][0])
        if res["fails"]:
            failures += 1
            f = res["fails"][0]
            if failures <= 3:
                clause = f["clause"]

                def still(cand):
                    r = scenario(cfg, pop, cand, use_model=False)
                    return any(x["clause"] == clause for x in r["fails"])
                small = ddmin(ops[: f.get("step", len(ops)) + 1], still)
                chk.violation({"what": "read-only backend: %s" % clause, "class": {"clause": clause, "level": "storage"},
                               "config": cfg, "populate": pop, "ops": small, "observed": res["fails"][:2]})
        elif res["mismatch"]:
            chk.correspondence_break("ro-store-api", dict(config=cfg, populate=pop, ops=ops, first=res["mismatch"][0]))
        if failures > 3:
            break
    for f in function_level(chk, chk.tmpdir()):
        chk.violation({"what": "function level: %s" % f["clause"], "class": {"clause": f["clause"], "level": "function"},
                       "level": "function", "observed": f})


if __name__ == "__main__":
    sys.exit(run_check(PROP, main, sys.argv[1:]))
