"""Real-code world for the C12 check: code-base editions made of real memento functions, real
storage backends, and the observations the property talks about. Used in-process by c12.py and by
the child process c12child.py (cross-process evolutions).

An *edition* is {module name: python source}. In-process it is installed by `exec` into fresh module
objects registered in sys.modules (sources registered in linecache so that inspect.getsource works);
in a child process it is a set of real files on sys.path.

Execution counters live in an instance of a plain class and are touched only from functions with an
explicit (pinned) version: a module-level list reachable through a dotted name would be hashed as a
global variable and change automatic versions.
"""
import importlib
import inspect
import json
import linecache
import os
import sys
import types


class _Rec:
    def __init__(self):
        self.calls = []


REC = _Rec()
_SEQ = [0]


# ----------------------------------------------------------------------------------------------
# editions
# ----------------------------------------------------------------------------------------------

def deco(cluster, version):
    a = []
    if cluster is not None:
        a.append("cluster=%r" % cluster)
    if version is not None:
        a.append("version=%r" % version)
    return "@memento_function(%s)" % ", ".join(a)


HEADER = "from twosigma.memento import memento_function\nfrom c12world import REC\n"


def install_edition(edition, owned):
    """in-process: (re)define the modules of `edition`; modules in `owned` that are absent from the
    edition are removed (no longer importable)"""
    from twosigma.memento import memento_function  # noqa: F401  (import check)
    for name in list(owned):
        if name not in edition:
            sys.modules.pop(name, None)
            owned.discard(name)
    mods = {}
    for name, src in edition.items():
        _SEQ[0] += 1
        fname = "<c12-%d-%s>" % (_SEQ[0], name)
        linecache.cache[fname] = (len(src), None, src.splitlines(True), fname)
        mod = types.ModuleType(name)
        mod.__package__ = name.rpartition(".")[0]
        mod.__file__ = fname
        sys.modules[name] = mod
        owned.add(name)
        mods[name] = mod
    # two passes so that `from other import g` finds the new module object of this edition
    for name in order_modules(edition):
        src = edition[name]
        code = compile(src, sys.modules[name].__file__, "exec")
        exec(code, sys.modules[name].__dict__)
    return mods


def order_modules(edition):
    """modules that are imported by others first"""
    names = list(edition)
    return sorted(names, key=lambda n: sum(1 for o in names if o != n and ("from %s import" % n) in edition[o]), reverse=True)


def write_edition(edition, pkgdir):
    """child mode: the edition as files; everything else under pkgdir is removed"""
    import shutil
    if os.path.isdir(pkgdir):
        shutil.rmtree(pkgdir)
    os.makedirs(pkgdir)
    for name, src in edition.items():
        parts = name.split(".")
        d = pkgdir
        for p in parts[:-1]:
            d = os.path.join(d, p)
            os.makedirs(d, exist_ok=True)
            init = os.path.join(d, "__init__.py")
            if not os.path.exists(init):
                open(init, "w").close()
        with open(os.path.join(d, parts[-1] + ".py"), "w") as f:
            f.write(src)


# ----------------------------------------------------------------------------------------------
# environment
# ----------------------------------------------------------------------------------------------

def make_env(root, clusters, backend):
    """fresh Environment + fresh backend objects over the same directories (nothing cached in memory
    for "fs"); for "mem" the caller keeps and passes the backend objects in `clusters` values"""
    import twosigma.memento as m
    from twosigma.memento import Environment, ConfigurationRepository, FunctionCluster
    from twosigma.memento.storage_filesystem import FilesystemStorageBackend
    cl = {}
    for i, name in enumerate(n for n in clusters if n is not None):
        if backend == "fs":
            st = FilesystemStorageBackend(path=os.path.join(root, "named%d" % i))
        else:
            st = clusters[name]
        cl[name] = FunctionCluster(name=name, storage=st)
    env = Environment(name="c12", base_dir=root, repos=[ConfigurationRepository(name="r", clusters=cl)])
    if backend == "mem":
        env.default_cluster.storage = clusters[None]
    m.Environment.set(env)
    return env


def cluster_dir(root, clusters, name):
    """data directory of a cluster's filesystem backend (see make_env / _DefaultFunctionCluster)"""
    if name is None:
        return os.path.join(root, "cluster", "default")
    named = [n for n in clusters if n is not None]
    return os.path.join(root, "named%d" % named.index(name))


# ----------------------------------------------------------------------------------------------
# introspection: what the code base looks like to `_find_function`
# ----------------------------------------------------------------------------------------------

def describe_codebase(modnames):
    """[(module, [(attr path, kind, cluster, fn module, qualname, version, parameter names)])] for the importable modules
    among `modnames`, derived from the live objects (not from the generator's intentions)"""
    from twosigma.memento.types import MementoFunctionType
    out = []
    for mn in modnames:
        try:
            mod = importlib.import_module(mn)
        except (ModuleNotFoundError, ValueError):
            continue
        attrs = []

        def visit(prefix, obj_dict, depth):
            for k, o in obj_dict.items():
                if k.startswith("__") and k.endswith("__") and len(k) > 4:
                    continue          # module dunders (__name__, __builtins__, ...)
                path = prefix + k
                if isinstance(o, MementoFunctionType):
                    attrs.append([path, "mfn", o.cluster_name, o.fn.__module__, o.fn.__qualname__, o.version(),
                                  list(inspect.signature(o.fn).parameters.keys())])
                elif isinstance(o, types.SimpleNamespace) and depth == 0:
                    attrs.append([path, "value", None, None, None, None, None])
                    visit(path + ".", vars(o), 1)
                elif callable(o):
                    attrs.append([path, "plain", None, None, None, None, None])
                else:
                    attrs.append([path, "value", None, None, None, None, None])
        visit("", dict(vars(mod)), 0)
        out.append([mn, attrs])
    return out


# ----------------------------------------------------------------------------------------------
# observations
# ----------------------------------------------------------------------------------------------

def ref_tuple(r):
    return [bool(r.external), r.qualified_name, r.cluster_name, list(r.parameter_names)]


def guarded(fn):
    """(ok, value | exception description)"""
    try:
        return True, fn()
    except BaseException as e:  # noqa: BLE001 - the property is "never raises"
        if isinstance(e, (KeyboardInterrupt, SystemExit)):
            raise
        import traceback
        tb = traceback.extract_tb(e.__traceback__)
        where = ["%s:%d %s" % (os.path.basename(f.filename), f.lineno, f.name) for f in tb[-4:]]
        return False, {"exception": type(e).__name__, "message": str(e)[:300], "where": where}


def memento_view(me):
    if me is None:
        return None
    im = me.invocation_metadata
    return {
        "own": ref_tuple(im.fn_reference_with_args.fn_reference),
        "arg_hash": im.fn_reference_with_args.arg_hash,
        "invocations": [ref_tuple(i.fn_reference) for i in (im.invocations or [])],
        "deps": sorted((ref_tuple(d) for d in me.function_dependencies), key=json.dumps),
    }


def observe_function(modname, fname, arg, clusters_to_list):
    """everything the property observes for one call `module.fname(arg)` under the current edition"""
    import twosigma.memento as m
    obs = {}
    mod = importlib.import_module(modname)
    fn = getattr(mod, fname)
    obs["qn"] = fn.fn_reference().qualified_name
    obs["version"] = fn.version()
    n0 = len(REC.calls)
    ok, v = guarded(lambda: fn(arg))
    obs["call"] = [ok, v if not ok else repr(v)]
    obs["executed"] = len(REC.calls) - n0
    ok, v = guarded(lambda: memento_view(fn.memento(arg)))
    obs["memento"] = [ok, v]
    ok, v = guarded(lambda: [memento_view(x) for x in fn.list_mementos()])
    obs["list_mementos"] = [ok, v]

    def render():
        me = fn.memento(arg)
        if me is None:
            return None
        return [len(str(me.trace())) > 0, len(me.graph().source) > 0, len(me.graph(max_depth=1).source) > 0]
    ok, v = guarded(render)        # the stored call tree as text and as a graph (reads the stored metadata of the sub-calls)
    obs["trace_graph"] = [ok, v]

    def invocation_entries():
        # the entries of the recorded sub-calls, asked for through the references the caller's memento carries (bound or external)
        me = fn.memento(arg)
        if me is None:
            return None
        out = []
        for inv in me.invocation_metadata.invocations or []:
            got = inv.fn_reference.memento_fn.memento(*inv.args, **inv.kwargs)
            out.append([inv.fn_reference.qualified_name, got is not None])
        return out
    ok, v = guarded(invocation_entries)
    obs["invocation_entries"] = [ok, v]
    obs["list_functions"] = {}
    for c in clusters_to_list:
        ok, v = guarded(lambda: sorted((ref_tuple(r) for r in m.list_memoized_functions(c)), key=json.dumps))
        obs["list_functions"]["~" if c is None else c] = [ok, v]
    return obs


def stored_names(root, clusters, cluster, qn, arg_hash):
    """the names inside the stored memento JSON of (qn, arg_hash), read from disk without the library's
    decoder: own, invocations, dependencies as [qualified name, parameterNames, number of positional args]"""
    import twosigma.memento.storage_filesystem as sfs
    # the directory name is whatever the code's own escaping makes of the qualified name
    d = os.path.join(cluster_dir(root, clusters, cluster), "m", sfs._FilesystemDataSource._escape_key(None, qn))
    link = os.path.join(d, arg_hash + ".memento.json.link")
    with open(link) as f:
        target = f.read()
    with open(target) as f:
        j = json.load(f)
    im = j["invocationMetadata"]

    def call(x):
        return [x["fnReference"]["qualifiedName"], x["fnReference"]["parameterNames"], len(x["args"] or [])]
    return {
        "own": call(im["fnReferenceWithArgs"]),
        "invocations": [call(i) for i in (im["invocations"] or [])],
        "deps": [[d["qualifiedName"], d["parameterNames"], 0] for d in (j["functionDependencies"] or [])],
    }


def function_dirs(root, clusters, cluster):
    """on-disk entries of the function directory `m/` of a cluster (escaped names)"""
    d = os.path.join(cluster_dir(root, clusters, cluster), "m")
    if not os.path.isdir(d):
        return []
    return sorted(e for e in os.listdir(d) if e not in (".versions", ".tmp"))
