"""memento functions for the crash / fault scenarios (C08). Cluster "c8"."""
from twosigma.memento import memento_function
from twosigma.memento.result import KeyOverrideResult
from twosigma.memento.partition import InMemoryPartition


class _Rec:
    def __init__(self):
        self.calls = []


REC = _Rec()


def payload(x):
    return b"payload-%d-" % x + bytes(range(256)) * 2


@memento_function(cluster="c8", version="1")
def f_scalar(x):
    REC.calls.append(("f_scalar", x))
    return payload(x)


@memento_function(cluster="c8", version="1")
def g_same(x):
    REC.calls.append(("g_same", x))
    return payload(x)


@memento_function(cluster="c8", version="1")
def h_other(x):
    REC.calls.append(("h_other", x))
    return [x, "other"]


@memento_function(cluster="c8", version="1")
def e_exc(x):
    REC.calls.append(("e_exc", x))
    raise ValueError("boom %d" % x)


@memento_function(cluster="c8", version="1")
def n_null(x):
    REC.calls.append(("n_null", x))
    return KeyOverrideResult(None, "ov/null%d" % x)


@memento_function(cluster="c8", version="1")
def o_over(x):
    REC.calls.append(("o_over", x))
    return KeyOverrideResult(payload(x), "ov/shared")


@memento_function(cluster="c8", version="1")
def q_same(x):
    REC.calls.append(("q_same", x))
    return KeyOverrideResult(payload(0), "ov/same")      # every call publishes the same bytes under the same key


@memento_function(cluster="c8", version="1")
def p_part(x):
    REC.calls.append(("p_part", x))
    return InMemoryPartition({"a": payload(x), "b": [x, "b"]})


@memento_function(cluster="c8", version="1")
def p_a(x):
    REC.calls.append(("p_a", x))
    return InMemoryPartition({"a1": payload(x), "a2": [x, "a2"], "a3": [x, "a3"]})


@memento_function(cluster="c8", version="1")
def p_b(x):
    REC.calls.append(("p_b", x))
    a = p_a(x)
    b = InMemoryPartition({"b1": [x, "b1"], "a3": [x, "a3-over"]})
    b._merge_parent = a          # merged on top of the partition returned by another memento function
    return b


@memento_function(cluster="c8", version="1")
def a_arr(x):
    import numpy as np
    REC.calls.append(("a_arr", x))
    return np.arange(300, dtype=np.int64) + x       # weak-referenceable, larger than the tiny cache


@memento_function(cluster="c8", version="1")
def w_warm(x):
    REC.calls.append(("w_warm", x))
    f_scalar.ignore_result()(x)          # a warm-up call whose value is not wanted
    return [x, "warm"]


FNS = dict(q_same=q_same, w_warm=w_warm, a_arr=a_arr, p_a=p_a, p_b=p_b, f_scalar=f_scalar, g_same=g_same, h_other=h_other, e_exc=e_exc, n_null=n_null, o_over=o_over, p_part=p_part)


def expected(name, x):
    """what an un-memoized execution returns (canonical form)"""
    if name in ("f_scalar", "g_same", "o_over"):
        return ["bytes", payload(x).hex()[:40], len(payload(x))]
    if name == "q_same":
        return ["bytes", payload(0).hex()[:40], len(payload(0))]
    if name == "h_other":
        return ["list", [x, "other"]]
    if name == "a_arr":
        return ["array", [x, x + 1, x + 299], 300]
    if name == "w_warm":
        return ["list", [x, "warm"]]
    if name == "e_exc":
        return ["raise", "ValueError", "boom %d" % x]
    if name == "n_null":
        return ["none"]
    if name == "p_a":
        return ["partition", {"a1": ["bytes", payload(x).hex()[:40], len(payload(x))], "a2": ["list", [x, "a2"]], "a3": ["list", [x, "a3"]]}]
    if name == "p_b":
        return ["partition", {"a1": ["bytes", payload(x).hex()[:40], len(payload(x))], "a2": ["list", [x, "a2"]],
                              "a3": ["list", [x, "a3-over"]], "b1": ["list", [x, "b1"]]}]
    if name == "p_part":
        return ["partition", {"a": ["bytes", payload(x).hex()[:40], len(payload(x))], "b": ["list", [x, "b"]]}]


def canon(v):
    from twosigma.memento.partition import Partition
    if v is None:
        return ["none"]
    if isinstance(v, bytes):
        return ["bytes", v.hex()[:40], len(v)]
    if isinstance(v, list):
        return ["list", v]
    try:
        import numpy as np
        if isinstance(v, np.ndarray):
            return ["array", [int(v[0]), int(v[1]), int(v[-1])], int(v.size)]
    except ImportError:
        pass
    if isinstance(v, Partition):
        return ["partition", {k: canon(v.get(k)) for k in sorted(v.list_keys())}]
    return ["other", repr(v)[:80]]
