"""C14 — the static dependency closure is exact and calls outside it are refused.

Lean: Model/Version.lean + Props/C14.lean (rule collection = reachability; direct = named in own
body; graph edges = reachable through plain functions only; undeclared calls refused).
Correspondence / oracle: generated reference graphs over memento and plain functions and variables
(bare names, module attributes, aliases, decorator-wrapped helpers, cycles, hidden dynamic calls)
rendered to real packages; `transitive_memento_fn_dependencies`, `direct_…`, `df()` edges and the
outcome of calls are compared with plain graph reachability computed by the harness and with the
model.
"""
import concurrent.futures
import itertools
import json
import os
import shutil
import sys
import tempfile

import common
from common import run_check
import vmodel
import vprogs
import vrun

PROP = "C14"


def hidden_undeclared(prog, f):
    """auto-versioned f makes a hidden call to a memento function outside its closure"""
    d = prog["defs"][f]
    if d["explicit"]:
        return False
    clo = vprogs.reach_memento(prog, f) | {f}
    return any(form == "hidden" and t not in clo for t, form in d["refs"])


def check_program(prog, root):
    """returns (fails, observations)"""
    pkg = "vpkg_%d_%s" % (os.getpid(), os.path.basename(root)[-6:])
    pkg = "".join(c if c.isalnum() or c == "_" else "_" for c in pkg)
    vprogs.write_package(prog, root, pkg)
    ms = [n for n in prog["order"] if n[0] == "m"]
    # every function is first called with the argument a hidden call will use (x - 1 = 0): a hidden callee is then
    # already memoized when the hidden call is made - it must be refused all the same
    acts = [["import"]] + [["deps", n] for n in ms] + [["call", n, 0] for n in ms] + [["call", n, 1] for n in ms]
    out = vrun.child(dict(root=root, pkg=pkg, store=os.path.join(root, "store"), actions=acts))
    fails, obs = [], {}
    if out[0] != "ok":
        return [dict(clause="program-imports", error=out[0])], obs
    for i, n in enumerate(ms):
        d = out[1 + i]
        if not isinstance(d, dict) or "error" in d:
            fails.append(dict(clause="dependencies-computable", fn=n, error=d))
            continue
        exp_t, exp_d = sorted(vprogs.reach_memento(prog, n)), sorted(vprogs.direct_memento(prog, n))
        exp_e = sorted([list(e) for e in vprogs.graph_edges(prog, n)])
        obs[n] = d
        if d["trans"] != exp_t:
            fails.append(dict(clause="transitive-dependencies-exact", fn=n, got=d["trans"], expected=exp_t))
        if d["direct"] != exp_d:
            fails.append(dict(clause="direct-dependencies-exact", fn=n, got=d["direct"], expected=exp_d))
        if sorted(d["edges"]) != exp_e:
            fails.append(dict(clause="graph-edges-exact", fn=n, got=sorted(d["edges"]), expected=exp_e))
    for i, n in enumerate(ms):
        c = out[1 + 2 * len(ms) + i]
        if not isinstance(c, dict) or "error" in c:
            fails.append(dict(clause="call-runs", fn=n, error=c))
            continue
        res = c["result"]
        if hidden_undeclared(prog, n):
            if not (res[0] == "raise" and res[1] == "UndeclaredDependencyError"):
                fails.append(dict(clause="undeclared-call-refused", fn=n, got=res[:2]))
        elif res[0] != "ok":
            # a callee may itself have refused a hidden call (the error then propagates): only flag unexpected refusals
            callees = vprogs.reach_memento(prog, n)
            if res[1] == "UndeclaredDependencyError" and not any(hidden_undeclared(prog, g) for g in callees):
                fails.append(dict(clause="declared-call-allowed", fn=n, got=res[:3]))
            elif res[1] not in ("UndeclaredDependencyError", "MementoException"):
                fails.append(dict(clause="declared-call-allowed", fn=n, got=res[:3]))
    return fails, obs


def model_check(vm, prog, obs):
    """correspondence with the Lean model: dependency reports of every memento function; what `callAllowed` says about
    each hidden call. Returns a list of disagreements (stream, detail)."""
    diffs = []
    vm.load(prog)
    for n, d in obs.items():
        md = vm.deps(n)
        for k in ("trans", "direct"):
            if md[k] != d[k]:
                diffs.append(("deps-" + k, dict(fn=n, model=md[k], real=d[k])))
        if md["edges"] != sorted(d["edges"]):
            diffs.append(("deps-edges", dict(fn=n, model=md["edges"], real=sorted(d["edges"]))))
    for n, d in prog["defs"].items():
        if d["kind"] != "memento":
            continue
        for t, form in d["refs"]:
            if form == "hidden" and t in prog["defs"]:
                want = (not hidden_undeclared(prog, n)) or (t in (vprogs.reach_memento(prog, n) | {n}))
                if d["explicit"]:
                    want = True
                if vm.allowed(n, t) != want:
                    diffs.append(("call-allowed", dict(caller=n, callee=t, model=vm.allowed(n, t), expected=want)))
    return diffs


FNARG_SRC = '''from twosigma.memento import memento_function
import vrec


@memento_function(cluster="vp")
def secret(x):
    vrec.REC.enter("secret", x)
    return x + 100


@memento_function(cluster="vp", version="pinned-1")
def secret_pinned(x):
    vrec.REC.enter("secret_pinned", x)
    return x + 200


@memento_function(cluster="vp")
def sneaky(x):
    vrec.REC.enter("sneaky", x)
    return globals()["secret_" + "pinned"](x)


@memento_function(cluster="vp")
def helper(x):
    return x


@memento_function(cluster="vp")
def caller(fn, x):
    vrec.REC.enter("caller", x)
    helper(x)
    if fn is not None:
        f = fn[0] if isinstance(fn, list) else (fn["f"] if isinstance(fn, dict) else fn)
        return f(x)
    return globals()["sec" + "ret"](x)


@memento_function(cluster="vp")
def late_user(x):
    vrec.REC.enter("late_user", x)
    return aux.late(x) if hasattr(aux, "late") else -1


def late_helper(x):
    return aux.late(x) if hasattr(aux, "late") else -1


@memento_function(cluster="vp", version="pinned-1")
def late_pinned(x):
    vrec.REC.enter("late_pinned", x)
    return late_helper(x)


@memento_function(cluster="vp")
def late_top(x):
    vrec.REC.enter("late_top", x)
    return late_pinned(x)


from . import aux
'''


def dynamic_scenarios(root):
    """(1) a function passed as an argument may be called by that invocation only; (2) a module attribute bound
    later (to an already registered memento function) joins the closure"""
    pkg = "vdyn_%d" % os.getpid()
    d = os.path.join(root, pkg)
    os.makedirs(d, exist_ok=True)
    open(os.path.join(d, "__init__.py"), "w").write("")
    open(os.path.join(d, "aux.py"), "w").write("")
    open(os.path.join(d, "mod.py"), "w").write(FNARG_SRC)
    fails = []
    for order in (0, 1):
        seq = [["callargs", "caller", ["secret", "1"]], ["callargs", "caller", ["[secret]", "3"]], ["callargs", "caller", ["{'f': secret}", "4"]],
               ["callargs", "caller", ["None", "2"]]]
        if order:
            seq = seq[-1:] + seq[:-1] + [["callargs", "caller", ["None", "5"]]]
        out = vrun.child(dict(root=root, pkg=pkg, store=os.path.join(root, "store%d" % order), actions=[["import"]] + seq))
        for act, o in zip(seq, out[1:]):
            res = o.get("result") if isinstance(o, dict) else ["error", o]
            if act[2][0] == "None":
                if not (res[0] == "raise" and res[1] == "UndeclaredDependencyError"):
                    fails.append(dict(clause="undeclared-call-refused", scenario="function-argument", order=order, action=act, got=res[:2]))
            elif res[0] != "ok":
                fails.append(dict(clause="argument-function-call-allowed", scenario="function-argument", order=order, action=act, got=res[:3]))
    # a hidden call to an explicitly versioned function (memoized or not) is refused like any other
    for pre in (False, True):
        seq = ([["call", "secret_pinned", 7]] if pre else []) + [["call", "sneaky", 7]]
        out = vrun.child(dict(root=root, pkg=pkg, store=os.path.join(root, "store_p%d" % pre), actions=[["import"]] + seq))
        res = out[-1].get("result") if isinstance(out[-1], dict) else ["error", out[-1]]
        if not (res[0] == "raise" and res[1] == "UndeclaredDependencyError"):
            fails.append(dict(clause="undeclared-call-refused", scenario="explicitly-versioned-callee", callee_memoized=pre, got=res[:2]))
    fails += package_init_scenario(root)
    fails += names_scenario(root)
    fails += cross_package_scenario(root)
    fails += rebound_explicit_scenario(root)
    seq = [["import"], ["deps", "late_user"], ["call", "late_user", 1], ["bind", "aux", "late", "secret"], ["deps", "late_user"], ["call", "late_user", 2]]
    out = vrun.child(dict(root=root, pkg=pkg, store=os.path.join(root, "store2"), actions=seq))
    try:
        if out[1]["trans"] != [] or out[4]["trans"] != ["secret"] or out[4]["direct"] != ["secret"]:
            fails.append(dict(clause="transitive-dependencies-exact", scenario="late-bound-attribute", before=out[1], after=out[4]))
        if out[5]["result"] != ["ok", 102]:
            fails.append(dict(clause="declared-call-allowed", scenario="late-bound-attribute", got=out[5]["result"][:3]))
    except Exception as e:
        fails.append(dict(clause="dependencies-computable", scenario="late-bound-attribute", error=repr(e), out=out))
    # the same below an explicitly versioned function (its version string does not change): look, bind, look again
    seq = [["import"], ["deps", "late_top"], ["deps", "late_pinned"], ["bind", "aux", "late", "secret"], ["deps", "late_top"], ["deps", "late_pinned"]]
    out = vrun.child(dict(root=root, pkg=pkg, store=os.path.join(root, "store3"), actions=seq))
    try:
        if out[1]["trans"] != ["late_pinned"] or out[1]["edges"] != [["late_top", "late_pinned"]] or out[2]["trans"] != []:
            fails.append(dict(clause="transitive-dependencies-exact", scenario="late-bound-attribute-below-pinned-function", when="before", got=[out[1], out[2]]))
        if out[4]["trans"] != ["late_pinned", "secret"] or sorted(out[4]["edges"]) != [["late_pinned", "secret"], ["late_top", "late_pinned"]] \
                or out[5]["trans"] != ["secret"] or out[5]["edges"] != [["late_pinned", "secret"]]:
            fails.append(dict(clause="graph-links-exact", scenario="late-bound-attribute-below-pinned-function", when="after", got=[out[4], out[5]]))
    except Exception as e:
        fails.append(dict(clause="dependencies-computable", scenario="late-bound-attribute-below-pinned-function", error=repr(e), out=out))
    return fails


def names_scenario(root):
    """names that are prefixes of one another, and equal function names in two modules: identity is the qualified name"""
    pkg = "vnames_%d" % os.getpid()
    d = os.path.join(root, pkg)
    os.makedirs(d, exist_ok=True)
    open(os.path.join(d, "__init__.py"), "w").write("")
    open(os.path.join(d, "aux.py"), "w").write(
        'from twosigma.memento import memento_function\n\n\n@memento_function(cluster="vp")\ndef load(x):\n    return x * 2\n')
    open(os.path.join(d, "mod.py"), "w").write(
        'from twosigma.memento import memento_function\nfrom . import aux\n\n\n'
        '@memento_function(cluster="vp")\ndef price_history(x):\n    return [x]\n\n\n'
        '@memento_function(cluster="vp")\ndef price(x):\n    return x + 1\n\n\n'
        '@memento_function(cluster="vp")\ndef m1(x):\n    return x + 10\n\n\n'
        '@memento_function(cluster="vp")\ndef m10(x):\n    return x + 100\n\n\n'
        '@memento_function(cluster="vp")\ndef report(x):\n    price_history(x)\n    m10(x)\n    return globals()["pri" + "ce"](x)\n\n\n'
        '@memento_function(cluster="vp")\ndef report2(x):\n    m10(x)\n    return globals()["m" + "1"](x)\n\n\n'
        '@memento_function(cluster="vp")\ndef load(x):\n    return aux.load(x) + 1\n\n\n'
        '@memento_function(cluster="vp")\ndef total(x):\n    return load(x)\n\n\n'
        # memento functions behind wrappers that are not plain functions (objects with __wrapped__)
        'import functools\n\n\nclass Timed:\n    def __init__(self, fn):\n        functools.update_wrapper(self, fn)\n        self.fn = fn\n\n'
        '    def __call__(self, *a, **k):\n        return self.fn(*a, **k)\n\n\n'
        'timed_price = Timed(price)\ncached_m1 = functools.lru_cache(maxsize=None)(m1)\n\n\n'
        'def via_wrappers(x):\n    return cached_m1(x)\n\n\n'
        '@memento_function(cluster="vp")\ndef wrapped_user(x):\n    return [timed_price(x), via_wrappers(x)]\n\n\n'
        # a nested lambda / inner function whose parameter or local has the name of a global the enclosing body uses
        '@memento_function(cluster="vp")\ndef rank(x):\n    best = max([x, x + 1], key=lambda price: -price)\n    return price(best)\n\n\n'
        'def summary(x):\n    def fmt(m10):\n        aux = m10\n        return aux\n    return fmt(m10(x)) + aux.load(x)\n\n\n'
        '@memento_function(cluster="vp")\ndef summarize(x):\n    return summary(x)\n')
    fails = []
    out = vrun.child(dict(root=root, pkg=pkg, store=os.path.join(root, "store_names"),
                          actions=[["import"], ["call", "report", 1], ["call", "report2", 1], ["deps", "load"], ["call", "load", 2],
                                   ["deps", "total"], ["call", "total", 3], ["deps", "wrapped_user"], ["call", "wrapped_user", 4],
                                   ["deps", "rank"], ["call", "rank", 5], ["deps", "summarize"], ["call", "summarize", 6]]))
    try:
        for i, who in ((1, "report"), (2, "report2")):
            res = out[i]["result"]
            if not (res[0] == "raise" and res[1] == "UndeclaredDependencyError"):
                fails.append(dict(clause="undeclared-call-refused", scenario="callee-name-is-a-prefix-of-a-dependency", fn=who, got=res[:2]))
        if out[3]["trans"] != ["load"] or out[3]["direct"] != ["load"]:
            fails.append(dict(clause="transitive-dependencies-exact", scenario="same-function-name-in-two-modules", fn="mod.load", got=out[3]))
        if out[4]["result"] != ["ok", 5]:
            fails.append(dict(clause="declared-call-allowed", scenario="same-function-name-in-two-modules", fn="mod.load", got=out[4]["result"][:3]))
        if out[5]["trans"] != ["load", "load"] or out[5]["direct"] != ["load"]:
            fails.append(dict(clause="transitive-dependencies-exact", scenario="same-function-name-in-two-modules", fn="total", got=out[5]))
        if out[6]["result"] != ["ok", 7]:
            fails.append(dict(clause="declared-call-allowed", scenario="same-function-name-in-two-modules", fn="total", got=out[6]["result"][:3]))
        for (i, who, trans, val) in ((7, "wrapped_user", ["m1", "price"], [5, 14]), (9, "rank", ["price"], 6), (11, "summarize", ["load", "m10"], 118)):
            if out[i]["trans"] != trans:
                fails.append(dict(clause="transitive-dependencies-exact", scenario="wrappers-and-shadowing-parameters", fn=who, got=out[i]["trans"], expected=trans))
            if out[i + 1]["result"] != ["ok", val]:
                fails.append(dict(clause="declared-call-allowed", scenario="wrappers-and-shadowing-parameters", fn=who, got=out[i + 1]["result"][:3]))
    except Exception as e:
        fails.append(dict(clause="dependencies-computable", scenario="names", error=repr(e), out=out))
    return fails


def cross_package_scenario(root):
    """memento functions of another package reached through `module.attribute` (plain import, import-as, through a plain
    helper); dependencies whose bare names are those of builtins (`filter`, `format`, an alias `repr`); hidden calls made
    through `map_over_range`"""
    pkg = "vcross_%d" % os.getpid()
    lib = "vxlib_%d" % os.getpid()
    d = os.path.join(root, pkg)
    os.makedirs(d, exist_ok=True)
    os.makedirs(os.path.join(root, lib), exist_ok=True)
    open(os.path.join(d, "__init__.py"), "w").write("")
    open(os.path.join(root, lib, "__init__.py"), "w").write("")
    M = 'from twosigma.memento import memento_function\n'
    open(os.path.join(root, lib, "core.py"), "w").write(
        M + '\n\n@memento_function(cluster="vp")\ndef leaf(x):\n    return x + 1\n\n\n@memento_function(cluster="vp")\ndef price(x):\n    return leaf(x) * 2\n')
    open(os.path.join(d, "aux.py"), "w").write(
        M + '\n\n@memento_function(cluster="vp")\ndef load(x):\n    return x + 1\n\n\n@memento_function(cluster="vp")\ndef filter(x):\n    return x + 2\n\n\n'
        '@memento_function(cluster="vp")\ndef format(x):\n    return x + 3\n\n\n@memento_function(cluster="vp")\ndef render(x):\n    return x + 4\n')
    os.makedirs(os.path.join(d, "plugins"), exist_ok=True)
    open(os.path.join(d, "plugins", "__init__.py"), "w").write("")
    open(os.path.join(d, "plugins", "tools.py"), "w").write(
        M + '\n\n@memento_function(cluster="vp")\ndef lookup(x):\n    return x + 7\n\n\ndef enrich(x):\n    return lookup(x)\n')
    open(os.path.join(d, "mod.py"), "w").write(
        M + 'import %s.core\nimport %s.core as corealias\nfrom . import aux\nfrom .aux import load, filter, format\nfrom .aux import render as repr\n'
            'from .plugins import tools\n\n\n' % (lib, lib) +
        # a plain helper of the package referred to by an alias; a plain function of a *sub-package* (another package)
        'def prepare(x):\n    return load(x)\n\n\nprep = prepare\n\n\n'
        '@memento_function(cluster="vp")\ndef through_alias(x):\n    return prep(x)\n\n\n'
        '@memento_function(cluster="vp")\ndef through_subpackage(x):\n    return tools.enrich(x)\n\n\n' +
        'def helper(x):\n    return %s.core.price(x)\n\n\n' % lib +
        '@memento_function(cluster="vp")\ndef by_attr(x):\n    return %s.core.price(x)\n\n\n' % lib +
        '@memento_function(cluster="vp")\ndef by_alias(x):\n    return corealias.price(x)\n\n\n'
        '@memento_function(cluster="vp")\ndef through_helper(x):\n    return helper(x)\n\n\n'
        '@memento_function(cluster="vp")\ndef builtin_names(x):\n    return [filter(x), format(x), load(x)]\n\n\n'
        '@memento_function(cluster="vp")\ndef alias_builtin(x):\n    return repr(x)\n\n\n'
        '@memento_function(cluster="vp")\ndef hidden_map(x):\n    return sorted(vars(aux)["lo" + "ad"].map_over_range(x=[x]).items())\n\n\n'
        '@memento_function(cluster="vp")\ndef hidden_pmap(x):\n    return sorted(vars(aux)["lo" + "ad"].force_local().map_over_range(x=[x, x + 1]).items())\n\n\n'
        '@memento_function(cluster="vp")\ndef hidden_batch(x):\n    return vars(aux)["lo" + "ad"].call_batch([{"x": x}])\n')
    want = [("by_attr", ["leaf", "price"], ["ok", 6]), ("by_alias", ["leaf", "price"], ["ok", 6]), ("through_helper", ["leaf", "price"], ["ok", 6]),
            ("builtin_names", ["filter", "format", "load"], ["ok", [4, 5, 3]]), ("alias_builtin", ["render"], ["ok", 6]),
            ("through_alias", ["load"], ["ok", 3])]
    acts = [["import"]]
    for who, _, _ in want:
        acts += [["deps", who], ["call", who, 2]]
    hidden = ["hidden_map", "hidden_pmap", "hidden_batch", "through_subpackage"]
    acts += [["call", h, 2] for h in hidden]
    fails = []
    out = vrun.child(dict(root=root, pkg=pkg, store=os.path.join(root, "store_cross"), actions=acts))
    try:
        for i, (who, trans, val) in enumerate(want):
            dep, res = out[1 + 2 * i], out[2 + 2 * i]
            if who == "through_alias" and dep["edges"] != [["through_alias", "load"]]:
                fails.append(dict(clause="graph-exact", scenario="cross-package-and-builtin-names", fn=who, got=dep["edges"], expected=[["through_alias", "load"]]))
            if dep["trans"] != trans:
                fails.append(dict(clause="transitive-dependencies-exact", scenario="cross-package-and-builtin-names", fn=who, got=dep["trans"], expected=trans))
            if res["result"][:2] != val:
                fails.append(dict(clause="declared-call-allowed", scenario="cross-package-and-builtin-names", fn=who, got=res["result"][:3]))
        for j, who in enumerate(hidden):
            res = out[1 + 2 * len(want) + j]["result"]
            if not (res[0] == "raise" and res[1] == "UndeclaredDependencyError"):
                fails.append(dict(clause="undeclared-call-refused", scenario="hidden-call-through-a-batch-entry-point", fn=who, got=res[:2]))
    except Exception as e:
        fails.append(dict(clause="dependencies-computable", scenario="cross-package-and-builtin-names", error=repr(e), out=out))
    return fails


def rebound_explicit_scenario(root):
    """the dependencies of an explicitly versioned function are those of the reference graph as it is *now*: a plain binding its
    helper goes through is re-bound (no memento function is defined in between), a helper that did not exist is defined"""
    pkg = "vreb_%d" % os.getpid()
    d = os.path.join(root, pkg)
    os.makedirs(d, exist_ok=True)
    open(os.path.join(d, "__init__.py"), "w").write("")
    M = 'from twosigma.memento import memento_function\n'
    open(os.path.join(d, "aux.py"), "w").write(
        M + '\n\n@memento_function(cluster="vp")\ndef alpha(x):\n    return x + 1\n\n\n@memento_function(cluster="vp")\ndef beta(x):\n    return x + 2\n\n\n'
        'def via_alpha(x):\n    return alpha(x)\n\n\ndef via_beta(x):\n    return beta(x)\n\n\nimpl = via_alpha\n')
    open(os.path.join(d, "mod.py"), "w").write(
        M + 'from . import aux\n\n\n@memento_function(cluster="vp", version="1")\ndef report(x):\n    return aux.impl(x)\n\n\n'
        '@memento_function(cluster="vp", version="7")\ndef summary(x):\n    return aux.late(x) if hasattr(aux, "late") else x\n\n\n'
        '@memento_function(cluster="vp")\ndef auto_report(x):\n    return aux.impl(x)\n')
    acts = [["import"], ["deps", "report"], ["deps", "summary"], ["deps", "auto_report"], ["bind", "aux", "impl", "via_beta"], ["deps", "report"],
            ["deps", "auto_report"], ["bind", "aux", "late", "via_beta"], ["deps", "summary"], ["deps", "report"], ["call", "report", 1]]
    out = vrun.child(dict(root=root, pkg=pkg, store=os.path.join(root, "store_reb"), actions=acts))
    fails = []
    try:
        checks = [(1, "report", ["alpha"]), (2, "summary", []), (3, "auto_report", ["alpha"]), (5, "report", ["beta"]), (6, "auto_report", ["beta"]),
                  (8, "summary", ["beta"]), (9, "report", ["beta"])]
        for idx, fn, want in checks:
            if out[idx]["trans"] != want:
                fails.append(dict(clause="transitive-dependencies-exact", scenario="binding-re-bound-under-an-explicitly-versioned-function", fn=fn,
                                  step=idx, got=out[idx]["trans"], expected=want))
            elif sorted(e[1] for e in out[idx]["edges"]) != want:
                fails.append(dict(clause="graph-exact", scenario="binding-re-bound-under-an-explicitly-versioned-function", fn=fn, step=idx,
                                  got=out[idx]["edges"], expected=want))
        if out[10]["result"][:2] != ["ok", 3]:
            fails.append(dict(clause="declared-call-allowed", scenario="binding-re-bound-under-an-explicitly-versioned-function", got=out[10]["result"][:3]))
    except Exception as e:
        fails.append(dict(clause="dependencies-computable", scenario="binding-re-bound-under-an-explicitly-versioned-function", error=repr(e), out=str(out)[:400]))
    return fails


def package_init_scenario(root):
    """plain helpers and memento functions defined in a package's __init__.py belong to the package like those of its
    modules: the walk descends through them in both directions"""
    pkg = "vinit_%d" % os.getpid()
    d = os.path.join(root, pkg)
    os.makedirs(d, exist_ok=True)
    open(os.path.join(d, "__init__.py"), "w").write(
        'from twosigma.memento import memento_function\n\n\n'
        '@memento_function(cluster="vp")\ndef leaf_cfg(x):\n    return x + 1\n\n\n'
        'def init_helper(x):\n    return leaf_cfg(x)\n\n\n'
        '@memento_function(cluster="vp")\ndef entry(x):\n    from . import mod\n    return mod.mod_helper(x)\n')
    open(os.path.join(d, "aux.py"), "w").write("")
    open(os.path.join(d, "mod.py"), "w").write(
        'from twosigma.memento import memento_function\nimport %s as _pkg\nfrom . import aux\n\n\n'
        '@memento_function(cluster="vp")\ndef leaf_h(x):\n    return x + 2\n\n\n'
        'def mod_helper(x):\n    return leaf_h(x)\n\n\n'
        '@memento_function(cluster="vp")\ndef top_attr(x):\n    return _pkg.init_helper(x)\n' % pkg)
    fails = []
    out = vrun.child(dict(root=root, pkg=pkg, store=os.path.join(root, "store_init"),
                          actions=[["import"], ["deps", "top_attr"], ["call", "top_attr", 1]]))
    try:
        if out[1]["trans"] != ["leaf_cfg"]:
            fails.append(dict(clause="transitive-dependencies-exact", scenario="helper-in-package-init", got=out[1]["trans"], expected=["leaf_cfg"]))
        if out[2]["result"][0] != "ok":
            fails.append(dict(clause="declared-call-allowed", scenario="helper-in-package-init", got=out[2]["result"][:3]))
    except Exception as e:
        fails.append(dict(clause="dependencies-computable", scenario="helper-in-package-init", error=repr(e), out=out))
    return fails


def small_graphs(nmax):
    """every reference graph over <= nmax function nodes of kinds {memento, plain} with bare references"""
    for n in range(1, nmax + 1):
        for kinds in itertools.product("mh", repeat=n):
            if "m" not in kinds:
                continue
            names = ["%s%d" % (k, i + 1) for i, k in enumerate(kinds)]
            pairs = [(a, b) for a in range(n) for b in range(n) if a != b]
            for mask in range(1 << len(pairs)):
                defs = {}
                for nm in names:
                    defs[nm] = dict(kind="memento" if nm[0] == "m" else "plain", where="mod", const=1, setc=None, tup=None, dflt=None,
                                    kwd=None, lam=None, refs=[])
                    if nm[0] == "m":
                        defs[nm]["explicit"] = None
                    else:
                        defs[nm]["wrapped"] = False
                for bit, (a, b) in enumerate(pairs):
                    if mask >> bit & 1:
                        defs[names[a]]["refs"].append([names[b], "bare"])
                yield dict(defs=defs, order=names)


def main(chk, replay=None):
    if replay is not None:
        root = tempfile.mkdtemp(prefix="c14r_")
        try:
            fails, _ = check_program(replay["program"], root)
            print(json.dumps(dict(still_fails=bool(fails), observed=fails[:3]), default=str))
            return 1 if fails else 0
        finally:
            shutil.rmtree(root, ignore_errors=True)
    chk.rule = ("reference graphs: exhaustive over <= 3 function nodes of kinds {memento, plain} with all bare-reference edge sets "
                "(thorough; quick samples them), plus random programs with variables, module-attribute and alias references, "
                "decorator-wrapped helpers, cycles and hidden dynamic calls. Each program is rendered to a package and loaded in a "
                "fresh process. Distinct = distinct program; non-trivial = >= 1 reference.")
    proof_ok = chk.build_and_audit()
    quick = chk.tier == "quick"
    rng = chk.rng
    progs = []
    smalls = list(small_graphs(3))
    if quick:
        rng.shuffle(smalls)
        smalls = smalls[:60]
    progs += [("enumerated", p) for p in smalls]
    progs += [("random", vprogs.gen_prog(rng, nm=rng.randint(2, 5), hidden_rate=0.15, cyc_rate=0.3)) for _ in range(60 if quick else 800)]
    chk.extra["exhaustive_small_graphs"] = (not quick)
    reported = 0
    for f in dynamic_scenarios(tempfile.mkdtemp(prefix="c14d_", dir=chk.tmpdir())):
        chk.violation({"what": "dependency closure (%s): %s" % (f.get("scenario"), f["clause"]),
                       "class": {"clause": f["clause"], "scenario": f.get("scenario")}, "observed": f, "source": FNARG_SRC})
    chk.case(["dynamic-scenarios"], sample=dict(kind="function passed as argument / late-bound module attribute"))

    def work(item):
        src, prog = item
        root = tempfile.mkdtemp(prefix="c14_", dir=chk.tmpdir())
        try:
            return src, prog, check_program(prog, root)
        finally:
            shutil.rmtree(root, ignore_errors=True)

    vm = vmodel.VModel()
    with concurrent.futures.ThreadPoolExecutor(max_workers=14) as ex:
        for src, prog, (fails, obs) in ex.map(work, progs):
            for stream, detail in model_check(vm, prog, obs):
                chk.correspondence_break("version-model:" + stream, dict(detail=detail, program=prog))
            chk.count("model-compared-functions", len(obs))
            nrefs = sum(len(d.get("refs", [])) for d in prog["defs"].values())
            chk.case(prog, nontrivial=nrefs > 0, sample=dict(source=src, defs={k: v.get("refs") for k, v in prog["defs"].items()}, observed=obs))
            chk.count("program:" + src)
            if any(form == "hidden" for d in prog["defs"].values() for _, form in d.get("refs", [])):
                chk.count("has-hidden-call")
            if fails and reported < 4:
                reported += 1
                chk.violation({"what": "dependency closure: %s for %s" % (fails[0]["clause"], fails[0].get("fn")),
                               "class": {"clause": fails[0]["clause"]}, "program": prog, "observed": fails[:3],
                               "source": vprogs.render_modules(prog, "replay")})
    vm.close()


if __name__ == "__main__":
    sys.exit(run_check(PROP, main, sys.argv[1:]))
