"""Bridge between abstract versioned programs (vprogs) and the Lean versioning model (`mmodel version`).

Names are interned to integers, code tokens are the interned rendered source of a definition (everything
`fn_code_hash` digests is a function of that text), variable tokens the interned canonical JSON of the value.
The model is asked for versions (as strings under the driver's injective hash rendering: only their
*equality pattern* is compared with the real digests), rule keys and dependency reports.
"""
import json

import common
import vprogs


class VModel:
    def __init__(self):
        self.m = common.Model("version")
        self.ids = {}
        self.toks = {}
        self.rev = {}

    def close(self):
        self.m.close()

    def nid(self, name):
        if name not in self.ids:
            self.ids[name] = len(self.ids) + 1
            self.rev[self.ids[name]] = name
        return self.ids[name]

    def tok(self, key):
        key = json.dumps(key, sort_keys=True)
        if key not in self.toks:
            self.toks[key] = len(self.toks) + 1
        return self.toks[key]

    def send(self, line):
        out = self.m.send(line)
        if out == "bad-op":
            raise common.Infra("version model rejected %r" % line)
        return out

    def load(self, prog, order="id"):
        self.send("reset")
        self.send("ord " + order)
        for name in prog["order"]:
            d = prog["defs"][name]
            n = self.nid(name)
            if d["kind"] == "var":
                v = d["value"]
                if vprogs.unsupported(v):
                    self.send("v %d -" % n)
                else:
                    self.send("v %d %d" % (n, self.tok(["val", v])))
                continue
            refs = [self.nid(t) for t in vprogs.visible_refs(prog, name)]
            # the token: the source text of the definition (hidden calls and reference spellings included)
            tok = self.tok(["code", vprogs.render_def(name, d, prog, "P")])
            rs = " ".join(str(r) for r in refs)
            if d["kind"] == "memento":
                e = common.hexs(d["explicit"]) if d.get("explicit") else "auto"
                self.send(("m %d %s %d %s" % (n, e, tok, rs)).strip())
            else:
                self.send(("p %d %d %d %s" % (n, 0 if d.get("foreign") else 1, tok, rs)).strip())

    def ver(self, name):
        return self.send("ver %d" % self.nid(name))

    def rules(self, name):
        return self.send("rules %d" % self.nid(name))

    def deps(self, name):
        out = self.send("deps %d" % self.nid(name))
        parts = dict(p.split("=", 1) for p in out.split(" "))
        nm = lambda s: sorted(self.rev[int(x)] for x in s.split(",") if x)
        edges = sorted([self.rev[int(a)], self.rev[int(b)]] for a, b in (e.split(">") for e in parts["edges"].split(",") if e))
        return dict(trans=nm(parts["trans"]), direct=nm(parts["direct"]), edges=edges)

    def allowed(self, caller, callee, args=()):
        return self.send("allowed %d %d %s" % (self.nid(caller), self.nid(callee), " ".join(str(self.nid(a)) for a in args))) == "1"


def partition_mismatches(pairs):
    """pairs: list of (label, real_version, model_version). Returns the list of label pairs on which the
    equality patterns differ, as dicts with kind 'real-coarser' (equal real versions for different model
    versions: a tracked difference is not in the digest) or 'real-finer' (different real versions for equal
    model versions: the digest depends on something that is not part of the program)."""
    out = []
    by_real, by_model = {}, {}
    for lab, r, m in pairs:
        if r in by_real and by_real[r][1] != m:
            out.append(dict(kind="real-coarser", a=by_real[r][0], b=lab, real=r))
        by_real.setdefault(r, (lab, m))
        if m in by_model and by_model[m][1] != r:
            out.append(dict(kind="real-finer", a=by_model[m][0], b=lab, real=[by_model[m][1], r]))
        by_model.setdefault(m, (lab, r))
    return out
