"""C06 — the memory cache is bounded, least-recently-used, and keeps honest accounts.

Lean: Model/Cache.lean, Lemmas/CacheLemmas.lean, Props/C06.lean (invariant over all histories,
LRU-prefix eviction, oversize never resident, usage zero when nothing resident).
Correspondence: random and enumerated op histories on the real `MemoryCache` vs `mmodel cache`.
Oracle: the property itself, evaluated on the real class with harness-side bookkeeping only.
"""
import gc
import itertools
import json
import os
import sys

import common
from common import Check, Model, run_check, ddmin

PROP = "C06"
COPY = 1000000   # identity offset of pandas copies in the model


def _imports():
    import numpy as np
    import pandas as pd
    from twosigma.memento.storage_base import MemoryCache
    from twosigma.memento.reference import FunctionReferenceWithArgHash
    import mfns
    return np, pd, MemoryCache, FunctionReferenceWithArgHash, mfns


FNS = {1: ("fa", "1"), 2: ("fa", "10"), 3: ("fb", "1")}     # fa#1 is a string prefix of fa#10
ARGS = [1, 2, 3]


class World:
    """the real cache plus harness-side bookkeeping (no access to cache internals except where noted)"""

    def __init__(self, budget):
        np, pd, MemoryCache, FRH, mfns = _imports()
        self.np, self.pd, self.FRH, self.mfns = np, pd, FRH, mfns
        self.budget = budget
        self.cache = MemoryCache(budget / 2 ** 20)
        self.budget_honoured = (self.cache.memory_cache_bytes == budget)     # (checked by execute(): a finding, not a crash)
        self.refs = {f: mfns.fn_ref(getattr(mfns, n), None if v == "1" else v) for f, (n, v) in FNS.items()}
        self.fwa = {(f, a): mfns.with_args(self.refs[f], a) for f in FNS for a in ARGS}
        self.mementos = {}       # mid -> memento (strongly held)
        self.mid_of = {}         # id(memento) -> mid
        self.cur = {}            # key -> memento most recently put (needed to address read_result)
        self.held = {}           # vid -> object (strong refs of the "caller")
        self.last_put = {}       # key -> dict(vid, size, has)
        self.lastuse = {}        # key -> harness clock
        self.clock = 0
        self.nmid = 0
        self.ngen = 0
        self.oid = {}            # vid -> model identity of the caller's current object for vid

    # ---- values -------------------------------------------------------------------------------
    def make_value(self, vid, cls, nbytes):
        np, pd = self.np, self.pd
        n = max(4, nbytes)
        tagb = int(vid).to_bytes(4, "little")
        if cls == "b":          # bytes: not weak-referenceable
            return tagb + bytes(n - 4)
        if cls == "a":          # ndarray: weak-referenceable
            arr = np.zeros(n, dtype=np.uint8)
            arr[:4] = list(tagb)
            return arr
        if cls == "s":          # Series: copied by put ("view busting"), weak-referenceable
            return pd.Series([vid] + [0] * (max(1, n // 8) - 1), dtype="int64")
        if cls in ("l", "d"):   # list / dict of more than ten elements of uneven size: the size is *estimated*
            k = 12 + vid % 7
            first = tagb + bytes(max(0, n // k - 45))
            lst = [first] + ["x" * ((i * 37 + vid) % 101) for i in range(1, k)]
            return lst if cls == "l" else {"k%d" % i: x for i, x in enumerate(lst)}
        raise ValueError(cls)

    def tag(self, obj):
        np, pd = self.np, self.pd
        if obj is None:
            return 0
        if isinstance(obj, bytes):
            return int.from_bytes(obj[:4], "little")
        if isinstance(obj, np.ndarray):
            return int.from_bytes(bytes(obj[:4].tolist()), "little")
        if isinstance(obj, pd.Series):
            return int(obj.iloc[0])
        if isinstance(obj, list):
            return int.from_bytes(obj[0][:4], "little")
        if isinstance(obj, dict):
            return int.from_bytes(obj["k0"][:4], "little")
        return -1

    def frh(self, key):
        return self.FRH(self.refs[key[0]], self.fwa[key].arg_hash)

    def resident(self, key):
        return self.cache.get_mementos([self.frh(key)])[0] is not None

    def resident_set(self):
        return [k for k in sorted(self.fwa) if self.resident(k)]

    # ---- one op on the real class; returns (model_line, real_output) ---------------------------
    def apply(self, op):
        kind = op[0]
        c = self.cache
        if kind == "put":
            _, f, a, vid, cls, nbytes, has = op
            key = (f, a)
            self.nmid += 1
            mid = self.nmid
            m = self.mfns.make_memento(self.fwa[key], seq=mid)
            self.mementos[mid] = m
            self.mid_of[id(m)] = mid
            if has:
                # model identity of an object = vid + COPY * generation (the driver prints identity % COPY,
                # i.e. the content tag); a value re-created after the caller dropped it is a new object
                obj = self.held.get(vid)
                if obj is None or self.kind_of.get(vid) != (cls, nbytes):
                    obj = self.make_value(vid, cls, nbytes)
                    self.ngen += 1
                    self.oid[vid] = vid + COPY * self.ngen
                oid = self.oid[vid]
                size = c._estimate_object_size(obj)
                wr = cls in ("a", "s")
                if wr:
                    self.held[vid] = obj      # the caller keeps using its result
                if cls == "s":
                    self.ngen += 1
                    vc = str(vid + COPY * self.ngen)   # every put makes a distinct copy object
                else:
                    vc = "-"
            else:
                obj, size, wr, vc, vid, oid = None, c._estimate_object_size(None), False, "-", 0, 0
            before = self.resident_set()
            c.put(m, obj, has_result=bool(has))
            self.cur[key] = m
            self.clock += 1
            after = self.resident_set()
            self.last_put[key] = dict(vid=vid, size=size, has=bool(has))
            if key in after:
                self.lastuse[key] = self.clock
            self._evicted = (key, size, before, after)
            line = "put %d %d %d %d %d %d %d %s" % (f, a, mid, oid, int(size), int(wr), int(bool(has)), vc)
            if wr:
                line = ["hold %d" % oid, line]
            del obj
            return line, "ok"
        if kind == "getm":
            keys = op[1]
            res = c.get_mementos([self.frh(tuple(k)) for k in keys])
            out = " ".join("-" if r is None else str(self.mid_of.get(id(r), -1)) for r in res)
            return "getm " + " ".join("%d:%d" % tuple(k) for k in keys), out
        if kind == "read":
            key = (op[1], op[2])
            m = self.cur.get(key) or self.mfns.make_memento(self.fwa[key], seq=0)
            was_res = self.resident(key)
            try:
                v = c.read_result(m)
                out = "v:%d" % self.tag(v)
                self.clock += 1
                if was_res:
                    self.lastuse[key] = self.clock
                self._read = (key, was_res, self.tag(v))
                del v
            except KeyError:
                out = "KeyError"
                self._read = (key, was_res, None)
            return "read %d %d" % key, out
        if kind == "ismem":
            key = (op[1], op[2])
            r = c.is_memoized(self.refs[key[0]], self.fwa[key].arg_hash)
            self.clock += 1
            if self.resident(key):
                self.lastuse[key] = self.clock
            return "ismem %d %d" % key, "1" if r else "0"
        if kind == "allmem":
            keys = [tuple(k) for k in op[1]]
            r = c.is_all_memoized([self.fwa[k] for k in keys])
            for k in keys:                      # a query is a use of every queried call that is resident
                self.clock += 1
                if self.resident(k):
                    self.lastuse[k] = self.clock
            return "allmem " + " ".join("%d:%d" % k for k in keys), "1" if r else "0"
        if kind == "fcall":
            key = (op[1], op[2])
            c.forget_call(self.frh(key))
            return "fcall %d %d" % key, "ok"
        if kind == "ffn":
            c.forget_function(self.refs[op[1]])
            return "ffn %d" % op[1], "ok"
        if kind == "fall":
            c.forget_everything()
            return "fall", "ok"
        if kind == "drop":
            vid = op[1]
            self.held.pop(vid, None)
            gc.collect()
            return "drop %d" % self.oid.get(vid, vid), "ok"
        raise ValueError(op)

    kind_of = {}

    def dump(self):
        ents = []
        for k in self.resident_set():
            try:
                e = self.cache.cache[self.cache._cache_key_for_fn(self.refs[k[0]], self.fwa[k].arg_hash)]
                ents.append("%d:%d:%d:%d" % (k[0], k[1], int(bool(e.has_value)), int(e.obj_size)))
            except Exception:      # internals refactored: compare what is observable
                lp = self.last_put.get(k, {})
                ents.append("%d:%d:%d:%d" % (k[0], k[1], int(lp.get("has", 0)), lp.get("size", -1)))
        return "usage=%d resident=%s" % (int(self.cache.memory_usage), ",".join(ents))

    # ---- the property itself, on the real class ------------------------------------------------
    def oracle(self, op):
        """returns a list of failure descriptions (empty = property holds at this step)"""
        fails = []
        c = self.cache
        res = self.resident_set()
        if op[0] == "put":
            key, size, before, after = self._evicted
            if size > self.budget and key in after:
                # (reported alone: the accounting below presumes the resident entry is the last put)
                return [dict(clause="oversize-never-resident", key=key, size=size, budget=self.budget)]
        from fractions import Fraction
        accounted = sum((Fraction(self.last_put[k]["size"]) for k in res), Fraction(0))     # exact, whatever the number type
        usage = c.memory_usage
        if Fraction(usage) != accounted:
            fails.append(dict(clause="usage-equals-resident", usage=repr(usage), accounted=repr(float(accounted)), resident=res))
        if accounted > self.budget or usage > self.budget:
            fails.append(dict(clause="never-exceeds-budget", usage=repr(usage), accounted=repr(float(accounted)), budget=self.budget))
        if not res and usage != 0:
            fails.append(dict(clause="zero-after-forgetting-everything", usage=repr(usage)))
        if op[0] == "put":
            key, size, before, after = self._evicted
            if size > self.budget and key in after:
                fails.append(dict(clause="oversize-never-resident", key=key, size=size, budget=self.budget))
            if size <= self.budget and key not in after:
                fails.append(dict(clause="fitting-put-becomes-resident", key=key, size=size))
            evicted = [k for k in before if k not in after and k != key]
            survivors = [k for k in before if k in after and k != key]
            for e in evicted:
                for s in survivors:
                    if not self.lastuse.get(e, 0) < self.lastuse.get(s, 0):
                        fails.append(dict(clause="evicts-least-recently-used", evicted=e, survivor=s,
                                          lastuse_evicted=self.lastuse.get(e), lastuse_survivor=self.lastuse.get(s)))
            if evicted and size <= self.budget:
                newest = max(evicted, key=lambda k: self.lastuse.get(k, 0))
                if accounted + self.last_put_size_before.get(newest, 0) <= self.budget:
                    fails.append(dict(clause="evicts-no-more-than-needed", evicted=evicted, would_fit=newest))
        if op[0] == "read":
            key, was_res, got = self._read
            lp = self.last_put.get(key)
            if was_res and lp and lp["has"] and got != lp["vid"]:
                fails.append(dict(clause="resident-entry-served-from-cache", key=key, got=got, expected=lp["vid"]))
        self.last_put_size_before = {k: self.last_put[k]["size"] for k in self.last_put}
        return fails

    last_put_size_before = {}


_SHARED = {}


def shared_model():
    """one driver process for the whole run (`init B` resets the model state)"""
    m = _SHARED.get("m")
    if m is None or m.p.poll() is not None:
        m = _SHARED["m"] = Model("cache")
    return m


def execute(budget, ops, use_model=True):
    """run ops on the real cache (and the model); returns dict(oracle=[...], mismatch=[...], transcript=[...])"""
    w = World(budget)
    w.kind_of = {}
    model = shared_model() if use_model else None
    res = dict(oracle=[], mismatch=[], transcript=[])
    if not w.budget_honoured:
        res["oracle"].append(dict(step=0, op=ops[0] if ops else None, clause="configured-budget-honoured", configured_bytes=budget,
                                  effective_bytes=repr(w.cache.memory_cache_bytes)))
        return res
    try:
        if model:
            model.send("init %d" % budget)
        for i, op in enumerate(ops):
            if op[0] == "put" and op[6]:
                w.kind_of.setdefault(op[3], (op[4], op[5]))
            try:
                line, real = w.apply(op)
            except Exception as e:      # an internal error escaping the cache is a finding by itself
                res["oracle"].append(dict(step=i, op=op, clause="no-internal-error", error=repr(e)))
                break
            lines = line if isinstance(line, list) else [line]
            mout = None
            if model:
                for ln in lines:
                    mout = model.send(ln)
                mdump = model.send("dump")
            rdump = w.dump()
            res["transcript"].append(dict(op=op, real=real, real_dump=rdump, model=mout, model_dump=mdump if model else None))
            if model and (mout != real or mdump != rdump):
                res["mismatch"].append(dict(step=i, op=op, real=real, model=mout, real_dump=rdump, model_dump=mdump))
            for f in w.oracle(op):
                f.update(step=i, op=op)
                res["oracle"].append(f)
            if res["oracle"] or res["mismatch"]:
                break
    finally:
        pass
    return res


def gen_history(rng, budget, length):
    """mostly-valid structured histories; sizes are chosen relative to the budget"""
    ops = []
    nvid = [0]
    live_vids = []
    base_over = {"b": 33, "a": 112, "s": 140, "l": 700, "d": 1100}

    def newval():
        nvid[0] += 1
        cls = rng.choice("bbbaasl" if budget < 3000 else "bbaasldl")
        frac = rng.choice([0.05, 0.2, 0.3, 0.5, 0.5, 1.0, 1.0, 1.3, 3.0] if cls in "bas" else [0.3, 0.3, 0.5, 1.3])
        target = int(budget * frac)
        nbytes = max(4, target - base_over[cls])
        if frac == 1.0 and rng.random() < 0.5:
            nbytes += rng.choice([-1, 0, 1])
        return nvid[0], cls, nbytes

    for _ in range(length):
        r = rng.random()
        key = (rng.choice(list(FNS)), rng.choice(ARGS))
        if r < 0.42:
            if live_vids and rng.random() < 0.15:
                vid, cls, nbytes = rng.choice(live_vids)
            else:
                vid, cls, nbytes = newval()
                live_vids.append((vid, cls, nbytes))
            has = 0 if rng.random() < 0.15 else 1
            ops.append(["put", key[0], key[1], vid, cls, nbytes, has])
        elif r < 0.62:
            ops.append(["read", key[0], key[1]])
        elif r < 0.70:
            ops.append(["ismem", key[0], key[1]])
        elif r < 0.74:
            ks = [[rng.choice(list(FNS)), rng.choice(ARGS)] for _ in range(rng.randint(1, 3))]
            ops.append(["allmem", ks])
        elif r < 0.80:
            ks = [[rng.choice(list(FNS)), rng.choice(ARGS)] for _ in range(rng.randint(1, 3))]
            ops.append(["getm", ks])
        elif r < 0.87:
            ops.append(["fcall", key[0], key[1]])
        elif r < 0.92:
            ops.append(["ffn", key[0]])
        elif r < 0.94:
            ops.append(["fall"])
        else:
            if live_vids:
                ops.append(["drop", rng.choice(live_vids)[0]])
    return ops


def enumerate_small(budget, depth):
    """every history of length `depth` over a small alphabet (2 keys, 3 size classes)"""
    alpha = []
    vid = 0
    for key in [(1, 1), (2, 1)]:
        for frac in (0.4, 0.7, 1.5):
            vid += 1
            alpha.append(["put", key[0], key[1], vid, "b", max(4, int(budget * frac) - 33), 1])
        alpha.append(["read", key[0], key[1]])
        alpha.append(["fcall", key[0], key[1]])
    alpha.append(["ffn", 1])
    return alpha, itertools.product(range(len(alpha)), repeat=depth)


def classify(fail):
    return {"clause": fail.get("clause")}


def report(chk, budget, ops, res, source):
    """shrink and report an oracle failure as a violation with a concrete replay"""
    first = res["oracle"][0]
    clause = first["clause"]

    def still_fails(cand):
        r = execute(budget, cand, use_model=False)
        return any(f["clause"] == clause for f in r["oracle"])

    small = ddmin(ops[: first["step"] + 1], still_fails)
    r2 = execute(budget, small, use_model=True)
    chk.violation({
        "what": "memory cache violates clause '%s' on the real MemoryCache" % clause,
        "class": classify(first),
        "budget": budget,
        "ops": small,
        "observed": r2["oracle"][:3] or res["oracle"][:3],
        "transcript": r2["transcript"][-6:],
        "source": source,
    })


# ---- the glue between the cache and the store: "keep being served without touching the underlying store" ------------
_AUD = {"on": False, "roots": (), "paths": [], "installed": False}


def _audit_hook(event, args):
    if not _AUD["on"] or event not in ("open", "os.listdir", "os.scandir"):
        return
    try:
        p = os.fspath(args[0]) if args and args[0] is not None else ""
    except TypeError:
        return
    if isinstance(p, bytes):
        p = p.decode("utf-8", "replace")
    if any(p.startswith(r) for r in _AUD["roots"]):
        _AUD["paths"].append(event + ":" + p)


GLUE_BUDGET = 4 * 2 ** 20       # far more than all 18 calls x the largest value: room is never needed


def glue_run(cfg, ops, root=None):
    """the real filesystem backend with a memory cache so large that nothing ever has to be dropped: every call whose
    value was written or read since it was last forgotten is resident, so look-ups, reads and is-memoized queries of it
    must not open, list or scan anything under the store's directories (file-system audit events of the interpreter).
    Harness-side bookkeeping only: the set of calls written/read and not forgotten since."""
    import storeworld as sw
    if not _AUD["installed"]:
        sys.addaudithook(_audit_hook)
        _AUD["installed"] = True
    w = sw.World(cfg, root=root)
    spec = sw.DictOracle()
    hot = set()
    fails = []
    mid = 0
    try:
        _AUD["roots"] = tuple({os.path.realpath(w.data_dir), os.path.realpath(w.meta_dir), w.data_dir, w.meta_dir})
        for i, op in enumerate(ops):
            op = list(op)
            if op[0] == "reopen":
                # another backend object over the same directories (a second session): its cache starts empty, the store is as it was;
                # whatever is read through it is resident from then on
                w.be = w._open(type(w.be), False)
                hot = set()
                continue
            if not spec.admissible(op):
                continue
            if op[0] == "memoize":
                mid += 1
                op = op[:5] + [mid]
            k = op[0]
            watched = ((k in ("lookread", "ismem") and (op[1], op[2]) in hot) or
                       (k == "getm" and all(tuple(x) in hot for x in op[1])))
            _AUD["paths"] = []
            _AUD["on"] = True
            try:
                real = w.apply(op)
            finally:
                _AUD["on"] = False
            want = spec.step(op)
            if watched and _AUD["paths"]:
                fails.append(dict(clause="resident-served-without-store", step=i, op=op, touched=_AUD["paths"][:3],
                                  answer=real))
                break
            if watched and real != want:
                fails.append(dict(clause="resident-entry-served-from-cache", step=i, op=op, got=real, expected=want))
                break
            if k == "memoize":
                (hot.add if op[4] is not None else hot.discard)((op[1], op[2]))
            elif k == "lookread" and want not in ("none", "v:null"):
                hot.add((op[1], op[2]))
            elif k == "fcall":
                hot.discard((op[1], op[2]))
            elif k == "ffn":
                hot = {x for x in hot if x[0] != op[1]}
            elif k == "fall":
                hot = set()
    finally:
        _AUD["on"] = False
        w.close()
    return fails


GLUE_CORPUS = [
    # a look-up of a group that mixes a resident call with one that is not memoized must leave the resident one resident
    [["memoize", 1, 1, None, 9], ["memoize", 4, 1, None, 12], ["getm", [[1, 1], [4, 2]]], ["lookread", 1, 1], ["lookread", 4, 1]],
    [["memoize", 1, 1, None, 9], ["memoize", 1, 2, None, 10], ["getm", [[1, 3], [1, 1], [1, 2]]], ["getm", [[1, 1], [1, 2]]],
     ["lookread", 1, 2], ["ismem", 1, 1]],
    # a value read from the store is resident afterwards (new backend object = empty cache is not modelled here: same object)
    [["memoize", 5, 1, 1, 20], ["fcall", 5, 1], ["memoize", 5, 1, 1, 21], ["lookread", 5, 1], ["getm", [[5, 1]]], ["ismem", 5, 1]],
    # a second session over the same store: the first read of a call goes to the store, every later one is served from memory
    [["memoize", 1, 1, None, 9], ["memoize", 1, 2, None, 10], ["reopen"], ["lookread", 1, 1], ["lookread", 1, 1], ["getm", [[1, 1]]], ["ismem", 1, 1],
     ["lookread", 1, 2], ["lookread", 1, 2], ["lookread", 1, 1]],
    [["memoize", 4, 1, None, 12], ["memoize", 5, 1, 1, 20], ["reopen"], ["getm", [[4, 1], [5, 1]]], ["lookread", 4, 1], ["lookread", 5, 1],
     ["lookread", 4, 1], ["lookread", 5, 1], ["reopen"], ["ismem", 4, 1], ["lookread", 4, 1], ["lookread", 4, 1]],
]


def glue_gen(rng, n):
    import storeworld as sw
    ops = sw.gen_ops(rng, n, fns=rng.choice([None, [1, 2, 4], [1, 5]]), part_rate=0.0)
    ops = [o for o in ops if o[0] not in ("hold", "drop", "lsml")]
    if rng.random() < 0.5 and len(ops) > 4:
        i = rng.randrange(2, len(ops))
        reads = [o for o in ops[:i] if o[0] == "memoize"][-2:]
        ops = ops[:i] + [["reopen"]] + [["lookread", o[1], o[2]] for o in reads for _ in (0, 1)] + ops[i:]
    return ops



def frame_scenario(seed, budget=200000, n=30):
    """data frames and series with more than 100 rows of uneven size, each about as large as the budget: the size of such an
    object is *estimated* from a random sample of rows, so two estimates of one object differ. Whatever the estimates are,
    the accounts must be honest: usage <= budget, no resident entry larger than the budget, usage = sum of the resident
    entries' sizes. (Real cache only; reads `cache` / `obj_size` of the cache object.)"""
    import random
    rng = random.Random(seed)
    w = World(budget)
    pd = w.pd
    fails = []
    for i in range(n):
        rows = rng.randint(120, 420)
        target = budget * rng.uniform(0.75, 1.25)
        weights = [rng.choice([0.03, 0.1, 0.5, 1, 3, 6]) for _ in range(rows)]
        scale = target / sum(weights)
        texts = ["x" * max(1, int(wt * scale)) for wt in weights]
        obj = pd.DataFrame({"t": texts, "n": list(range(rows))}) if i % 3 else pd.Series(texts)
        key = (1 + i % 3, 1 + (i // 3) % 3)
        m = w.mfns.make_memento(w.fwa[key], seq=5000 + i)
        w.cache.put(m, obj, True)
        c = w.cache
        sizes = [int(e.obj_size) for e in c.cache.values()]
        usage = int(c.memory_usage)
        if usage > budget:
            fails.append(dict(clause="never-exceeds-budget", usage=usage, budget=budget, step=i, rows=rows))
        if any(sz > budget for sz in sizes):
            fails.append(dict(clause="oversize-never-resident", sizes=sizes, budget=budget, step=i, rows=rows))
        if usage != sum(sizes):
            fails.append(dict(clause="usage-equals-resident", usage=usage, accounted=sum(sizes), step=i))
        if fails:
            break
    return fails


def main(chk, replay=None):
    if replay is not None and replay.get("frames"):
        bad = frame_scenario(replay["frame_seed"], replay["budget"])
        print(json.dumps(dict(still_fails=bool(bad), observed=bad[:3]), default=str))
        return 1 if bad else 0
    if replay is not None and replay.get("glue"):
        bad = glue_run(replay["config"], replay["ops"])
        print(json.dumps(dict(still_fails=bool(bad), observed=bad[:3]), default=str))
        return 1 if bad else 0
    if replay is not None:
        r = execute(replay["budget"], replay["ops"], use_model=False)
        cl = replay.get("class", {}).get("clause")
        bad = [f for f in r["oracle"] if cl is None or f["clause"] == cl]
        print(json.dumps(dict(still_fails=bool(bad), observed=bad[:3]), default=str))
        return 1 if bad else 0

    chk.rule = ("op histories over 3 functions x 3 argument values on the real MemoryCache with byte-precise budgets; "
                "values: bytes (not weak-referenceable), ndarray (weak-referenceable), Series (copied), lists / dicts of > 10 uneven elements (estimated size), memento-only; group queries (is_all_memoized); "
                "sizes relative to the budget (5%..300%, exactly fitting +-1); plus data frames / series of > 100 uneven rows about as large "
                "as the budget (their size is estimated from a random sample of rows; real cache only). Distinct = distinct (budget, op list); "
                "non-trivial = contains >= 1 put.")
    chk.assumptions += [
        "sizes are what the real _estimate_object_size returns (fed to the model as data)",
        "weak-reference liveness is driven by explicit hold/drop ops of the harness (CPython refcounting)",
    ]
    proof_ok = chk.build_and_audit()
    quick = chk.tier == "quick"
    rng = chk.rng
    n_random = 400 if quick else 6000
    maxlen = 30 if quick else 60
    mismatches = 0
    failures = 0

    def run_one(budget, ops, source):
        nonlocal mismatches, failures
        res = execute(budget, ops, use_model=proof_ok)
        chk.case([budget, ops], nontrivial=any(o[0] == "put" for o in ops),
                 sample=dict(budget=budget, ops=ops[:8], last_dump=res["transcript"][-1]["real_dump"] if res["transcript"] else None))
        for t in res["transcript"]:
            chk.count("op:" + t["op"][0])
            if t["op"][0] == "read":
                chk.count("read:" + ("hit" if t["real"].startswith("v:") else "KeyError"))
        if res["oracle"]:
            failures += 1
            if failures <= 3:
                report(chk, budget, ops, res, source)
        elif res["mismatch"]:
            mismatches += 1
            chk.correspondence_break("cache-ops", dict(budget=budget, ops=ops[: res["mismatch"][0]["step"] + 1],
                                                       first=res["mismatch"][0]))

    # frames whose size is estimated from a sample of rows, each about as large as the budget
    for fs_ in range(6 if quick else 60):
        fseed = rng.randrange(1 << 30)
        ff = frame_scenario(fseed)
        chk.case(["frames", fseed], nontrivial=True, sample=dict(kind="sampled-size frames near the budget", seed=fseed))
        chk.count("frame-puts", 30)
        if ff:
            chk.violation({"what": "cache accounting with sampled-size frames: %s" % ff[0]["clause"], "class": {"clause": ff[0]["clause"], "values": "frames"},
                           "frames": True, "frame_seed": fseed, "budget": 200000, "observed": ff[:2]})
            break
    # the glue between the cache and the store (real filesystem backend + cache, audit events under the store directories)
    glue_failed = 0
    gl = [(g, "corpus") for g in GLUE_CORPUS] + [(None, "random")] * (40 if quick else 600)
    for gi, (gops, gsrc) in enumerate(gl):
        if gops is None:
            gops = glue_gen(rng, rng.randint(5, 30 if quick else 60))
        cfg = dict(kind="fs", budget=GLUE_BUDGET, separate=bool(gi % 2))
        gf = glue_run(cfg, gops, root=chk.tmpdir())
        chk.case(["glue", cfg, gops], nontrivial=any(o[0] == "memoize" for o in gops),
                 sample=dict(kind="filesystem backend + cache, store accesses of resident calls", ops=gops[:6]))
        chk.count("glue-histories")
        chk.count("glue-ops", len(gops))
        if gf:
            glue_failed += 1
            clause = gf[0]["clause"]
            small = ddmin(gops[: gf[0]["step"] + 1], lambda cand: any(f["clause"] == clause for f in glue_run(cfg, cand, root=chk.tmpdir())))
            chk.violation({"what": "a resident, recently used result was not served from memory: %s" % clause,
                           "class": {"clause": clause, "level": "backend"}, "glue": True, "config": cfg, "ops": small,
                           "observed": glue_run(cfg, small, root=chk.tmpdir())[:2] or gf[:2], "source": gsrc})
            if glue_failed >= 2:
                break
    # corpus of minimized past disagreements runs first
    for c in CORPUS:
        run_one(c["budget"], c["ops"], "corpus")

    # exhaustive small histories
    depth = 4 if quick else 5
    for budget in ([400] if quick else [400, 1000]):
        alpha, seqs = enumerate_small(budget, depth)
        for s in seqs:
            run_one(budget, [alpha[i] for i in s], "enumeration depth %d" % depth)
            if failures > 3:
                break
    chk.extra["exhaustive_small_histories"] = dict(depth=depth, alphabet=9)

    for i in range(n_random):
        budget = rng.choice([200, 333, 400, 1000, 5000])
        ops = gen_history(rng, budget, rng.randint(3, maxlen))
        run_one(budget, ops, "random")
        if failures > 3 or mismatches > 10:
            break

    # a broken correspondence/obligation without an oracle failure: widen the search on the implementation
    if (chk.correspondence_breaks and failures == 0):
        for i in range(3000):
            budget = rng.choice([150, 200, 333, 400, 1000])
            ops = gen_history(rng, budget, rng.randint(3, 80))
            res = execute(budget, ops, use_model=False)
            chk.count("widened-search")
            if res["oracle"]:
                failures += 1
                report(chk, budget, ops, res, "widened search")
                break


CORPUS = [
    # the very same object (an array the caller still holds / a memento without value) written again for its call is a use of that
    # call: the put that needs room afterwards drops the other one
    dict(budget=1000, ops=[["put", 1, 1, 1, "a", 300, 1], ["put", 1, 2, 2, "b", 300, 1], ["put", 1, 1, 1, "a", 300, 1], ["put", 1, 3, 3, "b", 300, 1],
                           ["getm", [[1, 1], [1, 2], [1, 3]]], ["read", 1, 1]]),
    dict(budget=400, ops=[["put", 1, 1, 0, "b", 4, 0], ["put", 1, 2, 2, "b", 300, 1], ["put", 1, 1, 0, "b", 4, 0], ["put", 1, 3, 3, "b", 100, 1],
                          ["getm", [[1, 1], [1, 2], [1, 3]]]]),
    dict(budget=1000, ops=[["put", 2, 1, 1, "s", 300, 1], ["put", 1, 2, 2, "b", 300, 1], ["put", 2, 1, 1, "s", 300, 1], ["put", 1, 3, 3, "b", 300, 1],
                           ["getm", [[2, 1], [1, 2], [1, 3]]], ["read", 2, 1]]),
    # a group query [missing, (1,1)] is a use of (1,1) although it is listed after a call that is not resident: the put
    # that needs room must drop (1,2)
    dict(budget=1000, ops=[["put", 1, 1, 1, "b", 250, 1], ["put", 1, 2, 2, "b", 250, 1], ["put", 1, 3, 3, "b", 250, 1],
                           ["allmem", [[3, 3], [1, 1]]], ["put", 2, 1, 5, "b", 250, 1], ["getm", [[1, 1], [1, 2], [1, 3], [2, 1]]], ["read", 1, 1]]),
    # lists of more than ten uneven elements, forgotten one by one in two orders: the counter must return to zero exactly
    dict(budget=20000, ops=[["put", 1, 1, 1, "l", 900, 1], ["put", 1, 2, 2, "l", 1700, 1], ["put", 1, 3, 3, "l", 2900, 1],
                            ["fcall", 1, 1], ["fcall", 1, 2], ["fcall", 1, 3]]),
    dict(budget=20000, ops=[["put", 1, 1, 4, "l", 900, 1], ["put", 1, 2, 5, "d", 1700, 1], ["put", 1, 3, 6, "l", 2900, 1],
                            ["fcall", 1, 3], ["fcall", 1, 2], ["fcall", 1, 1]]),
    # forgetting another function must not disturb the recency order of the survivors: (1,1) was written first but read
    # last, so the put that needs room must evict (1,2), not (1,1)
    dict(budget=1000, ops=[["put", 1, 1, 1, "b", 250, 1], ["put", 1, 2, 2, "b", 250, 1], ["put", 1, 3, 3, "b", 250, 1],
                           ["put", 3, 1, 4, "b", 20, 1], ["read", 1, 1], ["ffn", 3], ["put", 2, 1, 5, "b", 250, 1],
                           ["getm", [[1, 1], [1, 2], [1, 3], [2, 1]]], ["read", 1, 1]]),
    dict(budget=1000, ops=[["put", 1, 1, 1, "b", 250, 1], ["put", 1, 2, 2, "b", 250, 1], ["put", 3, 1, 4, "b", 20, 1],
                           ["ismem", 1, 1], ["fcall", 3, 1], ["put", 2, 1, 5, "b", 400, 1], ["getm", [[1, 1], [1, 2], [2, 1]]]]),
    # re-put of a resident key with an oversize value must not leave the stale entry resident
    dict(budget=400, ops=[["put", 1, 1, 1, "b", 100, 1], ["put", 1, 1, 2, "b", 1000, 1], ["getm", [[1, 1]]], ["read", 1, 1]]),
    # fa#1 vs fa#10: forget_function must not touch the other function
    dict(budget=1000, ops=[["put", 1, 1, 1, "b", 100, 1], ["put", 2, 1, 2, "b", 100, 1], ["ffn", 1], ["getm", [[1, 1], [2, 1]]]]),
    # non-weakrefable re-put after a weakrefable one: the old weak reference must not be served
    dict(budget=400, ops=[["put", 1, 1, 1, "a", 50, 1], ["put", 1, 1, 2, "b", 50, 1], ["fcall", 2, 2], ["put", 1, 2, 3, "b", 360, 1], ["read", 1, 1]]),
]

if __name__ == "__main__":
    sys.exit(run_check(PROP, main, sys.argv[1:]))
