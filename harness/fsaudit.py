"""File-system mutation recorder built on sys.addaudithook (installed once per process; hooks
cannot be removed, so recording is switched by a flag)."""
import hashlib
import os
import sys

_state = {"on": False, "roots": [], "events": [], "installed": False, "fault": None}

MUTATORS = ("os.mkdir", "os.rename", "os.remove", "os.rmdir", "shutil.rmtree", "os.truncate", "os.chmod",
            "os.link", "os.symlink", "os.utime", "shutil.move", "shutil.copyfile", "os.chown")


def _under(path):
    try:
        p = os.fspath(path)
    except TypeError:
        return False
    if isinstance(p, bytes):
        p = p.decode("utf-8", "replace")
    p = os.path.abspath(p)
    return any(p == r or p.startswith(r + os.sep) for r in _state["roots"])


def _hook(event, args):
    if not _state["on"]:
        return
    try:
        if event == "open":
            path, mode, flags = args[0], args[1], args[2]
            if isinstance(path, int):
                return
            writing = bool(flags & (os.O_WRONLY | os.O_RDWR | os.O_CREAT | os.O_TRUNC | os.O_APPEND))
            if _under(path):
                _state["events"].append(("open-w" if writing else "open-r", os.path.abspath(os.fspath(path))))
                f = _state["fault"]
                if f is not None:
                    f(("open-w" if writing else "open-r", os.path.abspath(os.fspath(path))))
        elif event in MUTATORS:
            paths = [a for a in args[:2] if isinstance(a, (str, bytes, os.PathLike))]
            if any(_under(p) for p in paths):
                ev = (event, ) + tuple(os.path.abspath(os.fspath(p)) for p in paths)
                _state["events"].append(ev)
                f = _state["fault"]
                if f is not None:
                    f(ev)
    except (OSError, SystemExit):
        raise
    except Exception:
        pass


def install():
    if not _state["installed"]:
        sys.addaudithook(_hook)
        _state["installed"] = True


class Recorder:
    """with Recorder([root,...]) as r: ...; r.events / r.mutations"""

    def __init__(self, roots, fault=None):
        self.roots = [os.path.abspath(r) for r in roots if r]
        self.fault = fault
        self.events = []

    def __enter__(self):
        install()
        _state["roots"] = self.roots
        _state["events"] = []
        _state["fault"] = self.fault
        _state["on"] = True
        return self

    def __exit__(self, *a):
        _state["on"] = False
        _state["fault"] = None
        self.events = list(_state["events"])
        return False

    @property
    def mutations(self):
        return [e for e in self.events if e[0] != "open-r"]


def snapshot(roots):
    """recursive (relative path, kind, size, mtime_ns, sha256) listing of the roots"""
    out = []
    for r in sorted(set(os.path.abspath(x) for x in roots if x)):
        if not os.path.exists(r):
            out.append((r, "absent"))
            continue
        for d, dirs, files in os.walk(r):
            dirs.sort()
            st = os.stat(d)
            out.append((d, "dir", st.st_mtime_ns))
            for f in sorted(files):
                p = os.path.join(d, f)
                st = os.stat(p)
                out.append((p, "file", st.st_size, st.st_mtime_ns, hashlib.sha256(open(p, "rb").read()).hexdigest()))
    return out
