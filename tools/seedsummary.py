#!/usr/bin/env python3
import json, os, glob
rows=[]
for d in sorted(glob.glob('/verif/seeded/*/meta.json')):
    m=json.load(open(d)); v=m.get('verification',{})
    ch=v.get('checks',{})
    rows.append((os.path.basename(os.path.dirname(d)), 'valid' if v.get('valid') else 'INVALID', ' '.join('%s:%s(%ss)'%(k,{0:'MISS',1:'caught'}.get(c['rc'],'rc%s'%c['rc']),c['secs']) for k,c in ch.items()), (m.get('summary') or '')[:90]))
for r in rows: print('%-7s %-7s %-45s %s'%r)
