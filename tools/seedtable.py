#!/usr/bin/env python3
"""regenerate the seeded-changes table of DESIGN.md from seeded/*/meta.json"""
import glob, json, os, re
NOTES = {
    "C01-3": "first missed: C14 now calls every function with the hidden call's argument first (callee memoized when the hidden call happens)",
    "C02-3": "first missed: independent table of documented result types in the value matrix",
    "C03-1": "first missed: generator gained defaults holding a set two levels down",
    "C03-2": "first missed: generator gained variables whose names differ only in case",
    "C05-1": "missed by C05 (needs read_result with the memento kept from memoize); caught by C06's cache-ops stream",
    "C05-4": "first missed: limited listings (count = min(limit, live)) + corpus with custom metadata",
    "C06-3": "first missed: corpus history read-then-forget_function-then-put",
    "C07-3": "not reached: only misbehaves under a thread interleaving of two writers (outside C07's sequential quantifier)",
    "C07-4": "a fault-injection change: caught by C08",
    "C08-2": "first missed: crash-after-rename and error-on-close variants",
    "C09-1": "first crashed the harness (LoggedLock lacked acquire(blocking=False)); caught after giving it the full RLock interface",
    "C09-3": "first missed: scenarios with two different auto-versioned functions",
    "C10-1": "first missed: directed corpus (batch with repeats, all subsets)",
    "C10-4": "first missed: records of the sub-calls compared too; chain of depth 4 on fs+cache",
    "C12-3": "first missed: evolution of a function passed as an argument",
    "C13-3": "first missed: memento -> plain function of another package -> identical memento",
    "C14-2": "first missed: helper defined in the package's __init__.py",
    "C14-3": "first missed: hidden call to an explicitly versioned callee",
    "C15-3": "first missed: generator / iterator ranges for map_over_range",
    "C16-2": "first missed: context value matrix (falsy values)",
    "C18-3": "first missed: names resolved before prepend_repo/append_repo",
    "C19-4": "first missed: read-only memory backend scenario",
    # round 2 (sub-agents on the tree with all fixes, told what had been tried before)
    "C01b-1": "C13 first missed: directed scenario re-defining a helper with an equal code object and other defaults",
    "C01b-2": "first missed: generator feature + corpus history editing only the string constant of a generator expression",
    "C02b-2": "first missed: generated programs raise a subclass of NonMemoizedException too",
    "C02b-3": "first missed: value matrix gained 0-d, 3-d, transposed, strided, Fortran-order and (1,0)-shaped arrays (C15 does not look at values)",
    "C03b-1": "first missed: generator gained callable default values",
    "C03b-2": "first missed: hand-written package with three aliases of one helper under 12 hash seeds",
    "C03b-3": "first missed: hand-written packages with equal symbols under different parents",
    "C04b-2": "first missed: normalize(v) compared with an independent normalisation that observes date arithmetic (DST zone vs fixed offset)",
    "C04b-3": "first missed: chained partial applications on a function object kept between calls",
    "C05b-1": "first missed by C05: corpus histories hold an oversize / evicted weak-referenceable result across forget_function",
    "C05b-2": "a storage-level change: caught by C05 and C07; C06 (cache only) is not concerned",
    "C07b-2": "first missed: store world gained partition values (index + per-key blobs)",
    "C07b-3": "first missed: corpus with two calls sharing an override key, one of them forgotten",
    "C08b-1": "first missed: backend with a cache smaller than any result",
    "C08b-2": "first missed: scenario on a populated store (other functions' results must keep being served)",
    "C08b-3": "first missed: scenario with a partition merged on the partition of a nested memento call",
    "C10b-3": "first missed: corpus with handled non-memoized failing sub-calls (single and batch)",
    "C09b-1": "first crashed the harness (it replaced the mutex table): logging now wraps _mutex_for_invocation; reached by the long-flight scenario (one call in flight across 1100 other invocations)",
    "C09b-3": "first missed: family C (in-memory backend, function-call granularity inside the storage modules)",
    "C11b-1": "first crashed the harness (decoded runtime None): rendering now tolerant, the round trip flags it",
    "C12b-3": "first missed: module names starting with 'm' (and other first characters)",
    "C13b-1": "first missed: event 'a builtin name is shadowed by a function of the module'",
    "C13b-2": "first missed: version queries for subsets of the live objects at every position; directed A -> B -> A with an unused clone",
    "C14b-3": "first missed: local variable named like the attribute; memento functions in the helper module",
    "C15b-3": "first missed: store re-opened in a new session with a subset cached again; values now depend on the argument; worlds run in their own environment (C05 caught it from the start)",
    "C16b-1": "first missed: directed programs with further calls prevented at an inner edge",
    "C17b-1": "first missed: keys assigned more than once while staging on disk, equal values under several keys",
    "C17b-2": "first missed: up to 6 keys holding distinct values of one kind, staged on disk and returned again",
    "C17b-3": "first missed: partitions built from a defaultdict",
    "C18b-2": "first missed: repositories whose configuration has clusters next to an explicit clusters argument",
    "C18b-3": "first missed: directory names with & < > in template parameters",
    "C19b-2": "first missed: store with missing data objects opened read-only",
    "C19b-3": "first missed: cluster built from configuration dictionaries after a writable cluster on the same path in the same process",
    # round 3 (told what rounds 1 and 2 had tried)
    "C01c-2": "first missed: explicit root left untouched and called with fresh arguments, callers called first (the callee is reached from inside a running body)",
    "C01c-3": "first missed: defaults of functions under a functools.wraps decorator (helpers and memento functions)",
    "C01c-4": "first missed: every rendered function has a local named `a` (a prefix of `aux`)",
    "C02c-1": "an override-key change: caught by C05 and C07 (C02 does not use key overrides)",
    "C02c-2": "the C15b-3 change again: caught by C15 and C05",
    "C02c-3": "first missed: exception messages with `{k} {0}`, `100% }{` and JSON text",
    "C03c-1": "first missed: dict variable with keys of two types built from a set",
    "C03c-2": "first missed: hand-written program spread over two packages",
    "C04c-2": "a context-inheritance change: caught by C16 (C04 calls are top-level)",
    "C04c-3": "first missed: functions defined, used and defined again with re-ordered / renamed parameters",
    "C06c-1": "first missed: data frames / series of > 100 uneven rows about as large as the budget (sampled size estimate)",
    "C07c-1": "needs an I/O fault during a write (outside C07's fault-free histories): caught by C08",
    "C07c-3": "needs an I/O fault while *reading* a link during memoize; results stay right (C08 silent), a second object appears (C07's histories are fault-free): not reached",
    "C08c-1": "first missed: the call under kernel file-size limits (RLIMIT_FSIZE: real short writes)",
    "C09c-1": "first missed: filesystem backend with line-level yields in storage_filesystem.py, two functions with equal arguments, every call repeated afterwards",
    "C09c-3": "first missed: line-level yields in storage_memory.py, every call repeated afterwards",
    "C12c-2": "first missed: evolution removing the middle package of a three-component module path",
    "C13c-1": "first missed: fn_reference() must carry the version version() reports; clone and original asked in turn",
    "C13c-2": "first missed: undefined names defined with the value None",
    "C14c-1": "first missed: hidden callee whose name is a proper prefix of a dependency's name",
    "C14c-3": "first missed: equal function names in two modules",
    "C15c-3": "first missed: a batch of 1011 elements",
    "C16c-3": "first missed: force_local() as a call modifier of generated programs; prevention at an inner edge over a force_local call",
    "C17c-1": "first missed: entries added to the wrapped dictionary after list_keys()",
    "C17c-2": "first missed: all levels published under one key override and read back in one process",
    "C17c-3": "first missed: values that are partitions themselves",
    "C18c-1": "first missed: repository map key different from the cluster's own name",
    "C18c-2": "first missed: one configuration object used twice, first with explicit path arguments",
    "C18c-3": "first missed: the same template file rendered before with other parameter values",
    "C19c-2": "first missed: chains of call modifiers on the null runner",
    "C19c-3": "first missed: an old leftover in the staging directory; tree snapshot taken before the read-only backend is constructed",
    "C10b-5": "needs two threads (outside C10's sequential quantifier); now reached by the added concurrent sub-call scenario",
}
rows = []
for d in sorted(glob.glob("/verif/seeded/*/meta.json")):
    sid = os.path.basename(os.path.dirname(d))
    m = json.load(open(d))
    v = m.get("verification", {})
    ch = v.get("checks", {})
    res = ", ".join("%s %s" % (k, {0: "MISS", 1: "caught"}.get(c["rc"], "rc%s" % c["rc"])) for k, c in sorted(ch.items()))
    summ = re.sub(r"\s+", " ", (m.get("summary") or ""))[:150]
    rows.append("| %s | %s | %s | %s | %s |" % (sid, m.get("property", ""), summ.replace("|", "/"), res, NOTES.get(sid, "")))
table = "| id | property | change (abridged) | result (quick tier) | note |\n|----|----|----|----|----|\n" + "\n".join(rows)
p = "/verif/DESIGN.md"
s = open(p).read()
if "SEEDED_TABLE" in s:
    s = s.replace("SEEDED_TABLE", "<!-- seeded-table-begin -->\n" + table + "\n<!-- seeded-table-end -->")
else:
    s = re.sub(r"<!-- seeded-table-begin -->.*?<!-- seeded-table-end -->", lambda _: "<!-- seeded-table-begin -->\n" + table + "\n<!-- seeded-table-end -->", s, flags=re.S)
open(p, "w").write(s)
print(len(rows), "rows")
