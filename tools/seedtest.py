#!/usr/bin/env python3
"""Validate a seeded defect and run checks against it.

usage: seedtest.py <name> <srcdir> <prop>[,<prop>...] [--tier quick|thorough] [--keep]
  srcdir holds patch.diff, demo.py, meta.json (as produced by a sub-agent).
Steps (all in a scratch worktree of /repo, never in /repo itself):
  1. demo on the unchanged tree must exit 0; 2. patch applies; the pinned suite passes with it;
  3. demo with the patch must exit != 0; 4. each listed check runs with MEMENTO_REPO=<worktree>
  (evidence redirected) and its exit code / VIOLATION lines are recorded.
The result is written to /verif/seeded/<name>/ (patch.diff, demo.py, meta.json).
"""
import json, os, shutil, subprocess, sys, time

VERIF = os.path.dirname(os.path.dirname(os.path.abspath(__file__)))
PY = "/venv/bin/python"


def run(cmd, cwd=None, env=None, timeout=3600):
    t0 = time.time()
    p = subprocess.run(cmd, cwd=cwd, env=env, stdout=subprocess.PIPE, stderr=subprocess.STDOUT, text=True, timeout=timeout)
    return p.returncode, p.stdout, round(time.time() - t0, 1)


def main():
    args = [a for a in sys.argv[1:] if not a.startswith("--")]
    name, src, props = args[0], args[1], args[2].split(",")
    tier = "thorough" if "--thorough" in sys.argv else "quick"
    wt = "/tmp/seedwt/" + name
    evd = "/tmp/seedev/" + name
    os.makedirs("/tmp/seedwt", exist_ok=True)
    shutil.rmtree(evd, ignore_errors=True)
    os.makedirs(evd, exist_ok=True)
    subprocess.run(["git", "-C", "/repo", "worktree", "remove", "--force", wt], stdout=subprocess.DEVNULL, stderr=subprocess.DEVNULL)
    rc, out, _ = run(["git", "-C", "/repo", "worktree", "add", "-q", "--detach", wt, "HEAD"])
    assert rc == 0, out
    res = {"name": name, "props": props}
    try:
        env = dict(os.environ, PYTHONPATH=wt, PYTHONDONTWRITEBYTECODE="1")
        demo = os.path.join(src, "demo.py")
        rc, out, _ = run([PY, demo], cwd=wt, env=env, timeout=600)
        res["demo_without"] = {"rc": rc, "tail": out[-600:]}
        pf = os.path.abspath(os.path.join(src, "patch.diff"))
        rc, out, _ = run(["git", "apply", pf], cwd=wt)
        how = "git apply"
        if rc != 0:
            # the repository has moved on since the patch was written (fix commits): retry with less context
            rc, out2, _ = run(["git", "apply", "-C1", pf], cwd=wt)
            how = "git apply -C1"
            if rc != 0:
                rc, out2, _ = run(["patch", "-p1", "-F", "3", "--no-backup-if-mismatch", "-i", pf], cwd=wt)
                how = "patch -p1 -F3"
            out = out + out2
        res["apply"] = {"rc": rc, "how": how, "out": out[-500:]}
        if rc != 0:
            res["valid"] = False
            return res
        rc, out, secs = run([PY, "-m", "pytest", "-q", "-p", "no:cacheprovider", "--timeout=900", "-x"], cwd=wt, env=env, timeout=1800)
        res["suite_with"] = {"rc": rc, "tail": out.strip().split("\n")[-1], "secs": secs}
        rc, out, _ = run([PY, demo], cwd=wt, env=env, timeout=600)
        res["demo_with"] = {"rc": rc, "tail": out[-1200:]}
        res["valid"] = (res["demo_without"]["rc"] == 0 and res["suite_with"]["rc"] == 0 and res["demo_with"]["rc"] != 0)
        res["checks"] = {}
        for p in props:
            cenv = dict(os.environ, MEMENTO_REPO=wt, VERIF_EVIDENCE_DIR=evd)
            rc, out, secs = run([os.path.join(VERIF, "check"), p, "--tier", tier], cwd=VERIF, env=cenv, timeout=7200)
            viol = [l for l in out.split("\n") if l.startswith("VIOLATION") or l.startswith("# ")]
            res["checks"][p] = {"rc": rc, "secs": secs, "lines": viol[:8], "tail": out[-400:] if rc not in (0, 1) else ""}
            # keep the first replay for the record
            for l in viol:
                if l.startswith("VIOLATION") and "replay=" in l:
                    rp = l.split("replay=")[1].split()[0]
                    if os.path.exists(rp):
                        try:
                            res["checks"][p]["replay_what"] = json.load(open(rp)).get("what")
                        except Exception:
                            pass
                    break
        return res
    finally:
        subprocess.run(["git", "-C", "/repo", "worktree", "remove", "--force", wt], stdout=subprocess.DEVNULL, stderr=subprocess.DEVNULL)
        shutil.rmtree(wt, ignore_errors=True)
        shutil.rmtree(evd, ignore_errors=True)
        dst = os.path.join(VERIF, "seeded", name)
        os.makedirs(dst, exist_ok=True)
        for f in ("patch.diff", "demo.py"):
            if os.path.exists(os.path.join(src, f)) and os.path.abspath(src) != os.path.abspath(dst):
                shutil.copy(os.path.join(src, f), os.path.join(dst, f))
        meta = {}
        try:
            meta = json.load(open(os.path.join(src, "meta.json")))
        except Exception:
            pass
        meta.pop("verification", None) if False else None
        prev = meta.get("verification", {}).get("checks", {}) if isinstance(meta.get("verification"), dict) else {}
        # keep the record of checks not re-run this time
        for k, v in prev.items():
            res.setdefault("checks", {}).setdefault(k, v)
        meta["verification"] = res
        meta["ran"] = ("scratch worktree of /repo HEAD: demo without patch; git apply; pinned suite; demo with patch; "
                       "then ./check <prop> --tier %s with MEMENTO_REPO=<worktree>" % tier)
        json.dump(meta, open(os.path.join(dst, "meta.json"), "w"), indent=1, sort_keys=True)
        print(json.dumps(res, indent=1)[:3000])


if __name__ == "__main__":
    main()
