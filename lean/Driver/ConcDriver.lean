import MementoModel.Model.Conc
import Driver.Common
open Memento.Conc Driver

/-! Line protocol for the concurrent-callers model (trace acceptor).
  init BUDGET K…                keys memoized initially
  start T K | pre T 0|1 | acq T | lookup T 0|1 | exec T | memoize T | rel T   -> ok | reject
  summary K…                    -> per key `K:execs:memo:completed`
  idle T…                       -> 1 if all the listed threads are idle
-/
namespace ConcDriver

def parseEv : List String → Option Ev
  | ["start", t, k] => do pure (.start (← nat? t) (← nat? k))
  | ["pre", t, h] => do pure (.pre (← nat? t) (← bool? h))
  | ["acq", t] => do pure (.acq (← nat? t))
  | ["lookup", t, h] => do pure (.lookup (← nat? t) (← bool? h))
  | ["exec", t] => do pure (.exec (← nat? t))
  | ["memoize", t] => do pure (.memoize (← nat? t))
  | ["rel", t] => do pure (.rel (← nat? t))
  | _ => none

def stepLine (s : St) (t : List String) : St × String :=
  match t with
  | "init" :: b :: ks =>
    match nat? b, ks.mapM nat? with
    | some b, some ks => (init (fun k => ks.contains k) b, "ok")
    | _, _ => (s, "bad-op")
  | "summary" :: ks =>
    match ks.mapM nat? with
    | some ks => (s, joinWith " " (ks.map (fun k => s!"{k}:{s.execs k}:{if s.memo k then 1 else 0}:{if s.completed k then 1 else 0}")))
    | none => (s, "bad-op")
  | "idle" :: ts =>
    match ts.mapM nat? with
    | some ts => (s, if ts.all (fun t => s.pc t == .idle) then "1" else "0")
    | none => (s, "bad-op")
  | _ =>
    match parseEv t with
    | some e => match step s e with
      | some s' => (s', "ok")
      | none => (s, "reject")
    | none => (s, "bad-op")

end ConcDriver
