import MementoModel.Model.ArgHash
import Driver.Common
open Memento.Json Memento.ArgHash Driver

namespace ArgDriver

def unhexStr (s : String) : Option String := (unhex s).map String.ofList

/-- utf-8 aware: tokens carry hex of UTF-8 bytes -/
def hexToString (s : String) : Option String :=
  if s = "-" then some "" else
  let rec go (cs : List Char) (acc : ByteArray) : Option ByteArray :=
    match cs with
    | [] => some acc
    | a :: b :: rest => match hexVal a, hexVal b with
      | some x, some y => go rest (acc.push (UInt8.ofNat (x * 16 + y)))
      | _, _ => none
    | _ => none
  (go s.toList ByteArray.empty).bind String.fromUTF8?

def stringToHex (s : String) : String :=
  if s.isEmpty then "-" else
  String.ofList (s.toUTF8.toList.flatMap (fun b => [hexDigit (b.toNat / 16), hexDigit (b.toNat % 16)]))

mutual
  partial def parseArg : List String → Option (Arg × List String)
    | "N" :: r => some (.none, r)
    | "T" :: r => some (.bool true, r)
    | "F" :: r => some (.bool false, r)
    | "L" :: "(" :: r => (parseList r).map (fun (l, r') => (.list (ArgList.ofList l), r'))
    | "O" :: "(" :: r => (parseObj r).map (fun (o, r') => (.dict (ArgObj.ofList o), r'))
    | "R" :: qn :: "(" :: r => do
      let q ← hexToString qn
      let (pa, r1) ← parseList r
      match r1 with
      | "(" :: r2 =>
        let (pk, r3) ← parseObj r2
        match r3 with
        | "(" :: r4 =>
          let (names, r5) ← parseNames r4
          some (.fnref q (ArgList.ofList pa) (ArgObj.ofList pk) names, r5)
        | _ => none
      | _ => none
    | t :: r =>
      match t.toList with
      | 'I' :: ds => (String.ofList ds).toInt?.map (fun z => (.int z, r))
      | 'D' :: ds => (hexToString (String.ofList ds)).map (fun s => (.float s, r))
      | 'S' :: ds => (hexToString (String.ofList ds)).map (fun s => (.str s, r))
      | 'A' :: ds => (hexToString (String.ofList ds)).map (fun s => (.date s, r))
      | 'M' :: ds => (hexToString (String.ofList ds)).map (fun s => (.datetime s, r))
      | _ => none
    | [] => none
  partial def parseList : List String → Option (List Arg × List String)
    | ")" :: r => some ([], r)
    | ts => do
      let (a, r) ← parseArg ts
      let (l, r') ← parseList r
      some (a :: l, r')
  partial def parseObj : List String → Option (List (String × Arg) × List String)
    | ")" :: r => some ([], r)
    | k :: ts => do
      let key ← hexToString k
      let (a, r) ← parseArg ts
      let (l, r') ← parseObj r
      some ((key, a) :: l, r')
    | [] => none
  partial def parseNames : List String → Option (List String × List String)
    | ")" :: r => some ([], r)
    | k :: ts => do
      let key ← hexToString k
      let (l, r') ← parseNames ts
      some (key :: l, r')
    | [] => none
end

mutual
  partial def showArg : Arg → String
    | .none => "N"
    | .bool true => "T"
    | .bool false => "F"
    | .int z => s!"I{z}"
    | .float t => "D" ++ stringToHex t
    | .str s => "S" ++ stringToHex s
    | .date s => "A" ++ stringToHex s
    | .datetime s => "M" ++ stringToHex s
    | .list l => "L ( " ++ showList l.toList ++ ")"
    | .dict d => "O ( " ++ showObj d.toList ++ ")"
    | .fnref qn pa pk names =>
      "R " ++ stringToHex qn ++ " ( " ++ showList pa.toList ++ ") ( " ++ showObj pk.toList ++ ") ( " ++
        String.join (names.map (fun n => stringToHex n ++ " ")) ++ ")"
  partial def showList : List Arg → String
    | [] => ""
    | a :: r => showArg a ++ " " ++ showList r
  partial def showObj : List (String × Arg) → String
    | [] => ""
    | (k, a) :: r => stringToHex k ++ " " ++ showArg a ++ " " ++ showObj r
end

mutual
  /-- canonical rendering: dictionary members sorted by key at every level -/
  partial def showCanon : Arg → String
    | .list l => "L ( " ++ String.join (l.toList.map (fun a => showCanon a ++ " ")) ++ ")"
    | .dict d => "O ( " ++ showCanonObj (sortKV d.toList) ++ ")"
    | a => showArg a
  partial def showCanonObj : List (String × Arg) → String
    | [] => ""
    | (k, a) :: r => stringToHex k ++ " " ++ showCanon a ++ " " ++ showCanonObj r
end

def asList : Arg → Option (List Arg)
  | .list l => some l.toList
  | _ => none

def asObj : Arg → Option (List (String × Arg))
  | .dict d => some d.toList
  | _ => none

def stepLine (s : Unit) (t : List String) : Unit × String :=
  match t with
  | "enc" :: rest =>
    match parseArg rest with
    | some (a, []) => (s, stringToHex (render (ser (encode a))))
    | _ => (s, "bad-op")
  | "norm" :: rest =>
    match parseArg rest with
    | some (a, []) => (s, match normalize a with | some n => showArg n | none => "err")
    | _ => (s, "bad-op")
  | "effkw" :: "(" :: rest =>
    match (do
      let (names, r1) ← parseNames rest
      let (pa, r2) ← parseArg r1
      let (pk, r3) ← parseArg r2
      let (ar, r4) ← parseArg r3
      let (kw, r5) ← parseArg r4
      let (cx, r6) ← parseArg r5
      if r6 ≠ [] then none else
      some (names, ← asList pa, ← asObj pk, ← asList ar, ← asObj kw, ← asObj cx)) with
    | some (names, pa, pk, ar, kw, cx) =>
      match effKw names pa pk ar kw with
      | .ok m => (s, "json " ++ stringToHex (render (keyTokens m cx)) ++ " kw " ++ showCanonObj (sortKV m))
      | .error .tooManyPartial => (s, "err:ValueError")
      | .error .tooManyArgs => (s, "err:ValueError")
    | none => (s, "bad-op")
  | _ => (s, "bad-op")

end ArgDriver
