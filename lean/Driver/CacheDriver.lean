import MementoModel.Model.Cache
import Driver.Common
open Memento.Cache Driver

namespace CacheDriver

def key? (f a : String) : Option Key := do
  let f ← nat? f; let a ← nat? a; pure ⟨f, a⟩

def keyTok? (s : String) : Option Key :=
  match s.splitOn ":" with
  | [f, a] => key? f a
  | _ => none

def insertSorted (x : Nat × Nat × String) : List (Nat × Nat × String) → List (Nat × Nat × String)
  | [] => [x]
  | y :: ys => if x.1 < y.1 ∨ (x.1 = y.1 ∧ x.2.1 ≤ y.2.1) then x :: y :: ys else y :: insertSorted x ys

def dump (s : State) : String :=
  let ents := s.cache.map (fun p => (p.1.fn, p.1.arg,
    s!"{p.1.fn}:{p.1.arg}:{if p.2.hasValue then 1 else 0}:{p.2.size}"))
  let sorted := ents.foldr insertSorted []
  s!"usage={s.usage} resident={joinWith "," (sorted.map (·.2.2))}"

def showOut : Out → String
  | .unit => "ok"
  | .mems ms => joinWith " " (ms.map showOptNat)
  | .read (.value v) => s!"v:{v % 1000000}"   -- pandas copies carry identity v+10^6, same content tag
  | .read .keyError => "KeyError"
  | .bool b => if b then "1" else "0"

def parseOp : List String → Option Op
  | ["put", f, a, m, v, sz, wr, hr, vc] => do
    let k ← key? f a
    pure (.put k (← nat? m) (← nat? v) (← nat? sz) (← bool? wr) (← bool? hr) (← optNat? vc))
  | "getm" :: ks => do pure (.getm (← ks.mapM keyTok?))
  | ["read", f, a] => do pure (.read (← key? f a))
  | ["ismem", f, a] => do pure (.ismem (← key? f a))
  | "allmem" :: ks => do pure (.allmem (← ks.mapM keyTok?))
  | ["fcall", f, a] => do pure (.fcall (← key? f a))
  | ["ffn", f] => do pure (.ffn (← nat? f))
  | ["fall"] => some .fall
  | ["hold", v] => do pure (.hold (← nat? v))
  | ["drop", v] => do pure (.drop (← nat? v))
  | _ => none

def stepLine (s : State) (t : List String) : State × String :=
  match t with
  | ["init", b] => match nat? b with
    | some b => (init b, "ok")
    | none => (s, "bad-op")
  | ["dump"] => (s, dump s)
  | ["lru"] => (s, joinWith "," (s.lru.map (fun k => s!"{k.fn}:{k.arg}")))
  | _ => match parseOp t with
    | some op => let (s', o) := step s op; (s', showOut o)
    | none => (s, "bad-op")

end CacheDriver
