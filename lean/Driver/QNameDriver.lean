import MementoModel.Model.QName
import Driver.Common
open Memento.QName Driver

/-! Line protocol for `mmodel qname`. Strings are hex of their UTF-8 bytes (`-` = empty string,
    `~` = Python `None`). State: the current code base (`reset` / `mod` / `def`). -/
namespace QNameDriver

def hexToStr (s : String) : Option Str :=
  if s = "-" then some [] else
  let rec go (cs : List Char) (acc : ByteArray) : Option ByteArray :=
    match cs with
    | [] => some acc
    | a :: b :: rest => match hexVal a, hexVal b with
      | some x, some y => go rest (acc.push (UInt8.ofNat (x * 16 + y)))
      | _, _ => none
    | _ => none
  ((go s.toList ByteArray.empty).bind String.fromUTF8?).map String.toList

def strToHex (cs : Str) : String :=
  if cs.isEmpty then "-" else
  String.ofList ((String.ofList cs).toUTF8.toList.flatMap (fun b => [hexDigit (b.toNat / 16), hexDigit (b.toNat % 16)]))

def optToStr (s : String) : Option (Option Str) :=
  if s = "~" then some none else (hexToStr s).map some

def optHex : Option Str → String
  | none => "~"
  | some s => strToHex s

/-- parameter-name lists: `[]` = empty list, otherwise comma-separated hex strings -/
def listToStr (s : String) : Option (List Str) :=
  if s = "[]" then some [] else (s.splitOn ",").mapM hexToStr

def optListToStr (s : String) : Option (Option (List Str)) :=
  if s = "~" then some none else (listToStr s).map some

def showList (l : List Str) : String :=
  if l.isEmpty then "[]" else joinWith "," (l.map strToHex)

/-- stored call token `QN/PARAMS/NARGS` -/
def callTok (s : String) : Option StoredCall :=
  match s.splitOn "/" with
  | [q, p, n] => do
    let q ← hexToStr q
    let p ← optListToStr p
    let n ← nat? n
    pure ⟨q, p, n⟩
  | _ => none

def showErr : Err → String
  | .valueError => "err:ValueError"
  | .typeError => "err:TypeError"

def showRef (r : Ref) : String :=
  (if r.external then "external " else "bound ") ++ strToHex r.qn ++ " " ++ optHex r.cluster ++ " " ++ showList r.params

def showRefShort (r : Ref) : String :=
  (if r.external then "e:" else "b:") ++ strToHex r.qn ++ ":" ++ optHex r.cluster ++ ":" ++ showList r.params

def showFind : Except FindErr Found → String
  | .ok _ => "found"
  | .error .emptyModuleName => "emptyModuleName"
  | .error .relativeImport => "relativeImport"
  | .error .moduleNotFound => "moduleNotFound"
  | .error .locals => "locals"
  | .error .attribute => "attribute"
  | .error .notCallable => "notCallable"
  | .error .notMemento => "notMemento"
  | .error .versionMismatch => "versionMismatch"

def addAttr (cb : CodeBase) (m f : Str) (o : Obj) : CodeBase :=
  match cb with
  | [] => [⟨m, [(f, o)]⟩]
  | md :: r => if md.name = m then ⟨m, (f, o) :: md.attrs⟩ :: r else md :: addAttr r m f o

def addModule (cb : CodeBase) (m : Str) : CodeBase :=
  match lookupModule cb m with
  | some _ => cb
  | none => cb ++ [⟨m, []⟩]

def stepLine (cb : CodeBase) (t : List String) : CodeBase × String :=
  match t with
  | ["build", c, m, f, v] =>
    match optToStr c, hexToStr m, hexToStr f, optToStr v with
    | some c, some m, some f, some v => (cb, strToHex (build c m f v))
    | _, _, _, _ => (cb, "bad-op")
  | ["real", c, m, q, ver] =>
    match optToStr c, hexToStr m, hexToStr q, hexToStr ver with
    | some c, some m, some q, some ver => (cb, strToHex (realName c m q ver))
    | _, _, _, _ => (cb, "bad-op")
  | ["parse", s] =>
    match hexToStr s with
    | some s =>
      match parse s with
      | some p => (cb, optHex p.cluster ++ " " ++ strToHex p.module ++ " " ++ strToHex p.function ++ " " ++ optHex p.version)
      | none => (cb, "err:ValueError")
    | none => (cb, "bad-op")
  | ["esc", s] => match hexToStr s with | some s => (cb, strToHex (escape s)) | none => (cb, "bad-op")
  | ["unq", s] => match hexToStr s with | some s => (cb, strToHex (unquote s)) | none => (cb, "bad-op")
  | ["lsname", d, s] =>
    match bool? d, hexToStr s with
    | some d, some s => (cb, strToHex (listedName d s))
    | _, _ => (cb, "bad-op")
  | ["reset"] => ([], "ok")
  | ["mod", m] => match hexToStr m with | some m => (addModule cb m, "ok") | none => (cb, "bad-op")
  | ["def", m, f, "plain"] =>
    match hexToStr m, hexToStr f with
    | some m, some f => (addAttr (addModule cb m) m f .plain, "ok")
    | _, _ => (cb, "bad-op")
  | ["def", m, f, "value"] =>
    match hexToStr m, hexToStr f with
    | some m, some f => (addAttr (addModule cb m) m f .value, "ok")
    | _, _ => (cb, "bad-op")
  | ["def", m, f, "mfn", c, m', q, ver, ps] =>
    match hexToStr m, hexToStr f, optToStr c, hexToStr m', hexToStr q, hexToStr ver, listToStr ps with
    | some m, some f, some c, some m', some q, some ver, some ps =>
      (addAttr (addModule cb m) m f (.mfn c m' q ver ps), "ok")
    | _, _, _, _, _, _, _ => (cb, "bad-op")
  | ["resolve", s, e, pn] =>
    match hexToStr s, bool? e, optListToStr pn with
    | some s, some e, some pn =>
      match resolve cb s e pn with
      | .ok r => (cb, showRef r)
      | .error e => (cb, showErr e)
    | _, _, _ => (cb, "bad-op")
  | ["find", m, f, v] =>
    match hexToStr m, hexToStr f, optToStr v with
    | some m, some f, some v => (cb, showFind (findFunction cb m f v))
    | _, _, _ => (cb, "bad-op")
  | "readm" :: own :: rest =>
    -- readm OWN INV... | DEP...
    let invs := rest.takeWhile (· ≠ "|")
    let deps := (rest.dropWhile (· ≠ "|")).drop 1
    match callTok own, invs.mapM callTok, deps.mapM callTok with
    | some own, some invs, some deps =>
      match readMemento cb ⟨own, invs, deps⟩ with
      | .ok r => (cb, joinWith " " (["ok", showRefShort r.own] ++ r.invocations.map showRefShort ++ ["|"] ++ r.deps.map showRefShort))
      | .error e => (cb, showErr e)
    | _, _, _ => (cb, "bad-op")
  | "lsfs" :: entries =>
    match entries.mapM hexToStr with
    | some es =>
      match listFunctionsFs cb es with
      | .ok rs => (cb, joinWith " " ("ok" :: rs.map showRefShort))
      | .error e => (cb, showErr e)
    | none => (cb, "bad-op")
  | _ => (cb, "bad-op")

end QNameDriver
