import MementoModel.Model.Config
import Driver.Common
open Memento.Config Driver

/-! Line protocol for the configuration model (`-` = option absent).
  mk HOME TYPE cpath cmeta ccache cro apath ameta acache aro   -> `sig TYPE PATH META CACHE RO | dict PATH META CACHE RO`
  getcluster NAME REPO…      REPO = key:id,key:id,…  (`-` = empty repository) -> id of the cluster found | none
-/
namespace ConfigDriver

def optBool? (s : String) : Option (Option Bool) :=
  if s = "-" then some none else (bool? s).map some

def showOB : Option Bool → String
  | none => "-" | some true => "1" | some false => "0"

def parseRepo (s : String) : Option Repo :=
  if s = "-" then some [] else
  (s.splitOn ",").mapM (fun kv => match kv.splitOn ":" with
    | [k, v] => do
      let k ← nat? k; let v ← nat? v
      pure (k, ({ name := v, storage := mkStorage 0 { type := 2 } {}, runner := 0 } : ClusterSig))
    | _ => none)

def stepLine (u : Unit) (t : List String) : Unit × String :=
  match t with
  | ["mk", home, ty, cp, cm, cc, cr, ap, am, ac, ar] =>
    match nat? home, nat? ty, optNat? cp, optNat? cm, optNat? cc, optBool? cr, optNat? ap, optNat? am, optNat? ac, optBool? ar with
    | some home, some ty, some cp, some cm, some cc, some cr, some ap, some am, some ac, some ar =>
      let s := mkStorage home { type := ty, path := cp, metaPath := cm, cacheMb := cc, readonly := cr }
                 { path := ap, metaPath := am, cacheMb := ac, readOnly := ar }
      let d := storageToCfg s
      (u, s!"sig {s.type} {showOptNat s.path} {showOptNat s.metaPath} {showOptNat s.cache} {if s.readOnly then 1 else 0} | dict {showOptNat d.path} {showOptNat d.metaPath} {showOptNat d.cacheMb} {showOB d.readonly}")
    | _, _, _, _, _, _, _, _, _, _ => (u, "bad-op")
  | "getcluster" :: n :: repos =>
    match nat? n, repos.mapM parseRepo with
    | some n, some e => (u, match getCluster e n with | some c => toString c.name | none => "none")
    | _, _ => (u, "bad-op")
  | _ => (u, "bad-op")

end ConfigDriver
