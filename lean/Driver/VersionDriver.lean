import MementoModel.Model.Version
import Driver.Common
open Memento.Version Driver

/-! Line protocol for the versioning model.
  reset
  m NAME auto|HEX TOK REFS…       memento function (explicit version as hex, `auto` for none)
  p NAME 0|1 TOK REFS…            plain function (in package?)
  v NAME VALTOK|-                 variable (`-`: value of an unsupported type)
  ord id|rev                      enumeration order of reference sets
  ver NAME     -> the version string under the driver's injective, self-delimiting hash rendering
  rules NAME   -> rule keys in hashed order
  deps NAME    -> trans=… direct=… edges=…
  allowed CALLER CALLEE ARGS…     -> 0|1
-/
namespace VersionDriver

structure St where
  prog : Prog := []
  rev : Bool := false

def St.ord (s : St) : List Name → List Name := if s.rev then List.reverse else id

def natStr (n : Nat) : List Char := (toString n).toList

/-- an injective rendering whose images are self-delimiting (`<` … `>` do not occur in version strings) -/
def H : Ser → List Char
  | .code salted n tok refs =>
    '<' :: 'c' :: (if salted then 's' else 'u') :: ':' :: (natStr n ++ ':' :: natStr tok ++ ':' ::
      (refs.flatMap (fun r => natStr r ++ [','])) ++ ['>'])
  | .value v => '<' :: 'v' :: (natStr v ++ ['>'])
  | .rules s => '<' :: 'r' :: (s ++ ['>'])
  | .explicit n e => '<' :: 'e' :: (natStr n ++ '#' :: e ++ ['>'])

def setDef (P : Prog) (n : Name) (d : Def) : Prog := (n, d) :: P.filter (fun p => p.1 != n)

def kindStr : Kind → String
  | .fn => "F" | .gvar => "G" | .mfn => "M" | .undef => "U"

def nodeStr (x : Node) : String :=
  s!"{kindStr x.kind};{match x.parent with | none => "-" | some p => toString p};{x.target}"

def natsStr (l : List Nat) : String := joinWith "," (l.map toString)

def sortNats (l : List Nat) : List Nat := l.foldr (fun x acc => (acc.filter (· < x)) ++ x :: (acc.filter (· ≥ x))) []

def stepLine (s : St) (t : List String) : St × String :=
  match t with
  | ["reset"] => ({}, "ok")
  | ["ord", "id"] => ({ s with rev := false }, "ok")
  | ["ord", "rev"] => ({ s with rev := true }, "ok")
  | "m" :: n :: e :: tok :: refs =>
    match nat? n, nat? tok, refs.mapM nat?, (if e = "auto" then some none else (unhex e).map some) with
    | some n, some tok, some refs, some e => ({ s with prog := setDef s.prog n (.memento e tok refs) }, "ok")
    | _, _, _, _ => (s, "bad-op")
  | "p" :: n :: b :: tok :: refs =>
    match nat? n, bool? b, nat? tok, refs.mapM nat? with
    | some n, some b, some tok, some refs => ({ s with prog := setDef s.prog n (.plain b tok refs) }, "ok")
    | _, _, _, _ => (s, "bad-op")
  | ["v", n, v] =>
    match nat? n, optNat? v with
    | some n, some v => ({ s with prog := setDef s.prog n (.var v) }, "ok")
    | _, _ => (s, "bad-op")
  | ["undef", n] =>
    match nat? n with
    | some n => ({ s with prog := s.prog.filter (fun p => p.1 != n) }, "ok")
    | none => (s, "bad-op")
  | ["ver", n] =>
    match nat? n with
    | some n => (s, String.ofList (effectiveVersion H s.prog s.ord n))
    | none => (s, "bad-op")
  | ["rules", n] =>
    match nat? n with
    | some n => (s, joinWith " " ((sortedRules s.prog s.ord n).map nodeStr))
    | none => (s, "bad-op")
  | ["deps", n] =>
    match nat? n with
    | some n =>
      let tr := sortNats (transDeps s.prog s.ord n)
      let di := sortNats (directDeps s.prog s.ord n)
      let ed := (graphEdges s.prog s.ord n).map (fun e => s!"{e.1}>{e.2}")
      (s, s!"trans={natsStr tr} direct={natsStr di} edges={joinWith "," ed}")
    | none => (s, "bad-op")
  | "allowed" :: a :: b :: args =>
    match nat? a, nat? b, args.mapM nat? with
    | some a, some b, some args => (s, if callAllowed s.prog s.ord a b args then "1" else "0")
    | _, _, _ => (s, "bad-op")
  | _ => (s, "bad-op")

end VersionDriver
