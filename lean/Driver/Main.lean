import Driver.CacheDriver
import Driver.StoreDriver
import Driver.ArgDriver
import Driver.RunnerDriver
import Driver.CodecDriver
import Driver.QNameDriver
import Driver.VersionDriver
import Driver.VCacheDriver
import Driver.PartitionDriver
import Driver.ConfigDriver
import Driver.ConcDriver
open Driver

def main (args : List String) : IO UInt32 := do
  let stdin ← IO.getStdin
  let stdout ← IO.getStdout
  match args with
  | ["cache"] => loop CacheDriver.stepLine stdin stdout (Memento.Cache.init 0); return 0
  | ["arghash"] => loop ArgDriver.stepLine stdin stdout (); return 0
  | ["runner"] => loop RunnerDriver.stepLine stdin stdout {}; return 0
  | ["codec"] => loop CodecDriver.stepLine stdin stdout []; return 0
  | ["qname"] => loop QNameDriver.stepLine stdin stdout ([] : Memento.QName.CodeBase); return 0
  | ["version"] => loop VersionDriver.stepLine stdin stdout ({} : VersionDriver.St); return 0
  | ["vcache"] => loop VCacheDriver.stepLine stdin stdout ({} : Memento.VersionCache.St); return 0
  | ["partition"] => loop PartitionDriver.stepLine stdin stdout (none : Option Memento.Partition.Part); return 0
  | ["config"] => loop ConfigDriver.stepLine stdin stdout (); return 0
  | ["conc"] => loop ConcDriver.stepLine stdin stdout (Memento.Conc.init (fun _ => false) 0); return 0
  | ["store"] => loop StoreDriver.stepLine stdin stdout StoreDriver.St.none; return 0
  | _ => IO.eprintln "usage: mmodel <model>"; return 2
