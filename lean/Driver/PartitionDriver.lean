import MementoModel.Model.Partition
import Driver.Common
open Memento.Partition Driver

/-! Line protocol for the partition model.
  reset
  level K:V,K:V,… 0|1     one level of a chain: a function returns a partition with these own entries whose parent is
                          the current partition; afterwards the current partition is the read-back one (1) or the
                          object handed back by the computing call (0).  -> `first <view> | back <view>` or `ioerror`
  reret 0|1               a function returns the current partition itself -> view of what is read back
  view: keys=… own=… vals=k:v,…
-/
namespace PartitionDriver

def parseKV (s : String) : Option KV :=
  if s = "-" then some [] else
  (s.splitOn ",").mapM (fun kv => match kv.splitOn ":" with
    | [k, v] => do pure ((← nat? k), (← nat? v))
    | _ => none)

def view (p : Part) : String :=
  let ks := p.listKeys true
  let vals := ks.map (fun k => s!"{k}:{match p.get k with | some v => toString v | none => "?"}")
  s!"keys={joinWith "," (ks.map toString)} own={joinWith "," ((p.listKeys false).map toString)} vals={joinWith "," vals}"

def stepLine (q : Option Part) (t : List String) : Option Part × String :=
  match t with
  | ["reset"] => (none, "ok")
  | ["level", kv, b] =>
    match parseKV kv, bool? b with
    | some own, some fromStore =>
      match store (.mem own q none) with
      | none => (q, "ioerror")
      | some (ix, p') => (some (if fromStore then load ix else p'), s!"first {view p'} | back {view (load ix)}")
    | _, _ => (q, "bad-op")
  | ["reret", b] =>
    match q, bool? b with
    | some p, some fromStore =>
      match store p with
      | none => (q, "ioerror")
      | some (ix, p') => (some (if fromStore then load ix else p'), s!"first {view p'} | back {view (load ix)}")
    | _, _ => (q, "bad-op")
  | _ => (q, "bad-op")

end PartitionDriver
