import MementoModel.Model.VersionCache
import Driver.VersionDriver
open Memento.Version Memento.VersionCache Driver

/-! Line protocol for the in-process version cache model.
  reset
  dm NAME auto|HEX TOK REFS…   (re)define a memento function      -> index of its instance | refused (cluster locked)
  lock 0|1                     cluster.locked = …
  dp NAME TOK REFS…            (re)define a plain function
  df NAME TOK                  bind NAME to a plain function of another package
  sv NAME VALTOK               bind a variable
  alias NAME TARGET            bind NAME to the object TARGET is bound to
  clone I | wrapper NAME       -> index of the new instance (or `none`)
  query I                      -> version | none
  fresh NAME                   -> from-scratch version of the current program
-/
namespace VCacheDriver

def H := VersionDriver.H

def showV : Option (List Char) → String
  | none => "none"
  | some v => String.ofList v

def stepLine (s : St) (t : List String) : St × String :=
  match t with
  | ["reset"] => ({}, "ok")
  | "dm" :: n :: e :: tok :: refs =>
    match nat? n, nat? tok, refs.mapM nat?, (if e = "auto" then some none else (unhex e).map some) with
    | some n, some tok, some refs, some e =>
      let s' := (step H s (.defMemento n e tok refs)).1
      (s', if s'.insts.length = s.insts.length then "refused" else toString (s'.insts.length - 1))
    | _, _, _, _ => (s, "bad-op")
  | "dp" :: n :: tok :: refs =>
    match nat? n, nat? tok, refs.mapM nat? with
    | some n, some tok, some refs => ((step H s (.defPlain n tok refs)).1, "ok")
    | _, _, _ => (s, "bad-op")
  | ["df", n, tok] =>
    match nat? n, nat? tok with
    | some n, some tok => ((step H s (.defForeign n tok)).1, "ok")
    | _, _ => (s, "bad-op")
  | ["sv", n, v] =>
    match nat? n, nat? v with
    | some n, some v => ((step H s (.setVar n v)).1, "ok")
    | _, _ => (s, "bad-op")
  | ["alias", n, m] =>
    match nat? n, nat? m with
    | some n, some m => ((step H s (.alias n m)).1, "ok")
    | _, _ => (s, "bad-op")
  | ["clone", i] =>
    match nat? i with
    | some i =>
      let s' := (step H s (.clone i)).1
      (s', if s'.insts.length = s.insts.length then "none" else toString (s'.insts.length - 1))
    | none => (s, "bad-op")
  | ["wrapper", n] =>
    match nat? n with
    | some n =>
      let s' := (step H s (.wrapper n)).1
      (s', if s'.insts.length = s.insts.length then "none" else toString (s'.insts.length - 1))
    | none => (s, "bad-op")
  | ["query", i] =>
    match nat? i with
    | some i => let (s', v) := step H s (.query i); (s', showV v)
    | none => (s, "bad-op")
  | ["fresh", n] =>
    match nat? n with
    | some n => (s, String.ofList (effectiveVersion H (progOf s.sym) id n))
    | none => (s, "bad-op")
  | ["lock", b] =>
    match nat? b with
    | some b => ((step H s (.lock (b != 0))).1, "ok")
    | none => (s, "bad-op")
  | ["gen"] => (s, toString s.gen)
  | _ => (s, "bad-op")

end VCacheDriver
