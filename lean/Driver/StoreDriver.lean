import MementoModel.Model.Store
import MementoModel.Model.Crash
import Driver.Common
open Memento Memento.Store Driver

namespace StoreDriver

inductive St
  | none
  | mem (s : MemBackend)
  | fs (s : FsBackend)
  | crash (s : FsBackend) (ps : List Prim) (scratch : DS)   -- C08: a pending memoize request and a damaged copy

def pair? (s : String) : Option (Nat × Nat) :=
  match s.splitOn ":" with
  | [f, a] => do pure ((← nat? f), (← nat? a))
  | _ => Option.none

def showOut : Out → String
  | .unit => "ok"
  | .mems ms => joinWith " " (ms.map showOptNat)
  | .val Option.none => "none"
  | .val (some Option.none) => "v:null"
  | .val (some (some b)) => s!"v:{b}"
  | .bool b => if b then "1" else "0"
  | .fns fs => "[" ++ joinWith "," (fs.map toString) ++ "]"
  | .memset ms => "{" ++ joinWith "," (ms.map toString) ++ "}"
  | .bytes Option.none => "none"
  | .bytes (some b) => s!"b:{b}"
  | .valueError => "err:ValueError"
  | .ioError => "err:IOError"

def parseOp : List String → Option Op
  | ["memoize", f, a, ov, m, b, sz, wr] => do
    pure (.memoize (← nat? f) (← nat? a) (← optNat? ov) (← nat? m) (← optNat? b) (← nat? sz) (← bool? wr))
  | "getm" :: ks => do pure (.getm (← ks.mapM pair?))
  | ["lookread", f, a] => do pure (.lookread (← nat? f) (← nat? a))
  | ["ismem", f, a] => do pure (.ismem (← nat? f) (← nat? a))
  | ["fcall", f, a] => do pure (.fcall (← nat? f) (← nat? a))
  | ["ffn", f] => do pure (.ffn (← nat? f))
  | ["fall"] => some .fall
  | ["lsf"] => some .lsf
  | ["lsm", f] => do pure (.lsm (← nat? f))
  | ["wmeta", f, a, k, b] => do pure (.wmeta (← nat? f) (← nat? a) (← nat? k) (← nat? b))
  | ["rmeta", f, a, k] => do pure (.rmeta (← nat? f) (← nat? a) (← nat? k))
  | ["hold", b] => do pure (.hold (← nat? b))
  | ["drop", b] => do pure (.drop (← nat? b))
  | _ => Option.none

def countVersions (d : DS) (k : K) : Nat := (d.objs.filter (fun p => p.1.1 == k)).length

/-- canonical view of the data area (`c/` namespace and override keys): `kind:id:versions:linked` -/
def blobs (d : DS) : String :=
  let ks := d.objs.map (·.1.1) ++ d.links.map (·.1)
  let cs := sortDedup (ks.filterMap (fun k => match k with | .content h => some h | _ => Option.none))
  let os := sortDedup (ks.filterMap (fun k => match k with | .override o => some o | _ => Option.none))
  let showK (tag : String) (k : K) (i : Nat) :=
    s!"{tag}{i}:{countVersions d k}:{if (alookup d.links k).isSome then 1 else 0}"
  joinWith "," (cs.map (fun h => showK "c" (.content h) h) ++ os.map (fun o => showK "o" (.override o) o))

def showArea : K → String
  | .content _ => "c"
  | .override _ => "ov"
  | .memento .. => "m"
  | .mdat .. => "m"

def showPrim : Prim → String
  | .writeObj k _ _ => s!"writeObj:{showArea k}"
  | .writeTmp => "writeTmp"
  | .replaceLink k _ => s!"replace:{showArea k}"
  | .removeLink k => s!"remove:{showArea k}"

def natList? (s : String) : Option (List Nat) :=
  if s = "-" then some [] else (s.splitOn ",").mapM nat?

def fsOf : St → Option FsBackend
  | .fs s => some s
  | .crash s _ _ => some s
  | _ => Option.none

def stepLine (st : St) (t : List String) : St × String :=
  match t with
  | ["prims", f, a, ov, m, bs] =>
    match nat? f, nat? a, optNat? ov, nat? m, natList? bs, fsOf st with
    | some f, some a, some ov, some m, some bs, some s =>
      let ps := memoizePrims s.ds ⟨f, a, ov, m, bs⟩
      (.crash s ps s.ds, joinWith " " (ps.map showPrim))
    | _, _, _, _, _, _ => (st, "bad-op")
  | ["variant", n, torn] =>
    match nat? n, bool? torn, st with
    | some n, some torn, .crash s ps _ => (.crash s ps (variant s.ds ps n torn), "ok")
    | _, _, _ => (st, "bad-op")
  | ["outcome", f, a] =>
    match nat? f, nat? a, st with
    | some f, some a, .crash _ _ d =>
      (st, match callOutcome d f a with
        | .served (some b) => s!"served:{b}"
        | .served Option.none => "served:null"
        | .computed => "computed"
        | .raised => "raised")
    | _, _, _ => (st, "bad-op")
  | ["init", "mem", ro] => match bool? ro with
    | some ro => (.mem (MemBackend.init ro), "ok")
    | Option.none => (st, "bad-op")
  | ["init", "fs", sep, budget, ro] =>
    match bool? sep, optNat? budget, bool? ro with
    | some sep, some b, some ro => (.fs (FsBackend.init sep b ro), "ok")
    | _, _, _ => (st, "bad-op")
  | ["ro", ro] => match bool? ro, st with
    | some ro, .fs s => (.fs { s with readOnly := ro }, "ok")
    | some ro, .mem s => (.mem { s with readOnly := ro }, "ok")
    | _, _ => (st, "bad-op")
  | ["newcache", budget] => match optNat? budget, st with   -- a new process / backend object on the same store
    | some b, .fs s => (.fs { s with cache := b.map Cache.init, heap := s.heap }, "ok")
    | _, _ => (st, "bad-op")
  | ["val", b, sz, wr] => match nat? b, nat? sz, bool? wr, st with
    | some b, some sz, some wr, .fs s => (.fs { s with vinfo := aset s.vinfo b (sz, wr) }, "ok")
    | some _, some _, some _, .mem s => (.mem s, "ok")
    | _, _, _, _ => (st, "bad-op")
  | ["blobs"] => match st with
    | .fs s => (st, blobs s.ds)
    | _ => (st, "bad-op")
  | ["usage"] => match st with
    | .fs s => (st, match s.cache with | some c => s!"{c.usage}" | Option.none => "-")
    | _ => (st, "bad-op")
  | _ => match parseOp t, st with
    | some op, .mem s => let (s', o) := MemBackend.step s op; (.mem s', showOut o)
    | some op, .fs s => let (s', o) := FsBackend.step s op; (.fs s', showOut o)
    | some op, .crash s _ _ => let (s', o) := FsBackend.step s op; (.fs s', showOut o)
    | _, _ => (st, "bad-op")

end StoreDriver
