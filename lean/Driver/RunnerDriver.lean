import MementoModel.Model.RunnerProg
import Driver.Common
open Memento.Runner Driver

namespace RunnerDriver

structure DSt where
  defs : List (Fn × FnDef) := []
  decl : List (Fn × Fn) := []
  st   : St := { store := [], trace := [] }

def fuel : Nat := 64

def int? (s : String) : Option Int := s.toInt?

def ctx? (s : String) : Option CtxSpec :=
  if s = "i" then some .inherit else (s.toNat?).map .set

def ints? (s : String) : Option (List Int) :=
  if s = "-" then some [] else (s.splitOn ",").mapM int?

def showOutcome : Outcome → String
  | .val (some v) => s!"v:{v}"
  | .val none => "v:None"
  | .exc c m => s!"x:{c}:{m}"

def showKey (k : Key) : String := s!"{k.fn}:{k.arg}:{k.ctx}"

def showKeys (ks : List Key) : String := "[" ++ joinWith "," (ks.map showKey) ++ "]"

def insertNat (x : Nat) : List Nat → List Nat
  | [] => [x]
  | y :: ys => if x < y then x :: y :: ys else if x = y then y :: ys else y :: insertNat x ys

def sortNat (l : List Nat) : List Nat := l.foldr insertNat []

def updDef (s : DSt) (f : Fn) (g : FnDef → FnDef) : DSt :=
  let d := lookupDef s.defs f
  { s with defs := (f, g d) :: s.defs.filter (fun p => p.1 != f) }

def prog (s : DSt) : Prog := progOf s.defs s.decl

def stepLine (s : DSt) (t : List String) : DSt × String :=
  match t with
  | ["reset"] => ({}, "ok")
  | ["clearstore"] => ({ s with st := { store := [], trace := [] } }, "ok")
  | ["fn", f, ex, rm, rr, c, m, k] =>
    match nat? f, bool? ex, nat? rm, nat? rr, nat? c, nat? m, int? k with
    | some f, some ex, some rm, some rr, some c, some m, some k =>
      ({ s with defs := (f, ⟨[], rm, rr, c, m, k, ex⟩) :: s.defs.filter (fun p => p.1 != f) }, "ok")
    | _, _, _, _, _, _, _ => (s, "bad-op")
  | ["st", f, "call", g, off, cx, ig, pv, ca, gm, gr] =>
    match nat? f, nat? g, int? off, ctx? cx, bool? ig, bool? pv, bool? ca, nat? gm, nat? gr with
    | some f, some g, some off, some cx, some ig, some pv, some ca, some gm, some gr =>
      (updDef s f (fun d => { d with stmts := d.stmts ++ [.call g off cx ⟨ig, pv⟩ ca (gm, gr)] }), "ok")
    | _, _, _, _, _, _, _, _, _ => (s, "bad-op")
  | ["st", f, "batch", g, offs, cx, ig, pv, rf, gm, gr] =>
    match nat? f, nat? g, ints? offs, ctx? cx, bool? ig, bool? pv, bool? rf, nat? gm, nat? gr with
    | some f, some g, some offs, some cx, some ig, some pv, some rf, some gm, some gr =>
      (updDef s f (fun d => { d with stmts := d.stmts ++ [.batch g offs cx ⟨ig, pv⟩ rf (gm, gr)] }), "ok")
    | _, _, _, _, _, _, _, _, _ => (s, "bad-op")
  | ["st", f, "res", h] =>
    match nat? f, nat? h with
    | some f, some h => (updDef s f (fun d => { d with stmts := d.stmts ++ [.resource h] }), "ok")
    | _, _ => (s, "bad-op")
  | ["decl", f, g] =>
    match nat? f, nat? g with
    | some f, some g => ({ s with decl := (f, g) :: s.decl }, "ok")
    | _, _ => (s, "bad-op")
  | ["call", f, a, cx, ig, pv] =>
    match nat? f, int? a, ctx? cx, bool? ig, bool? pv with
    | some f, some a, some cx, some ig, some pv =>
      let s0 := { s.st with trace := [] }
      match callTop (prog s) fuel s0 f a cx ⟨ig, pv⟩ with
      | some (s', o) => ({ s with st := s' }, showOutcome o ++ " execs=" ++ showKeys s'.trace)
      | none => (s, "err:fuel")
    | _, _, _, _, _ => (s, "bad-op")
  | ["batch", f, as, cx, ig, pv, rf] =>
    match nat? f, ints? as, ctx? cx, bool? ig, bool? pv, bool? rf with
    | some f, some as, some cx, some ig, some pv, some rf =>
      let s0 := { s.st with trace := [] }
      match batchTop (prog s) fuel s0 f as cx ⟨ig, pv⟩ with
      | some (s', os) =>
        let shown := match (if rf then firstExc os else none) with
          | some e => "raised " ++ showOutcome e
          | none => "[" ++ joinWith " " (os.map showOutcome) ++ "]"
        ({ s with st := s' }, shown ++ " execs=" ++ showKeys s'.trace)
      | none => (s, "err:fuel")
    | _, _, _, _, _, _ => (s, "bad-op")
  | ["forget", f, a, c] =>
    match nat? f, int? a, nat? c with
    | some f, some a, some c => ({ s with st := forget s.st ⟨f, a, c⟩ }, "ok")
    | _, _, _ => (s, "bad-op")
  | ["memento", f, a, c] =>
    match nat? f, int? a, nat? c with
    | some f, some a, some c =>
      match s.st.get ⟨f, a, c⟩ with
      | some r => (s, "invs=" ++ showKeys r.invs ++ " res=[" ++ joinWith "," (r.res.map toString) ++ "] deps=[" ++
          joinWith "," ((sortNat r.deps).map toString) ++ "] out=" ++ showOutcome r.out)
      | none => (s, "none")
    | _, _, _ => (s, "bad-op")
  | ["pure", f, a, cx] =>
    match nat? f, int? a, ctx? cx with
    | some f, some a, some cx =>
      match pureCall (prog s) fuel f a cx {} with
      | some o => (s, showOutcome o)
      | none => (s, "err:fuel")
    | _, _, _ => (s, "bad-op")
  | ["purerec", f, a, c] =>
    match nat? f, int? a, nat? c with
    | some f, some a, some c =>
      match pureRec (prog s) fuel ⟨f, a, c⟩ with
      | some r => (s, "invs=" ++ showKeys r.invs ++ " res=[" ++ joinWith "," (r.res.map toString) ++ "] deps=[" ++
          joinWith "," ((sortNat r.deps).map toString) ++ "] out=" ++ showOutcome r.out)
      | none => (s, "err:fuel")
    | _, _, _ => (s, "bad-op")
  | _ => (s, "bad-op")

end RunnerDriver
