import MementoModel.Model.Codec
import Driver.ArgDriver
open Memento.Json Memento.ArgHash Memento.Codec Driver ArgDriver

/-! Line protocol for the JSON metadata codec model (`mmodel codec`).  Parsing / printing only. -/
namespace CodecDriver

/-- `~` = None, otherwise a hex string token -/
def parseOptStr (t : String) : Option (Option String) :=
  if t = "~" then some none else (hexToString t).map some

def showOptStr : Option String → String
  | none => "~"
  | some s => stringToHex s

mutual
  partial def parseJ : List String → Option (JVal × List String)
    | "n" :: r => some (.null, r)
    | "t" :: r => some (.bool true, r)
    | "f" :: r => some (.bool false, r)
    | "[" :: r => (parseJL r).map (fun (l, r') => (.arr l, r'))
    | "{" :: r => (parseJO r).map (fun (o, r') => (.obj o, r'))
    | t :: r =>
      match t.toList with
      | '#' :: ds => (hexToString (String.ofList ds)).map (fun s => (.num s, r))
      | 's' :: ds => (hexToString (String.ofList ds)).map (fun s => (.str s, r))
      | _ => none
    | [] => none
  partial def parseJL : List String → Option (JList × List String)
    | "]" :: r => some (.nil, r)
    | ts => do
      let (v, r) ← parseJ ts
      let (l, r') ← parseJL r
      some (.cons v l, r')
  partial def parseJO : List String → Option (JObj × List String)
    | "}" :: r => some (.nil, r)
    | k :: ts => do
      let key ← hexToString k
      let (v, r) ← parseJ ts
      let (o, r') ← parseJO r
      some (.cons key v o, r')
    | [] => none
end

mutual
  partial def showJ : JVal → String
    | .null => "n"
    | .bool true => "t"
    | .bool false => "f"
    | .num t => "#" ++ stringToHex t
    | .str s => "s" ++ stringToHex s
    | .arr l => "[ " ++ showJL l ++ "]"
    | .obj o => "{ " ++ showJO o ++ "}"
  partial def showJL : JList → String
    | .nil => ""
    | .cons v l => showJ v ++ " " ++ showJL l
  partial def showJO : JObj → String
    | .nil => ""
    | .cons k v o => stringToHex k ++ " " ++ showJ v ++ " " ++ showJO o
end

def parseRef : List String → Option (FnRef × List String)
  | ts => match parseArg ts with
    | some (.fnref qn pa pk pn, r) => some (⟨qn, pa, pk, pn⟩, r)
    | _ => none

def parseParenList : List String → Option (ArgList × List String)
  | "(" :: r => (parseList r).map (fun (l, r') => (ArgList.ofList l, r'))
  | _ => none

def parseParenObj : List String → Option (ArgObj × List String)
  | "(" :: r => (parseObj r).map (fun (l, r') => (ArgObj.ofList l, r'))
  | _ => none

def parseCall : List String → Option (Call × List String)
  | "C" :: ts => do
    let (ref, r1) ← parseRef ts
    let (a, r2) ← parseParenList r1
    let (k, r3) ← parseParenObj r2
    let (c, r4) ← parseParenObj r3
    some (⟨ref, a, k, c⟩, r4)
  | _ => none

partial def parseMany {α} (p : List String → Option (α × List String)) : List String → Option (List α × List String)
  | ")" :: r => some ([], r)
  | ts => do
    let (a, r) ← p ts
    let (l, r') ← parseMany p r
    some (a :: l, r')

def parseOptMany {α} (p : List String → Option (α × List String)) : List String → Option (Option (List α) × List String)
  | "~" :: r => some (none, r)
  | "(" :: r => (parseMany p r).map (fun (l, r') => (some l, r'))
  | _ => none

def parseRes : List String → Option (Resource × List String)
  | "H" :: a :: b :: c :: r => do
    let a ← parseOptStr a
    let b ← parseOptStr b
    let c ← parseOptStr c
    some (⟨a, b, c⟩, r)
  | _ => none

def parseCKey : List String → Option (Option VKey × List String)
  | "~" :: r => some (none, r)
  | "K" :: k :: v :: r => do
    let k ← hexToString k
    let v ← hexToString v
    some (some ⟨k, v⟩, r)
  | _ => none

def parseMemento : List String → Option (Memento × List String)
  | "MEM" :: t :: ts => do
    let time ← hexToString t
    let (call, r1) ← parseCall ts
    let (invs, r2) ← parseOptMany parseCall r1
    let (ress, r3) ← parseOptMany parseRes r2
    match r3 with
    | rt :: ty :: "(" :: r4 =>
      let runtime ← hexToString rt
      let tyn ← hexToString ty
      let rty ← ResultType.ofName tyn
      let (deps, r5) ← parseMany parseRef r4
      let (runner, r6) ← parseJ r5
      match r6 with
      | cid :: r7 =>
        let cid ← parseOptStr cid
        let (ck, r8) ← parseCKey r7
        some (⟨time, call, invs, ress, runtime, rty, deps, runner, cid, ck⟩, r8)
      | _ => none
    | _ => none
  | _ => none

def showRef (r : FnRef) : String := showArg (.fnref r.qn r.pargs r.pkw r.pnames)

def showCall (c : Call) : String :=
  "C " ++ showRef c.ref ++ " ( " ++ showList c.args.toList ++ ") ( " ++ showObj c.kwargs.toList ++ ") ( " ++
    showObj c.ctx.toList ++ ")"

def showOptMany {α} (f : α → String) : Option (List α) → String
  | none => "~"
  | some l => "( " ++ String.join (l.map (fun a => f a ++ " ")) ++ ")"

def showRes (r : Resource) : String := "H " ++ showOptStr r.rtype ++ " " ++ showOptStr r.url ++ " " ++ showOptStr r.version

def showCKey : Option VKey → String
  | none => "~"
  | some k => "K " ++ stringToHex k.key ++ " " ++ stringToHex k.version

def showMemento (m : Memento) : String :=
  "MEM " ++ stringToHex m.time ++ " " ++ showCall m.call ++ " " ++ showOptMany showCall m.invocations ++ " " ++
    showOptMany showRes m.resources ++ " " ++ stringToHex m.runtime ++ " " ++ stringToHex m.resultType.name ++ " ( " ++
    String.join (m.deps.map (fun r => showRef r ++ " ")) ++ ") " ++ showJ m.runner ++ " " ++ showOptStr m.correlationId ++
    " " ++ showCKey m.contentKey

/-- dependencies are a set: printed sorted, without duplicates -/
def showMementoCanon (m : Memento) : String :=
  let deps := ((m.deps.map showRef).mergeSort (fun a b => !(b < a))).eraseDups
  "MEM " ++ stringToHex m.time ++ " " ++ showCall m.call ++ " " ++ showOptMany showCall m.invocations ++ " " ++
    showOptMany showRes m.resources ++ " " ++ stringToHex m.runtime ++ " " ++ stringToHex m.resultType.name ++ " ( " ++
    String.join (deps.map (fun r => r ++ " ")) ++ ") " ++ showJ m.runner ++ " " ++ showOptStr m.correlationId ++
    " " ++ showCKey m.contentKey

def b01 (b : Bool) : String := if b then "1" else "0"

/-- the canonical JSON text (keys sorted, no whitespace) of a document -/
def docText (v : JVal) : String := stringToHex (render (ser v))

/-- the string whose SHA-256 is the `arg_hash` of a call -/
def callKey (c : Call) : String :=
  match callEffKw c with
  | some kw => stringToHex (render (keyTokens kw c.ctx.toList))
  | none => "err"

partial def parseCb : List String → Option CodeBase
  | [] => some []
  | qn :: "(" :: r => do
    let q ← hexToString qn
    let (names, r') ← parseNames r
    let rest ← parseCb r'
    some ((q, names) :: rest)
  | _ => none

def stepLine (cb : CodeBase) (t : List String) : CodeBase × String :=
  match t with
  | "cb" :: rest =>
    match parseCb rest with
    | some c => (c, "ok")
    | none => (cb, "bad-op")
  | "enc" :: rest =>
    match parseMemento rest with
    | some (m, []) =>
      let d := encMemento m
      (cb, "doc " ++ docText d ++ " wire " ++ b01 (wireMemento d) ++ " strict " ++ b01 (strictJson d) ++
        " wf " ++ b01 (wfMemento cb m) ++ " finite " ++ b01 (finiteMemento m) ++ " key " ++ callKey m.call)
    | _ => (cb, "bad-op")
  | "dec" :: rest =>
    match parseJ rest with
    | some (v, []) =>
      match decMemento cb v with
      | some m => (cb, "ok " ++ showMementoCanon m ++ " key " ++ callKey m.call)
      | none => (cb, "err")
    | _ => (cb, "bad-op")
  | "encarg" :: rest =>
    match parseArg rest with
    | some (a, []) => let d := encArg a; (cb, "doc " ++ docText d ++ " wire " ++ b01 (wireArg d) ++ " strict " ++ b01 (strictJson d))
    | _ => (cb, "bad-op")
  | "decarg" :: rest =>
    match parseJ rest with
    | some (v, []) =>
      match decArg cb v with
      | some a => (cb, "ok " ++ showArg a)
      | none => (cb, "err")
    | _ => (cb, "bad-op")
  | "wire" :: rest =>
    match parseJ rest with
    | some (v, []) => (cb, b01 (wireMemento v) ++ " " ++ b01 (strictJson v))
    | _ => (cb, "bad-op")
  | ["dtenc", iso] =>
    match hexToString iso with
    | some s => (cb, stringToHex (encDatetime s))
    | none => (cb, "bad-op")
  | ["dtdec", txt] =>
    match hexToString txt with
    | some s => (cb, showArg (decDatetime s))
    | none => (cb, "bad-op")
  | ["vkenc", k, v] =>
    match hexToString k, hexToString v with
    | some k, some v => (cb, stringToHex (encVKey ⟨k, v⟩))
    | _, _ => (cb, "bad-op")
  | ["vkdec", s] =>
    match hexToString s with
    | some s => let k := decVKey s; (cb, stringToHex k.key ++ " " ++ stringToHex k.version)
    | none => (cb, "bad-op")
  | ["names"] => (cb, " ".intercalate (ResultType.all.map (·.name)))
  | _ => (cb, "bad-op")

end CodecDriver
