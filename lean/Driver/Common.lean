/-! Line-protocol plumbing shared by all model drivers. Core-only. -/
namespace Driver

def toks (line : String) : List String :=
  (line.trimAscii.toString.splitOn " ").filter (· ≠ "")

def nat? (s : String) : Option Nat := s.toNat?

def bool? (s : String) : Option Bool :=
  if s = "1" then some true else if s = "0" then some false else none

def optNat? (s : String) : Option (Option Nat) :=
  if s = "-" then some none else (s.toNat?).map some

def showOptNat : Option Nat → String
  | none => "-"
  | some n => toString n

def joinWith (sep : String) (xs : List String) : String := sep.intercalate xs

/-- hex string of bytes → list of chars (latin-1 view); used for string-level models -/
def hexVal (c : Char) : Option Nat :=
  if '0' ≤ c ∧ c ≤ '9' then some (c.toNat - '0'.toNat)
  else if 'a' ≤ c ∧ c ≤ 'f' then some (c.toNat - 'a'.toNat + 10)
  else none

partial def unhexAux : List Char → List Char → Option (List Char)
  | [], acc => some acc.reverse
  | a :: b :: rest, acc =>
    match hexVal a, hexVal b with
    | some x, some y => unhexAux rest (Char.ofNat (x * 16 + y) :: acc)
    | _, _ => none
  | _, _ => none

/-- `-` denotes the empty string -/
def unhex (s : String) : Option (List Char) :=
  if s = "-" then some [] else unhexAux s.toList []

def hexDigit (n : Nat) : Char :=
  if n < 10 then Char.ofNat ('0'.toNat + n) else Char.ofNat ('a'.toNat + n - 10)

def hex (cs : List Char) : String :=
  if cs.isEmpty then "-" else
  String.ofList (cs.flatMap (fun c => [hexDigit (c.toNat / 16 % 16), hexDigit (c.toNat % 16)]))

/-- generic read-eval-print loop over a step function -/
partial def loop {σ} (step : σ → List String → σ × String) (h : IO.FS.Stream) (out : IO.FS.Stream) (s : σ) : IO Unit := do
  let line ← h.getLine
  if line.isEmpty then return ()
  let t := toks line
  match t with
  | [] => out.putStrLn ""; out.flush; loop step h out s
  | "#" :: _ => out.putStrLn line.trimAscii.toString; out.flush; loop step h out s
  | _ =>
    let (s', o) := step s t
    out.putStrLn o
    out.flush
    loop step h out s'

end Driver
