import MementoModel.Lemmas.PartitionLemmas

/-!
# C17 — partitions round-trip key by key and merge as an overlay of their parents

Model: `Model/Partition.lean` (`InMemoryPartition` / `OnDiskPartition` objects with `_merge_parent` and
the recorded `_output_keys`, `PicklePartition` read back from the store, `PicklePartitionStrategy.store`
after fixes F7/F20). Values are abstract: a value and the content key of its blob are identified (C02/C07).

* `roundtrip`: what is read back has the same key set (with and without inherited keys) and the same value
  for every key, each key on its own (the read-back partition holds the index only).
* `overlay` / `chain_overlay`: the stored result is the parent's entries overlaid by the own ones, for chains of
  any length, whatever way each level obtained its parent (the object handed back by the computing call or
  served by the memory cache — `Part.mem` with recorded keys — or the partition read back from the store).
* `store_preserves_argument`: serialising does not change what the object handed back to the caller answers.
* `roundtrip_pickle`: a partition read back from the store and returned again is stored with exactly its entries.
-/
namespace Memento.Partition

/-- recorded indices are dictionaries and say what the object says -/
inductive Faithful : Part → Prop
  | pickle (ix : Index) : (ix.map (·.1)).Nodup → Faithful (.pickle ix)
  | root (own : KV) (rec : Option Index) :
      (∀ r, rec = some r → (r.map (·.1)).Nodup ∧ ∀ k, (ixGet r k).map (·.1) = kvGet own k) →
      Faithful (.mem own none rec)
  | child (own : KV) (p : Part) (rec : Option Index) : Faithful p →
      (∀ r, rec = some r → (r.map (·.1)).Nodup ∧ ∀ k, (ixGet r k).map (·.1) = (Part.mem own (some p) rec).get k) →
      Faithful (.mem own (some p) rec)

/-- a parent can be merged: it is a read-back partition or an object that has been serialised in this process -/
def Serialised : Option Part → Prop
  | none => True
  | some (.pickle _) => True
  | some (.mem _ _ (some _)) => True
  | some (.mem _ _ none) => False

def getOpt : Option Part → K → Option V
  | none, _ => none
  | some p, k => p.get k

theorem mem_get (own : KV) (parent : Option Part) (rec : Option Index) (k : K) :
    (Part.mem own parent rec).get k = (match kvGet own k with | some v => some v | none => getOpt parent k) := by
  cases parent with
  | none => simp only [Part.get, getOpt]; cases kvGet own k <;> rfl
  | some p => simp only [Part.get, getOpt]; cases kvGet own k <;> rfl

theorem parentIndex_spec {q : Option Part} (hs : Serialised q) (hf : ∀ p, q = some p → Faithful p) :
    ∃ pix, parentIndex q = some pix ∧ (pix.map (·.1)).Nodup ∧ ∀ k, (ixGet pix k).map (·.1) = getOpt q k := by
  cases q with
  | none => exact ⟨[], rfl, List.nodup_nil, fun k => rfl⟩
  | some p =>
    have hfp := hf p rfl
    cases hfp with
    | pickle ix hn => exact ⟨ix, rfl, hn, fun k => rfl⟩
    | root own rec h =>
      cases rec with
      | none => exact absurd hs (by simp [Serialised])
      | some r =>
        obtain ⟨hn, hg⟩ := h r rfl
        exact ⟨r, rfl, hn, fun k => by rw [hg k]; simp [getOpt, Part.get]⟩
    | child own p' rec hp h =>
      cases rec with
      | none => exact absurd hs (by simp [Serialised])
      | some r =>
        obtain ⟨hn, hg⟩ := h r rfl
        exact ⟨r, rfl, hn, fun k => by rw [hg k]; rfl⟩

theorem ixGet_map_mark (pix : Index) (k : K) :
    ixGet (pix.map (fun e => (e.1, e.2.1, true))) k = (ixGet pix k).map (fun e => (e.1, true)) := by
  induction pix with
  | nil => rfl
  | cons e r ih =>
    obtain ⟨a, v, b⟩ := e
    simp only [List.map_cons, ixGet]
    by_cases h : a = k
    · simp [h]
    · simp only [h, if_false]; exact ih

/-- the index written for a partition object: own entries (not from the parent) over the parent's (from the parent) -/
theorem store_mem_index {own : KV} {parent : Option Part} {rec : Option Index} {pix : Index}
    (hp : parentIndex parent = some pix) :
    ∃ ix, store (.mem own parent rec) = some (ix, .mem own parent (some ix)) ∧
      ∀ k, ixGet ix k = (match kvGet own k with
                         | some v => some (v, false)
                         | none => (ixGet pix k).map (fun e => (e.1, true))) := by
  refine ⟨layer own (sortKeys (own.map (·.1))) (pix.map (fun e => (e.1, e.2.1, true))), by simp only [store, hp], ?_⟩
  intro k
  rw [layer_get, ixGet_map_mark]
  cases hk : kvGet own k with
  | some v =>
    have : k ∈ sortKeys (own.map (·.1)) := (mem_sortKeys _ _).mpr (kvGet_some_mem hk)
    simp [this]
  | none =>
    by_cases hm : k ∈ sortKeys (own.map (·.1)) <;> simp [hm]

theorem mem_listKeys_true : ∀ (p : Part) (k : K), k ∈ p.listKeys true ↔ (p.get k).isSome
  | .pickle ix, k => by
    simp only [Part.listKeys, if_true, mem_sortKeys, Part.get, Option.isSome_map]
    constructor
    · intro h; obtain ⟨e, he⟩ := ixGet_of_mem h; simp [he]
    · intro h
      cases he : ixGet ix k with
      | none => simp [he] at h
      | some e => exact ixGet_some_mem he
  | .mem own none rec, k => by
    simp only [Part.listKeys, mem_sortKeys, Part.get]
    constructor
    · intro h; obtain ⟨v, hv⟩ := kvGet_of_mem h; simp [hv]
    · intro h
      cases hv : kvGet own k with
      | none => simp [hv] at h
      | some v => exact kvGet_some_mem hv
  | .mem own (some q) rec, k => by
    have ih := mem_listKeys_true q k
    simp only [Part.listKeys, if_true, mem_sortKeys, List.mem_append, Part.get, ih]
    cases hv : kvGet own k with
    | none =>
      simp only
      constructor
      · rintro (h | h)
        · exact h
        · obtain ⟨v, hv'⟩ := kvGet_of_mem h; rw [hv] at hv'; cases hv'
      · exact Or.inl
    | some v => simp [kvGet_some_mem hv]

theorem mem_iff_ixGet {ix : Index} (hn : (ix.map (·.1)).Nodup) (k : K) (e : V × Bool) :
    (k, e) ∈ ix ↔ ixGet ix k = some e := by
  induction ix with
  | nil => simp [ixGet]
  | cons x r ih =>
    obtain ⟨a, y⟩ := x
    simp only [List.map_cons, List.nodup_cons] at hn
    simp only [List.mem_cons, Prod.mk.injEq, ixGet]
    by_cases h : a = k
    · subst h
      simp only [true_and, if_true, Option.some.injEq]
      constructor
      · rintro (⟨rfl⟩ | h')
        · rfl
        · exact absurd (List.mem_map.mpr ⟨(a, e), h', rfl⟩) hn.1
      · intro h'; exact Or.inl h'.symm
    · simp only [h, if_false]
      rw [← ih hn.2]
      constructor
      · rintro (⟨h', _⟩ | h')
        · exact absurd h'.symm h
        · exact h'
      · exact Or.inr

theorem mem_ownKeys {ix : Index} (hn : (ix.map (·.1)).Nodup) (k : K) :
    k ∈ (ix.filter (fun e => !e.2.2)).map (·.1) ↔ ∃ v, ixGet ix k = some (v, false) := by
  simp only [List.mem_map, List.mem_filter, Bool.not_eq_true']
  constructor
  · rintro ⟨⟨a, v, b⟩, ⟨hm, hb⟩, rfl⟩
    simp only at hb; subst hb
    exact ⟨v, (mem_iff_ixGet hn _ _).mp hm⟩
  · rintro ⟨v, hv⟩
    exact ⟨(k, v, false), ⟨(mem_iff_ixGet hn _ _).mpr hv, rfl⟩, rfl⟩

/-- **round trip** of a partition object (`InMemoryPartition` / `OnDiskPartition`) whose parent, if any, can be merged -/
theorem roundtrip_mem (own : KV) (parent : Option Part) (rec : Option Index)
    (hs : Serialised parent) (hf : ∀ p, parent = some p → Faithful p) :
    ∃ ix, store (.mem own parent rec) = some (ix, .mem own parent (some ix)) ∧
      (ix.map (·.1)).Nodup ∧
      (∀ k, (load ix).get k = (Part.mem own parent rec).get k) ∧
      (load ix).listKeys true = (Part.mem own parent rec).listKeys true ∧
      (load ix).listKeys false = (Part.mem own parent rec).listKeys false := by
  obtain ⟨pix, hp, hn, hg⟩ := parentIndex_spec hs hf
  obtain ⟨ix, hst, hix⟩ := store_mem_index (own := own) (rec := rec) hp
  have hnd : (ix.map (·.1)).Nodup := by
    have : store (.mem own parent rec) = some (layer own (sortKeys (own.map (·.1))) (pix.map (fun e => (e.1, e.2.1, true))),
        .mem own parent (some (layer own (sortKeys (own.map (·.1))) (pix.map (fun e => (e.1, e.2.1, true)))))) := by
      simp only [store, hp]
    rw [hst] at this
    simp only [Option.some.injEq, Prod.mk.injEq] at this
    rw [this.1]
    apply layer_nodup
    rw [List.map_map]
    exact hn
  have hget : ∀ k, (load ix).get k = (Part.mem own parent rec).get k := by
    intro k
    rw [mem_get]
    simp only [load, Part.get, hix k]
    cases kvGet own k with
    | some v => rfl
    | none =>
      simp only [Option.map_map]
      rw [← hg k]
      cases ixGet pix k <;> rfl
  refine ⟨ix, hst, hnd, hget, ?_, ?_⟩
  · apply sorted_ext
    · simp only [load, Part.listKeys, if_true]; exact sortKeys_sorted _
    · cases parent <;> simp only [Part.listKeys, if_true] <;> exact sortKeys_sorted _
    · intro k; rw [mem_listKeys_true, mem_listKeys_true, hget k]
  · have : (Part.mem own parent rec).listKeys false = sortKeys (own.map (·.1)) := by
      cases parent <;> simp [Part.listKeys]
    rw [this]
    simp only [load, Part.listKeys, Bool.false_eq_true, if_false]
    apply sortKeys_congr
    intro k
    rw [mem_ownKeys hnd]
    constructor
    · rintro ⟨v, hv⟩
      rw [hix k] at hv
      cases hk : kvGet own k with
      | some w => exact kvGet_some_mem hk
      | none => rw [hk] at hv; cases h : ixGet pix k <;> simp [h] at hv
    · intro hk
      obtain ⟨v, hv⟩ := kvGet_of_mem hk
      exact ⟨v, by rw [hix k, hv]⟩

/-- serialising does not change what the object handed back to the caller answers, and afterwards the object can
    itself serve as a parent -/
theorem store_preserves_argument (own : KV) (parent : Option Part) (rec : Option Index)
    (hs : Serialised parent) (hf : ∀ p, parent = some p → Faithful p) :
    ∃ ix, store (.mem own parent rec) = some (ix, .mem own parent (some ix)) ∧
      (∀ k, (Part.mem own parent (some ix)).get k = (Part.mem own parent rec).get k) ∧
      (∀ b, (Part.mem own parent (some ix)).listKeys b = (Part.mem own parent rec).listKeys b) ∧
      Faithful (.mem own parent (some ix)) ∧ Serialised (some (.mem own parent (some ix))) ∧ Faithful (load ix) := by
  obtain ⟨ix, hst, hnd, hget, _, _⟩ := roundtrip_mem own parent rec hs hf
  refine ⟨ix, hst, fun k => by rw [mem_get, mem_get], ?_, ?_, trivial, Faithful.pickle ix hnd⟩
  · intro b; cases parent <;> simp [Part.listKeys]
  · have hspec : ∀ r, some ix = some r → (r.map (·.1)).Nodup ∧ ∀ k, (ixGet r k).map (·.1) = (Part.mem own parent (some ix)).get k := by
      intro r hr
      cases hr
      refine ⟨hnd, fun k => ?_⟩
      have := hget k
      simp only [load, Part.get] at this
      rw [mem_get] at this ⊢
      exact this
    cases parent with
    | none =>
      refine Faithful.root own (some ix) ?_
      intro r hr
      obtain ⟨h1, h2⟩ := hspec r hr
      exact ⟨h1, fun k => by rw [h2 k]; simp [Part.get]⟩
    | some p => exact Faithful.child own p (some ix) (hf p rfl) hspec

/-- **overlay**: the stored result answers with the own entry where there is one and with the parent's otherwise -/
theorem overlay (own : KV) (parent : Option Part) (rec : Option Index)
    (hs : Serialised parent) (hf : ∀ p, parent = some p → Faithful p) :
    ∃ ix p', store (.mem own parent rec) = some (ix, p') ∧
      ∀ k, (load ix).get k = (match kvGet own k with | some v => some v | none => getOpt parent k) := by
  obtain ⟨ix, hst, _, hget, _, _⟩ := roundtrip_mem own parent rec hs hf
  exact ⟨ix, _, hst, fun k => by rw [hget k, mem_get]⟩

/-! ### a read-back partition that is returned again (fix F20) -/

theorem ixGet_filter {ix : Index} (hn : (ix.map (·.1)).Nodup) (p : V × Bool → Bool) (k : K) :
    ixGet (ix.filter (fun e => p e.2)) k = (ixGet ix k).filter p := by
  induction ix with
  | nil => rfl
  | cons x r ih =>
    obtain ⟨a, y⟩ := x
    simp only [List.map_cons, List.nodup_cons] at hn
    by_cases hak : a = k
    · subst hak
      have hnone : ixGet r a = none := by
        cases h : ixGet r a with
        | none => rfl
        | some e => exact absurd (ixGet_some_mem h) hn.1
      by_cases hp : p y = true
      · simp [List.filter_cons, hp, ixGet, Option.filter]
      · have hp' : p y = false := by simpa using hp
        simp only [List.filter_cons, hp', ixGet, if_true, Bool.false_eq_true, if_false]
        rw [ih hn.2, hnone]; simp [Option.filter, hp']
    · by_cases hp : p y = true
      · simp only [List.filter_cons, hp, if_true, ixGet, hak, if_false]; exact ih hn.2
      · have hp' : p y = false := by simpa using hp
        simp only [List.filter_cons, hp', Bool.false_eq_true, if_false, ixGet, hak]; exact ih hn.2

theorem kvGet_map_ix (ix : Index) (k : K) :
    kvGet (ix.map (fun e => (e.1, e.2.1))) k = (ixGet ix k).map (·.1) := by
  induction ix with
  | nil => rfl
  | cons x r ih =>
    obtain ⟨a, v, b⟩ := x
    simp only [List.map_cons, kvGet, ixGet]
    by_cases h : a = k
    · simp [h]
    · simp only [h, if_false]; exact ih

/-- the index written when a read-back partition is stored again -/
def repickled (ix : Index) : Index :=
  layer ((ix.filter (fun e => !e.2.2)).map (fun e => (e.1, e.2.1)))
    (sortKeys (((ix.filter (fun e => !e.2.2)).map (fun e => (e.1, e.2.1))).map (·.1))) (ix.filter (fun e => e.2.2))

theorem store_pickle (ix : Index) : store (.pickle ix) = some (repickled ix, .pickle ix) := rfl

theorem repickled_get {ix : Index} (hn : (ix.map (·.1)).Nodup) (k : K) : ixGet (repickled ix) k = ixGet ix k := by
  unfold repickled
  rw [layer_get, kvGet_map_ix, ixGet_filter hn (fun e => !e.2), ixGet_filter hn (fun e => e.2)]
  cases h : ixGet ix k with
  | none => simp [Option.filter]
  | some e =>
    obtain ⟨v, b⟩ := e
    cases b with
    | false =>
      have hm : k ∈ sortKeys (((ix.filter (fun e => !e.2.2)).map (fun e => (e.1, e.2.1))).map (·.1)) := by
        rw [mem_sortKeys]
        apply kvGet_some_mem (v := v)
        rw [kvGet_map_ix, ixGet_filter hn (fun e => !e.2), h]; simp [Option.filter]
      simp only [hm, if_true]
      simp [Option.filter]
    | true => simp [Option.filter]

theorem repickled_nodup {ix : Index} (hn : (ix.map (·.1)).Nodup) : ((repickled ix).map (·.1)).Nodup := by
  unfold repickled
  apply layer_nodup
  exact (List.filter_sublist.map _).nodup hn

/-- **round trip of a read-back partition returned again**: what is stored has exactly the entries of the index it was
    read from (inherited keys included), flags preserved -/
theorem roundtrip_pickle (ix : Index) (hn : (ix.map (·.1)).Nodup) :
    ∃ ix', store (.pickle ix) = some (ix', .pickle ix) ∧ (ix'.map (·.1)).Nodup ∧ (∀ k, ixGet ix' k = ixGet ix k) ∧
      (∀ k, (load ix').get k = (Part.pickle ix).get k) ∧
      (∀ b, (load ix').listKeys b = (Part.pickle ix).listKeys b) := by
  have hget := repickled_get hn
  have hnd := repickled_nodup hn
  refine ⟨repickled ix, store_pickle ix, hnd, hget, ?_, ?_⟩
  · intro k
    simp only [load, Part.get, hget k]
  · intro b
    cases b with
    | true =>
      simp only [load, Part.listKeys, if_true]
      apply sortKeys_congr
      intro k
      constructor
      · intro hk; obtain ⟨e, he⟩ := ixGet_of_mem hk; rw [hget k] at he; exact ixGet_some_mem he
      · intro hk; obtain ⟨e, he⟩ := ixGet_of_mem hk; rw [← hget k] at he; exact ixGet_some_mem he
    | false =>
      simp only [load, Part.listKeys, Bool.false_eq_true, if_false]
      apply sortKeys_congr
      intro k
      rw [mem_ownKeys hnd, mem_ownKeys hn]
      simp only [hget k]

/-! ### chains of any length, any provenance of the parent at each level -/

/-- overlay of a list of dictionaries, later ones win -/
def overlayAll : List KV → K → Option V
  | [], _ => none
  | own :: rest, k =>
    match overlayAll rest k with
    | some v => some v
    | none => kvGet own k

/-- run a chain of memento functions, each returning a partition whose parent is the previous level's result.
    The flag says how the next level obtains that result: `true` = the partition read back from the store,
    `false` = the object the computing call handed back (also what the memory cache serves). `none` = some
    level could not be stored. -/
def runChain : List (KV × Bool) → Option Part → Option (Option Part)
  | [], q => some q
  | (own, fromStore) :: rest, q =>
    match store (.mem own q none) with
    | none => none
    | some (ix, p') => runChain rest (some (if fromStore then load ix else p'))

/-- the dictionaries of a chain, innermost (first computed) first -/
def chainOwns (c : List (KV × Bool)) : List KV := c.map (·.1)

theorem chain_overlay_aux : ∀ (c : List (KV × Bool)) (q : Option Part) (done : K → Option V),
    Serialised q → (∀ p, q = some p → Faithful p) → (∀ k, getOpt q k = done k) →
    ∃ r, runChain c q = some r ∧ Serialised r ∧ (∀ p, r = some p → Faithful p) ∧
      ∀ k, getOpt r k = (match overlayAll (chainOwns c) k with | some v => some v | none => done k) := by
  intro c
  induction c with
  | nil => intro q done hs hf hd; exact ⟨q, rfl, hs, hf, fun k => by simp [chainOwns, overlayAll, hd k]⟩
  | cons lv rest ih =>
    intro q done hs hf hd
    obtain ⟨own, fromStore⟩ := lv
    obtain ⟨ix, hst, hget', hlk, hfa, hse, hfl⟩ := store_preserves_argument own q none hs hf
    obtain ⟨_, _, hnd, hget, _, _⟩ := roundtrip_mem own q none hs hf
    have hsteq : store (.mem own q none) = some (ix, .mem own q (some ix)) := hst
    let nxt : Part := if fromStore then load ix else .mem own q (some ix)
    have hnget : ∀ k, getOpt (some nxt) k = (match kvGet own k with | some v => some v | none => done k) := by
      intro k
      have h1 : (Part.mem own q none).get k = (match kvGet own k with | some v => some v | none => done k) := by
        rw [mem_get]; cases kvGet own k <;> simp [hd k]
      simp only [getOpt, nxt]
      cases fromStore with
      | true =>
        simp only [if_true]
        obtain ⟨ix2, hst2, _, hget2, _, _⟩ := roundtrip_mem own q none hs hf
        rw [hst] at hst2
        simp only [Option.some.injEq, Prod.mk.injEq] at hst2
        rw [← hst2.1] at hget2
        rw [hget2 k, h1]
      | false =>
        simp only [Bool.false_eq_true, if_false]
        rw [hget' k, h1]
    have hns : Serialised (some nxt) := by
      simp only [nxt]; cases fromStore <;> simp [Serialised, load]
    have hnf : ∀ p, some nxt = some p → Faithful p := by
      intro p hp
      cases hp
      simp only [nxt]
      cases fromStore
      · simpa using hfa
      · simpa using hfl
    obtain ⟨r, hr, hrs, hrf, hrg⟩ := ih (some nxt) (fun k => match kvGet own k with | some v => some v | none => done k) hns hnf hnget
    refine ⟨r, ?_, hrs, hrf, ?_⟩
    · simp only [runChain, hsteq]; exact hr
    · intro k
      rw [hrg k]
      simp only [chainOwns, List.map_cons, overlayAll]
      cases overlayAll (List.map (fun x => x.1) rest) k with
      | some v => rfl
      | none => rfl

/-- **chains of any length**: every level is stored (nothing is silently left un-memoized), and the final result is the
    overlay of all levels, later levels winning — whichever way each level obtained its parent -/
theorem chain_overlay (c : List (KV × Bool)) :
    ∃ r, runChain c none = some r ∧ ∀ k, getOpt r k = overlayAll (chainOwns c) k := by
  obtain ⟨r, hr, _, _, hg⟩ := chain_overlay_aux c none (fun _ => none) trivial (fun p hp => by cases hp) (fun k => rfl)
  refine ⟨r, hr, fun k => ?_⟩
  rw [hg k]
  cases overlayAll (chainOwns c) k <;> rfl

/-- a parent that was never serialised cannot be merged: the store fails (the runner then does not memoize the
    result) — this is the situation the attribute mix-up of F7 created for every in-memory parent -/
theorem unserialised_parent_fails (own own' : KV) (gp : Option Part) :
    store (.mem own (some (.mem own' gp none)) none) = none := by
  simp [store, parentIndex]

/-! ### non-vacuity: a three-level chain with overlapping keys, mixed provenance -/
example : ∃ r, runChain [([(1, 10), (2, 20)], false), ([(2, 21), (3, 30)], true), ([(3, 31), (4, 40)], false)] none = some (some r) ∧
    r.get 1 = some 10 ∧ r.get 2 = some 21 ∧ r.get 3 = some 31 ∧ r.get 4 = some 40 ∧ r.get 5 = none ∧
    r.listKeys true = [1, 2, 3, 4] ∧ r.listKeys false = [3, 4] := by
  refine ⟨_, rfl, ?_⟩
  decide

/-! ### where a partition says its entries live (fix F29)

`PicklePartitionStrategy.store` records on an in-memory / on-disk partition object the index it wrote **and the data source it wrote
it to** (`_output_keys`, `_parent_data_source`); a later merge copies the parent's entries into the child's index as references into
that data source. Assigning a partition to a key of an `OnDiskPartition` also runs `store`, against that partition's temporary
staging area. The record below adds the data source to `recorded`; `recordAfter` is the last statement of `store` (with the fix:
a staging area never replaces the record; `recordAfterUnfixed` is the code before F29). -/

inductive Area
  | cluster            -- the data source of the cluster's storage backend
  | staging (n : Nat)  -- the temporary directory of the n-th `OnDiskPartition`
deriving DecidableEq, Repr

abbrev Where := Option (Area × Index)

def recordAfter (ds : Area) (ix : Index) (r : Where) : Where :=
  match ds with
  | .staging _ => r
  | .cluster => some (.cluster, ix)

def recordAfterUnfixed (ds : Area) (ix : Index) (_ : Where) : Where := some (ds, ix)

/-- the record after any sequence of writes of the object (to the cluster's store, to staging areas, in any order) -/
def recordAfterAll (r : Where) : List (Area × Index) → Where
  | [] => r
  | (ds, ix) :: rest => recordAfterAll (recordAfter ds ix r) rest

/-- a record never points into a staging area, whatever the object was assigned to and however often -/
theorem record_never_in_staging (ws : List (Area × Index)) (r : Where)
    (hr : ∀ a ix, r = some (a, ix) → a = .cluster) :
    ∀ a ix, recordAfterAll r ws = some (a, ix) → a = .cluster := by
  induction ws generalizing r with
  | nil => exact hr
  | cons w ws ih =>
    obtain ⟨ds, ix⟩ := w
    apply ih
    intro a ix' h
    cases ds with
    | staging n => exact hr a ix' h
    | cluster =>
      simp only [recordAfter, Option.some.injEq, Prod.mk.injEq] at h
      exact h.1.symm

/-- staging leaves the record exactly as it was: what a later merge copies is what the last write to the cluster's store recorded -/
theorem staging_keeps_record (n : Nat) (ix : Index) (r : Where) : recordAfter (.staging n) ix r = r := rfl

theorem cluster_write_records (ix : Index) (r : Where) : recordAfter .cluster ix r = some (.cluster, ix) := rfl

/-- before F29 the record followed the last write, wherever it went: memoized, then staged = pointing into the staging area -/
example : recordAfterUnfixed (.staging 0) [(1, 10, false)] (recordAfterUnfixed .cluster [(1, 10, false)] none) =
    some (.staging 0, [(1, 10, false)]) := rfl
example : recordAfterAll none [(.cluster, [(1, 10, false)]), (.staging 0, [(1, 10, false)]), (.staging 1, [])] =
    some (.cluster, [(1, 10, false)]) := rfl

end Memento.Partition
