import MementoModel.Lemmas.RunnerSim
import MementoModel.Lemmas.RunnerProgLemmas

/-!
# C10 — provenance is exact and independent of what was already memoized
-/
namespace Memento.Runner

/-- what `propagate_dependencies` does to the caller's record: the callee is appended to the
    invocations (in order, with repetitions), the callee's function and all its dependencies join the set -/
theorem propagate_spec (fr : Frame) (r : Rec) :
    (propagate fr r).invs = fr.invs ++ [r.key] ∧ (propagate fr r).res = fr.res ∧
    (∀ f, f ∈ (propagate fr r).deps ↔ f ∈ fr.deps ∨ f = r.key.fn ∨ f ∈ r.deps) :=
  ⟨rfl, rfl, propagate_deps fr r⟩

/-- **exact and store-independent**: from any sound store, the record stored for a computed call — and
    the record propagated to a caller, whether the call was computed, found before the run, found by
    the batch pre-check, or raised — is the record of the un-memoized execution: same direct
    invocations in order (with their argument identity and context), same resource handles, same
    dependency set -/
theorem provenance_exact (P : Prog) (hw : WellBehaved P) (hp : NoPrevent P) (n : Nat) (s s' : St) (hs : Sound P s)
    (fn : Fn) (args : List Val) (ctx : CtxSpec) (fl : Flags) (hfl : fl.prevent = false)
    (res : Except Outcome (List Outcome)) (recs : List Rec)
    (h : run P n s none fn args ctx fl = some (s', res, recs)) :
    Sound P s' ∧ ∀ r ∈ recs, ∃ m r', pureRec P m r.key = some r' ∧ Rec.same r r' := by
  obtain ⟨hs', _, _, _, recs', _, _, hrecs⟩ := sim_top hw hp hs hfl h
  refine ⟨hs', fun r hr => ?_⟩
  obtain ⟨r', hsame, hpure⟩ := hrecs.mem r hr
  obtain ⟨m, hm⟩ := hpure.pureRec
  exact ⟨m, r', by rw [hsame.1]; exact hm, hsame⟩

/-- consequently two sound stores (any subsets of the sub-calls memoized beforehand) give the same record -/
theorem provenance_store_independent (P : Prog) (hw : WellBehaved P) (hp : NoPrevent P) (n : Nat)
    (s1 s2 s1' s2' : St) (h1 : Sound P s1) (h2 : Sound P s2) (fn : Fn) (arg : Val) (ctx : CtxSpec)
    (o1 o2 : Except Outcome (List Outcome)) (r1 r2 : Rec)
    (e1 : run P n s1 none fn [arg] ctx {} = some (s1', o1, [r1]))
    (e2 : run P n s2 none fn [arg] ctx {} = some (s2', o2, [r2])) :
    Rec.same r1 r2 := by
  obtain ⟨_, hx1⟩ := provenance_exact P hw hp n s1 s1' h1 fn [arg] ctx {} rfl o1 [r1] e1
  obtain ⟨_, hx2⟩ := provenance_exact P hw hp n s2 s2' h2 fn [arg] ctx {} rfl o2 [r2] e2
  obtain ⟨m1, r1', p1, q1⟩ := hx1 r1 (List.mem_singleton.2 rfl)
  obtain ⟨m2, r2', p2, q2⟩ := hx2 r2 (List.mem_singleton.2 rfl)
  rw [run_single_top_key h1.keyed e1] at p1
  rw [run_single_top_key h2.keyed e2] at p2
  have : r1' = r2' := pureRec_det P p1 p2
  subst this
  exact Rec.same_trans q1 (Rec.same_symm q2)

/-- a resource handle obtained by the body is recorded on the body's own record, in order -/
theorem resource_recorded (callee) (h : Nat) (k : Body) (s : St) (fr : Frame) :
    execBody callee (.resource h k) s fr = execBody callee k s { fr with res := fr.res ++ [h] } := by
  simp only [execBody]

/-! non-vacuity -/
private def demoDefs : List (Fn × FnDef) :=
  [(1, ⟨[], 2, 1, clsRebuildable, 5, 10, false⟩),
   (2, ⟨[.call 1 0 .inherit {} true (0, 0), .batch 1 [1, 0] (.set 3) {} false (0, 0), .resource 7], 0, 0, 0, 0, 1, false⟩)]
private def demoP : Prog := progOf demoDefs [(2, 1)]
private def cold : St := { store := [], trace := [] }
private def warm : St := ((callTop demoP 5 cold 1 0 .inherit {}).map (·.1)).getD cold

example : (pureRec demoP 5 ⟨2, 0, 0⟩).map (fun r => (r.invs, r.res, r.deps)) =
    some ([⟨1, 0, 0⟩, ⟨1, 1, 3⟩, ⟨1, 0, 3⟩], [7], [2, 1]) := by decide
example : ((run demoP 5 warm none 2 [0] .inherit {}).map (fun x => x.2.2.map (fun r => (r.invs, r.res)))) =
    some [([⟨1, 0, 0⟩, ⟨1, 1, 3⟩, ⟨1, 0, 3⟩], [7])] := by decide
/-! the hypotheses of `provenance_exact` hold for it -/
example : WellBehaved demoP := wellBehaved_progOf _ _
example : NoPrevent demoP := noPrevent_progOf _ _ (by decide)
example : Sound demoP cold := Sound.empty _ _

end Memento.Runner
