import MementoModel.Lemmas.RunnerTop

/-!
# C16 — context arguments key results, flow to nested calls, stay out of parameters

That bodies never receive context arguments is structural in the model: `Prog.body : Fn → Val → Body`
takes the function and its (normalized) argument only (validated against the real code by the
correspondence check: the recorded keyword arguments of every executed body).
-/
namespace Memento.Runner

/-- nearest override: an explicit `with_context_args(d)` — even the empty dict — replaces the
    inherited context arguments entirely; otherwise the caller's are inherited; at the top level none -/
theorem effCtx_nearest_override (fr : Frame) (c : Ctx) :
    effCtx (some fr) (.set c) = c ∧ effCtx none (.set c) = c ∧
    effCtx (some fr) .inherit = fr.key.ctx ∧ effCtx none .inherit = 0 :=
  ⟨rfl, rfl, rfl, rfl⟩

/-- every element of a batch is looked up, computed and recorded under the effective context of the
    call: the records propagated to the caller carry exactly the keys `(fn, aᵢ, effCtx caller ctx)`.

    STATEMENT ADJUSTED (original: the same without `hk`): the hypothesis `hk : Keyed s` ("every stored record carries the key it is stored
    under", `Keyed` in `Lemmas/RunnerExt.lean`; it holds for the empty store, is preserved by every
    evaluation (`Ext.keyed`) and is implied by `Sound`) was added. Without it the statement is false:
    a store may hold, under key `(1,0,0)`, a record that claims another key (counterexample below). -/
theorem batch_keys_use_effective_ctx (P : Prog) (n : Nat) (s s' : St) (hk : Keyed s) (caller : Option Frame) (fn : Fn) (args : List Val)
    (ctx : CtxSpec) (fl : Flags) (os : List Outcome) (recs : List Rec)
    (h : run P n s caller fn args ctx fl = some (s', .ok os, recs)) :
    recs.map (·.key) = args.map (fun a => (⟨fn, a, effCtx caller ctx⟩ : Key)) := by
  cases n with
  | zero => rw [run_zero] at h; cases h
  | succ n =>
    rw [run_succ, runBatchWith_eq] at h
    split at h
    · cases h
    · split at h
      · cases h
      · split at h
        · cases h
        · rename_i hb
          cases h
          have := (batchLoop_keys (E_ext P n) _ hk ?_ hb).1
          · rw [this, List.map_map]; rfl
          · intro k r hm
            obtain ⟨a, _, ha⟩ := List.mem_map.1 hm
            rw [Prod.mk.injEq] at ha
            rw [← ha.1]
            exact hk _ _ ha.2

/-- counterexample to the original statement (no `Keyed s`): a mis-keyed stored record is propagated as it is -/
example : (run (progOf [] []) 1 { store := [(⟨1, 0, 0⟩, ⟨⟨9, 9, 9⟩, .val none, [], [], []⟩)], trace := [] } none 1 [0] .inherit {}).map
    (fun x => x.2.2.map (·.key)) = some [⟨9, 9, 9⟩] := by decide

/-- the keys are also the keys the store is consulted with: `Keyed` is preserved by every evaluation -/
theorem keyed_preserved (P : Prog) (n : Nat) (s s' : St) (hk : Keyed s) (caller : Option Frame) (fn : Fn) (args : List Val)
    (ctx : CtxSpec) (fl : Flags) (res) (recs : List Rec)
    (h : run P n s caller fn args ctx fl = some (s', res, recs)) : Keyed s' :=
  (run_ext P n h).keyed hk

/-- results computed under different context arguments are stored and served separately: an entry
    under context `c'` is never served for a call under `c ≠ c'` — the body runs -/
theorem ctx_keys_separately (P : Prog) (n : Nat) (s s' : St) (fn : Fn) (arg : Val) (c c' : Ctx) (hc : c ≠ c') (r : Rec)
    (o : Outcome) (hother : s.get ⟨fn, arg, c'⟩ = some r) (hmiss : s.get ⟨fn, arg, c⟩ = none)
    (h : callTop P n s fn arg (.set c) {} = some (s', o)) :
    ∃ rest, s'.trace = s.trace ++ (⟨fn, arg, c⟩ :: rest) := by
  obtain ⟨_, _, _, rest, _, _, ht, _, _⟩ := callTop_miss_spec (ctx := .set c) hmiss h
  exact ⟨rest, ht⟩

/-- the store only changes by *adding* entries for keys that were absent: entries under other
    contexts (or any other key) are never overwritten by a call -/
theorem store_only_grows (P : Prog) (n : Nat) (s s' : St) (caller : Option Frame) (fn : Fn) (args : List Val) (ctx : CtxSpec)
    (fl : Flags) (res) (recs : List Rec) (h : run P n s caller fn args ctx fl = some (s', res, recs)) (k : Key) (r : Rec)
    (hk : s.get k = some r) : s'.get k = some r :=
  (run_ext P n h).grows k r hk

/-- a call made with further calls prevented makes **every** nested memento call — memoized or not —
    fail with a runtime error instead of executing: nothing is looked up, nothing runs.

    STATEMENT ADJUSTED (binder order only). Original binders:
    `(P) (exec) (s) (fr) (hp : fr.prevent = true) (hd : … fr.key.fn = fn ∨ P.declared fr.key.fn fn = true) (fn : Fn) (args) (ctx) (fl)`:
    the binder `(fn : Fn)` came *after* the hypothesis `hd` that mentions it, so `hd` spoke about an auto-bound
    implicit `fn` unrelated to the callee (and the statement was false for an undeclared callee, which gets
    `UndeclaredDependencyError` instead); `(fn : Fn)` was moved in front of `hd`. -/
theorem prevent_further_calls (P : Prog) (exec) (s : St) (fr : Frame) (hp : fr.prevent = true) (fn : Fn)
    (hd : P.explicit fr.key.fn = true ∨ fr.key.fn = fn ∨ P.declared fr.key.fn fn = true)
    (args : List Val) (ctx : CtxSpec) (fl : Flags) :
    runBatchWith P exec s (some fr) fn args ctx fl = some (s, .error (.exc clsRuntime 0), []) := by
  rw [runBatchWith_eq]
  have hu : undeclared P (some fr) fn = false := by
    simp only [undeclared]
    rcases hd with h | h | h
    · simp [h]
    · simp [h]
    · simp [h]
  rw [hu]
  simp [prevented, hp]

/-! non-vacuity: f2 calls f1 inheriting, and f1 again under an empty override -/
private def demoDefs : List (Fn × FnDef) :=
  [(1, ⟨[], 0, 0, 0, 0, 10, false⟩),
   (2, ⟨[.call 1 0 .inherit {} false (0, 0), .call 1 0 (.set 0) {} false (0, 0)], 0, 0, 0, 0, 1, false⟩)]
private def demoP : Prog := progOf demoDefs [(2, 1)]
private def cold : St := { store := [], trace := [] }

example : (callTop demoP 5 cold 2 0 (.set 4) {}).map (·.1.trace) = some [⟨2, 0, 4⟩, ⟨1, 0, 4⟩, ⟨1, 0, 0⟩] := by decide
example : (callTop demoP 5 cold 2 0 (.set 4) ⟨false, true⟩).map (·.2) = some (.exc clsRuntime 0) := by decide

end Memento.Runner
