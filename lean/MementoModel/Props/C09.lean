import MementoModel.Lemmas.ConcLemmas

/-!
# C09 — concurrent callers: single flight per call, correct values, under every schedule

Model: `Model/Conc.lean` — the transition system whose events are the shared-state access points of
`batch_run` / `memento_run_local` (pre-check outside the per-call mutex, acquire, lookup inside the mutex,
execute, memoize, release) and the methods of the memory cache (atomic since fix F9). A *schedule* is any
interleaving of these events that the system accepts: `run (init memo0 budget) trace = some s`. All
statements below are for **every** accepted trace: any number of threads and keys, equal or different
arguments, any initial store (`memo0`: cold or warm), any cache budget and cache operations anywhere.

Partial, stated as such: threads call leaf functions (nested calls under concurrency are not in the
transition system: the per-call mutex of a nested call is taken in call-stack order on a different key);
values are not in the model — a call that is served is served from the memoized entry of its key, whose
value is the body's by C02. Trusted: CPython threads interleave at the granularity of these events
(`threading.RLock` gives mutual exclusion; a cache method under its lock is atomic).
-/
namespace Memento.Conc

/-- **single flight**: under every schedule the body of a call runs at most once; never if the call was memoized
    beforehand; exactly once if it was not and is memoized afterwards -/
theorem single_flight (memo0 : K → Bool) (b : Nat) (trace : List Ev) (s : St)
    (h : run (init memo0 b) trace = some s) (k : K) :
    s.execs k ≤ 1 ∧ (memo0 k = true → s.execs k = 0) ∧ (memo0 k = false → s.memo k = true → s.execs k = 1) := by
  have hi := run_inv memo0 trace _ s (inv_init memo0 b) h
  exact ⟨hi.exec_le k, hi.exec_init k, hi.exec_st k⟩

/-- every call that has returned to its caller is memoized, and its body ran exactly once in total (not at all if it was
    memoized beforehand) — whatever the other threads did meanwhile -/
theorem completed_call_ran_once (memo0 : K → Bool) (b : Nat) (trace : List Ev) (s : St)
    (h : run (init memo0 b) trace = some s) (k : K) (hc : s.completed k = true) :
    s.memo k = true ∧ s.execs k = (if memo0 k then 0 else 1) := by
  have hi := run_inv memo0 trace _ s (inv_init memo0 b) h
  have hm := hi.compl k hc
  refine ⟨hm, ?_⟩
  cases h0 : memo0 k with
  | true => simp [hi.exec_init k h0]
  | false => simp [hi.exec_st k h0 hm]

/-- nothing memoized is ever lost, and a memoized call never executes again -/
theorem memoized_stays (memo0 : K → Bool) (b : Nat) (trace : List Ev) (s : St)
    (h : run (init memo0 b) trace = some s) (k : K) (h0 : memo0 k = true) : s.memo k = true ∧ s.execs k = 0 := by
  have hi := run_inv memo0 trace _ s (inv_init memo0 b) h
  exact ⟨hi.mono k h0, hi.exec_init k h0⟩

/-- mutual exclusion of the per-call mutex: two threads between acquire and release for the same call are one thread -/
theorem mutual_exclusion (memo0 : K → Bool) (b : Nat) (trace : List Ev) (s : St)
    (h : run (init memo0 b) trace = some s) (t t' : Tid)
    (ht : inCrit (s.pc t) = true) (ht' : inCrit (s.pc t') = true) (hk : s.key t = s.key t') : t = t' := by
  have hi := run_inv memo0 trace _ s (inv_init memo0 b) h
  have h1 := hi.holds t ht
  have h2 := hi.holds t' ht'
  rw [hk] at h1
  rw [h1] at h2
  exact Option.some.inj h2

/-- a body runs only while no result exists for its call: at the moment a thread has executed, the call is not memoized
    and this is the only execution -/
theorem executes_only_unmemoized (memo0 : K → Bool) (b : Nat) (trace : List Ev) (s : St)
    (h : run (init memo0 b) trace = some s) (t : Tid) (ht : s.pc t = .executed) :
    s.memo (s.key t) = false ∧ s.execs (s.key t) = 1 :=
  (run_inv memo0 trace _ s (inv_init memo0 b) h).comp t ht

/-- **the memory cache's accounting** after any interleaving of cache operations with everything else is what a
    sequential history leaves: the usage counter equals what the resident entries account for and stays within the
    budget (every reachable cache state satisfies the invariant of C06) -/
theorem cache_accounts_honest (memo0 : K → Bool) (b : Nat) (trace : List Ev) (s : St)
    (h : run (init memo0 b) trace = some s) :
    s.cache.usage = Cache.total s.cache.cache ∧ s.cache.usage ≤ s.cache.budget ∧ (Cache.keys s.cache.cache).Nodup ∧ s.cache.lru.Nodup := by
  have hi := (run_inv memo0 trace _ s (inv_init memo0 b) h).cache
  exact ⟨hi.usage_eq, hi.bounded, hi.keys_nodup, hi.lru_nodup⟩

/-- the cache state after a concurrent trace is the state after a *sequential* history of cache operations: the
    operations of the trace in the order they took effect -/
def cacheOps : List Ev → List Cache.Op
  | [] => []
  | .cacheOp _ op :: es => op :: cacheOps es
  | _ :: es => cacheOps es

theorem step_cache (s s' : St) (e : Ev) (h : step s e = some s') :
    s'.cache = (match e with | .cacheOp _ op => (Cache.step s.cache op).1 | _ => s.cache) := by
  cases e <;> simp only [step] at h <;> (try split at h) <;> (try cases h) <;> (try rfl)
  all_goals simp_all

theorem cache_sequential (trace : List Ev) : ∀ (s s' : St), run s trace = some s' →
    s'.cache = Cache.run s.cache (cacheOps trace) := by
  induction trace with
  | nil => intro s s' h; simp only [run, Option.some.injEq] at h; subst h; rfl
  | cons e es ih =>
    intro s s' h
    simp only [run] at h
    cases hst : step s e with
    | none => simp [hst] at h
    | some s1 =>
      simp only [hst] at h
      have hc := step_cache s s1 e hst
      rw [ih s1 s' h, hc]
      cases e <;> simp [cacheOps, Cache.run]

/-- **no deadlock**: while some call is in progress, some thread can take a step -/
theorem progress (memo0 : K → Bool) (b : Nat) (trace : List Ev) (s : St)
    (h : run (init memo0 b) trace = some s) (t : Tid) (ht : s.pc t ≠ .idle) :
    ∃ e, (match e with | .cacheOp _ _ => False | .start _ _ => False | _ => True) ∧ (step s e).isSome = true := by
  have hi := run_inv memo0 trace _ s (inv_init memo0 b) h
  have crit : ∀ u, inCrit (s.pc u) = true → ∃ e, (match e with | .cacheOp _ _ => False | .start _ _ => False | _ => True) ∧ (step s e).isSome = true := by
    intro u hu
    cases hp : s.pc u with
    | idle => simp [hp, inCrit] at hu
    | started => simp [hp, inCrit] at hu
    | wantLock => simp [hp, inCrit] at hu
    | locked => exact ⟨.lookup u (s.memo (s.key u)), trivial, by simp [step, hp]⟩
    | missed => exact ⟨.exec u, trivial, by simp [step, hp]⟩
    | executed => exact ⟨.memoize u, trivial, by simp [step, hp]⟩
    | stored => exact ⟨.rel u, trivial, by simp [step, hp]⟩
  cases hp : s.pc t with
  | idle => exact absurd hp ht
  | started => exact ⟨.pre t (s.memo (s.key t)), trivial, by simp [step, hp]⟩
  | wantLock =>
    cases hh : s.holder (s.key t) with
    | none => exact ⟨.acq t, trivial, by simp [step, hp, hh]⟩
    | some u => exact crit u (hi.held _ u hh).1
  | locked => exact crit t (by simp [hp, inCrit])
  | missed => exact crit t (by simp [hp, inCrit])
  | executed => exact crit t (by simp [hp, inCrit])
  | stored => exact crit t (by simp [hp, inCrit])

/-! ### why the cache's methods must be atomic (the situation before fix F9)

    `put` without a lock is (at least) two steps: make room for the entry (evict the key's old entry, pop
    least-recently-used entries), then insert it and add its size to the usage counter. If two threads putting the same
    memento-only entry both finish the first step before either does the second, the counter ends at twice what the one
    resident entry accounts for and the key sits twice in the recency queue: the invariant of C06 is lost. This is the
    schedule `[(0,8),(1,∞),(0,∞)]` found on the real class by `c09.py` family B. -/
def putRoom (s : Cache.State) (k : Cache.Key) (size : Nat) : Cache.State :=
  let s := Cache.evict s k
  Cache.makeRoom size s.lru.length s

def putInsert (s : Cache.State) (k : Cache.Key) (mem v size : Nat) (hasResult : Bool) : Cache.State :=
  let e : Cache.Entry := { size, mem, val := v, hasValue := hasResult }
  Cache.touchStamp { s with cache := s.cache ++ [(k, e)], lru := s.lru ++ [k], usage := s.usage + size } k

/-- the two halves, run back to back, are `putCore` -/
theorem putCore_eq_halves (s : Cache.State) (k : Cache.Key) (mem v size : Nat) (hr : Bool) :
    Cache.putCore s k mem v size hr = putInsert (putRoom s k size) k mem v size hr := rfl

/-- interleaved as room(A), room(B), insert(A), insert(B) the accounts are wrong -/
theorem unsynchronised_put_breaks_accounting :
    let k : Cache.Key := ⟨1, 1⟩
    let s0 := Cache.init 4096
    let s := putInsert (putInsert (putRoom (putRoom s0 k 16) k 16) k 1 0 16 false) k 2 0 16 false
    s.usage = 32 ∧ (Cache.lookup s.cache k).map (·.size) = some 16 ∧ s.lru = [k, k] ∧ ¬ s.lru.Nodup ∧
      ¬ (Cache.keys s.cache).Nodup := by
  decide

/-! ### non-vacuity: two threads race for the same call on a cold store (one executes, the other is served after waiting
    for the mutex), a third is served by the pre-check afterwards -/
def exTrace : List Ev :=
  [.start 1 7, .start 2 7, .pre 1 false, .pre 2 false, .acq 2, .lookup 2 false, .exec 2,
   .cacheOp 2 (.put ⟨7, 0⟩ 1 1 16 false false none), .memoize 2, .rel 2, .acq 1, .lookup 1 true, .rel 1,
   .start 3 7, .pre 3 true]

example : ∃ s, run (init (fun _ => false) 100) exTrace = some s ∧ s.execs 7 = 1 ∧ s.completed 7 = true ∧
    s.pc 1 = .idle ∧ s.pc 2 = .idle ∧ s.pc 3 = .idle := ⟨_, rfl, by decide⟩
/-- a second execution is not an accepted continuation -/
example : run (init (fun _ => false) 100) [.start 1 7, .pre 1 false, .acq 1, .lookup 1 false, .exec 1, .memoize 1, .rel 1,
    .start 2 7, .pre 2 false] = none := by decide

end Memento.Conc
