import MementoModel.Lemmas.CacheLemmas
import MementoModel.Lemmas.CacheRoom

/-!
# C06 — the memory cache is bounded, least-recently-used, and keeps honest accounts

Property theorems only. The model is `Model/Cache.lean` (a statement-by-statement transcription of
`MemoryCache`), the helper lemmas are in `Lemmas/CacheLemmas.lean`.
Every theorem is about *all* operation histories (`run (init b) ops`, `ops` an arbitrary list).
-/
namespace Memento.Cache

/-! ## The invariant holds in every reachable state -/

/-- **every reachable state satisfies the invariant** (any budget, any history, any length) -/
theorem inv_reachable (b : Nat) (ops : List Op) : Inv (run (init b) ops) := by
  suffices ∀ s, Inv s → Inv (run s ops) from this _ (inv_init b)
  induction ops with
  | nil => intro s h; exact h
  | cons op ops ih => intro s h; exact ih _ (inv_step op h)

/-! ## The property, clause by clause -/

/-- (1) "the memory attributed to resident entries never exceeds the configured budget" and
    (4) "the usage counter always equals what the resident entries account for". -/
theorem bounded_and_honest (b : Nat) (ops : List Op) :
    let s := run (init b) ops
    s.usage = total s.cache ∧ total s.cache ≤ b := by
  have h := inv_reachable b ops
  have hb : (run (init b) ops).budget = b := run_budget ops _
  exact ⟨h.usage_eq, by have := h.bounded; rw [h.usage_eq, hb] at this; exact this⟩

/-- (2) "a result larger than the budget is never resident": after `put` of an oversize result
    there is **no** resident entry for that call at all — neither the new value nor a stale older
    one — and in every reachable state every resident entry fits the budget. -/
theorem oversize_never_resident (s : State) (k : Key) (m v size : Nat) (w hr : Bool) (vc : Option Nat)
    (hbig : size > s.budget) : k ∉ keys (step s (.put k m v size w hr vc)).1.cache := by
  simp only [step, stepRaw, prune, put, putSized]
  have hb : (if hr then putRef s k v w else s).budget = s.budget := by
    split; exact putRef_budget _ _ _ _; rfl
  rw [if_pos (by rw [hb]; exact hbig)]
  exact evict_not_mem _ k

theorem resident_entries_fit (b : Nat) (ops : List Op) :
    ∀ p ∈ (run (init b) ops).cache, p.2.size ≤ b := by
  intro p hp
  have := (inv_reachable b ops).sizes p hp
  rwa [run_budget] at this

/-- (3) LRU: what `put` drops to make room is a **prefix** of the recency queue (after removing the
    key being written), i.e. exactly the `n` least recently written/read entries; every survivor
    was used strictly later than every dropped entry; survivors keep their entries untouched; and
    `n` is minimal: dropping fewer would not have made room. -/
theorem put_evicts_lru_prefix {s : State} (h : Inv s) (k : Key) (m v size : Nat) (hr : Bool)
    (hsz : size ≤ s.budget) :
    let q := s.lru.erase k                       -- recency queue without the written key
    let s' := putCore s k m v size hr
    ∃ n, s'.lru = q.drop n ++ [k]
      ∧ (∀ j, j ∈ keys s'.cache ↔ j = k ∨ j ∈ q.drop n)
      ∧ (∀ j ∈ q.drop n, lookup s'.cache j = lookup s.cache j)
      ∧ (∀ a ∈ q.take n, ∀ b ∈ q.drop n, s.stamp a < s.stamp b)
      ∧ (∀ n' < n, total ((evict s k).cache.filter (fun p => !((q.take n').contains p.1))) + size > s.budget) := by
  intro q s'
  have h1 := evict_inv k h
  obtain ⟨n, hl, hc, hmin⟩ := makeRoom_prefix_min size (evict s k).lru.length _ h1
  have hq : (evict s k).lru = q := evict_lru s k
  rw [hq] at hl hc hmin
  have h2 := makeRoom_inv size q.length _ h1
  have hknq : k ∉ q := fun hx => (h.lru_nodup.mem_erase_iff.mp hx).1 rfl
  refine ⟨n, ?_, ?_, ?_, ?_, ?_⟩
  · show (putCore s k m v size hr).lru = _
    simp only [putCore, touchStamp, hq, hl]
  · intro j
    show j ∈ keys (putCore s k m v size hr).cache ↔ _
    simp only [putCore, touchStamp, hq, keys, List.map_append, List.map_cons, List.map_nil,
      List.mem_append, List.mem_singleton]
    have := h2.lru_mem j
    rw [hl] at this
    simp only [keys] at this
    rw [← this]
    constructor
    · rintro (a | a); exact Or.inr a; exact Or.inl a
    · rintro (a | a); exact Or.inr a; exact Or.inl a
  · intro j hj
    show lookup (putCore s k m v size hr).cache j = _
    have hjq : j ∈ q := List.mem_of_mem_drop hj
    have hjk : j ≠ k := fun e => hknq (e ▸ hjq)
    simp only [putCore, touchStamp, hq, hc]
    rw [lookup_append_of_ne _ _ _ _ (fun e => hjk e.symm), evict_cache]
    have hnd : q.Nodup := h.lru_nodup.sublist List.erase_sublist
    have hjt : j ∉ q.take n := by
      intro hx
      have := List.nodup_append.mp (by rw [List.take_append_drop]; exact hnd : (q.take n ++ q.drop n).Nodup)
      exact this.2.2 j hx j hj rfl
    rw [lookup_filter_keep _ (fun x => !((q.take n).contains x)) j (by simpa using hjt), lookup_remove_of_ne _ _ _ hjk]
  · intro a ha b hb
    have hs : q.Pairwise (fun a b => s.stamp a < s.stamp b) := pairwise_erase k h.sorted
    rw [← List.take_append_drop n q] at hs
    exact (List.pairwise_append.mp hs).2.2 a ha b hb
  · intro n' hn'
    have := hmin n' hn'
    rwa [evict_budget] at this

/-- (3, cont.) a resident entry with a value is served from the cache itself (the backend never
    consults the store for it — see `FsBackend.read_hit_no_store_access` for the backend level), and
    reading marks it most recently used. -/
theorem resident_hit_served (s : State) (k : Key) (e : Entry) (h : lookup s.cache k = some e)
    (hv : e.hasValue = true) :
    (readResult s k).2 = .value e.val ∧ (readResult s k).1.lru = s.lru.erase k ++ [k] := by
  simp [readResult, h, hv, markUsed, touchStamp]

/-- (4) "… so it returns to zero once everything has been forgotten, by whatever sequence of
    forget operations": in **every** reachable state with no resident entry the counter is zero. -/
theorem usage_zero_when_nothing_resident (b : Nat) (ops : List Op)
    (hempty : (run (init b) ops).cache = []) : (run (init b) ops).usage = 0 := by
  rw [(inv_reachable b ops).usage_eq, hempty]; rfl

/-- forgetting each resident call one by one (in any order `ks` that covers them) empties the cache -/
theorem forget_all_calls_empties (s : State) (ks : List Key) (hcover : ∀ k ∈ keys s.cache, k ∈ ks) :
    (run s (ks.map Op.fcall)).cache = [] := by
  apply List.eq_nil_iff_forall_not_mem.mpr
  intro p hp
  have hk := run_fcall_removes ks s p.1 (hcover p.1 (List.mem_map.mpr ⟨p, run_fcall_sub ks s hp, rfl⟩))
  exact hk (List.mem_map.mpr ⟨p, hp, rfl⟩)

/-- forgetting each function that has a resident entry empties the cache -/
theorem forget_all_functions_empties (s : State) (fns : List Nat) (hcover : ∀ k ∈ keys s.cache, k.fn ∈ fns) :
    (run s (fns.map Op.ffn)).cache = [] := by
  apply List.eq_nil_iff_forall_not_mem.mpr
  intro p hp
  have hk := run_ffn_removes fns s p.1 (hcover p.1 (List.mem_map.mpr ⟨p, run_ffn_sub fns s hp, rfl⟩))
  exact hk (List.mem_map.mpr ⟨p, hp, rfl⟩)

/-- `forget_everything` empties the cache and zeroes the counter -/
theorem forget_everything_zero (s : State) :
    (step s .fall).1.cache = [] ∧ (step s .fall).1.usage = 0 := by
  simp [step, stepRaw, prune, forgetEverything]

/-! ## Group queries (`is_all_memoized`) -/

/-- (3, group queries) `is_all_memoized` over a group of calls leaves every entry resident and marks **every** queried
    call that is resident as used — also those listed after a call that is not memoized: afterwards each of them was used
    later than every call outside the group, so a put that needs room drops the calls outside the group first
    (`put_evicts_lru_prefix`). The answer is "all of them are resident or still referenced". -/
theorem group_query_marks_every_resident {s : State} (h : Inv s) (ks : List Key) (k : Key) (hk : k ∈ ks)
    (hres : k ∈ keys s.cache) (j : Key) (hj : j ∉ ks) :
    let s' := (step s (.allmem ks)).1
    s'.cache = s.cache ∧ s'.stamp j = s.stamp j ∧ s'.stamp j < s'.stamp k := by
  simp only [step, stepRaw, prune]
  refine ⟨isAllMemoized_cache ks s, isAllMemoized_stamp_other ks j hj s, ?_⟩
  rw [isAllMemoized_stamp_other ks j hj s]
  exact Nat.lt_of_lt_of_le (h.stamp_lt j) (isAllMemoized_stamp_queried ks k hk s hres)

theorem group_query_answer (ks : List Key) : ∀ s : State,
    (isAllMemoized s ks).2 = ks.all (fun k => hasKey s.cache k || (refLookup s.refs k).isSome) := by
  induction ks with
  | nil => intro s; rfl
  | cons k ks ih =>
    intro s
    simp only [isAllMemoized, List.all_cons]
    rw [ih, isMemoized_cache, isMemoized_refs]
    congr 1
    unfold isMemoized
    split <;> simp_all

end Memento.Cache

/-! ## Backend level: "… keep being served without touching the underlying store"

The filesystem backend of `Model/Store.lean` consults its cache first. These theorems are about that glue: the answer for a
resident call does not depend on what the store holds (so the store is not consulted), and a look-up — which writes
memento-only entries for the calls it had to fetch — leaves every resident entry exactly as it is while there is room. -/
namespace Memento.Store.FsBackend
open Memento

/-- a resident entry with a value is read from the cache: the same answer whatever the store holds (`d'` arbitrary),
    and the store is left as it is -/
theorem read_hit_no_store_access (s : FsBackend) (c : Cache.State) (hc : s.cache = some c) (mem size : Nat) (wr : Bool)
    (mi : MInfo) (hm : alookup s.heap mem = some mi) (e : Cache.Entry)
    (he : Cache.lookup c.cache (ckey mi.fn mi.arg) = some e) (hv : e.hasValue = true) (d' : DS) :
    (readResult { s with ds := d' } mem size wr).2 = some (objBytes e.val) ∧
    (readResult s mem size wr).2 = some (objBytes e.val) ∧ (readResult s mem size wr).1.ds = s.ds := by
  have hr := Cache.resident_hit_served c (ckey mi.fn mi.arg) e he hv
  have hrr : Cache.readResult c (ckey mi.fn mi.arg) = ((Cache.readResult c (ckey mi.fn mi.arg)).1, .value e.val) := by
    rw [← hr.1]
  refine ⟨?_, ?_, ?_⟩ <;> (unfold readResult; simp only [hm, hc]; rw [hrr])

theorem mergeMementos_all_cached (s : FsBackend) : ∀ (l : List ((Fn × Arg) × Option Nat)),
    (∀ p ∈ l, p.2.isSome) → mergeMementos s l = (s, l.map (·.2)) := by
  intro l
  induction l with
  | nil => intro _; rfl
  | cons p l ih =>
    intro h
    obtain ⟨⟨fn, arg⟩, cached⟩ := p
    cases cached with
    | none => exact absurd (h _ List.mem_cons_self) (by simp)
    | some m =>
      simp only [mergeMementos, List.map_cons]
      rw [ih (fun p hp => h p (List.mem_cons_of_mem _ hp))]

/-- a look-up of calls that are all resident is answered from the cache: state unchanged, the same answer whatever the
    store holds -/
theorem lookup_hit_no_store_access (s : FsBackend) (c : Cache.State) (hc : s.cache = some c) (ks : List (Fn × Arg))
    (hall : ∀ k ∈ ks, (Cache.lookup c.cache (ckey k.1 k.2)).isSome) (d' : DS) :
    getMementos { s with ds := d' } ks =
      ({ s with ds := d' }, ks.map (fun k => (Cache.lookup c.cache (ckey k.1 k.2)).map (·.mem))) := by
  unfold getMementos
  rw [mergeMementos_all_cached]
  · simp only [List.map_map]
    congr 1
    apply List.map_congr_left
    intro k _
    simp only [Function.comp, cacheLookup, hc]
  · intro p hp
    obtain ⟨k, hk, rfl⟩ := List.mem_map.mp hp
    simp only [cacheLookup, hc]
    have := hall k hk
    cases hl : Cache.lookup c.cache (ckey k.1 k.2) with
    | none => rw [hl] at this; exact absurd this (by simp)
    | some e => simp

/-- a look-up of any group of calls (resident or not, memoized or not) leaves every resident entry — its value, its
    memento, its size — exactly as it is, as long as there is room for the memento-only entries (16 bytes each) of the
    calls it fetches; so a resident value stays servable from memory (`read_hit_no_store_access`) -/
theorem lookup_keeps_resident_values {s : FsBackend} {c : Cache.State} (hc : s.cache = some c) (ks : List (Fn × Arg))
    (hroom : c.usage + 16 * ks.length ≤ c.budget) (k : Cache.Key) (e : Cache.Entry)
    (he : Cache.lookup c.cache k = some e) :
    ∃ c', (getMementos s ks).1.cache = some c' ∧ Cache.lookup c'.cache k = some e := by
  unfold getMementos
  refine mergeMementos_keeps k e _ s c hc he ?_ (by simpa using hroom)
  intro p hp hnone
  obtain ⟨q, _, rfl⟩ := List.mem_map.mp hp
  exact cacheLookup_none_ne hc he hnone

/-- non-vacuity: after one memoize on a backend with a 1000-byte cache the call is resident with its value and there is
    room for two more memento-only entries; a look-up of two other calls (one memoized beforehand by another backend object
    on the same store would be fetched) leaves it resident -/
private def demoB : FsBackend := (step (FsBackend.init false (some 1000)) (.memoize 1 1 none 7 (some 3) 40 false)).1

example : (match demoB.cache with
    | some c => (Cache.lookup c.cache (ckey 1 1)).any (·.hasValue) && decide (c.usage + 16 * 2 ≤ c.budget)
    | none => false) = true := by decide +kernel

example : (match (getMementos demoB [(2, 1), (1, 2)]).1.cache with
    | some c => (Cache.lookup c.cache (ckey 1 1)).any (·.hasValue)
    | none => false) = true := by decide +kernel

end Memento.Store.FsBackend

namespace Memento.Cache

/-! ## Non-vacuity: concrete reachable states exercising the hypotheses -/

private def k1 : Key := ⟨1, 1⟩
private def k2 : Key := ⟨1, 2⟩
private def k3 : Key := ⟨2, 1⟩

/-- budget 100: three puts of 40 — the third evicts the first; then a read, an oversize put -/
private def demoOps : List Op :=
  [.put k1 10 101 40 false true none, .put k2 11 102 40 false true none, .read k1,
   .put k3 12 103 40 false true none, .put k1 13 104 200 false true none]

example : keys (run (init 100) demoOps).cache = [k3] ∧ (run (init 100) demoOps).usage = 40 := by decide
example : keys (run (init 100) (demoOps.take 4)).cache = [k1, k3] := by decide   -- k2 (LRU) was dropped, k1 kept
example : (run (init 100) (demoOps ++ [.fcall k3])).usage = 0 := by decide
/-- a group query `[missing, k1]` marks k1 used although it is listed after a call that is not memoized: the next put
    that needs room drops k2 and keeps k1 -/
example : keys (run (init 100) [.put k1 10 101 40 false true none, .put k2 11 102 40 false true none,
    .allmem [k3, k1], .put k3 12 103 40 false true none]).cache = [k1, k3] := by decide

end Memento.Cache
