import MementoModel.Lemmas.CodecLemmas

/-!
# C11 — the JSON metadata codec round-trips and keeps its cross-language wire format

Property theorems only.  The model is `Model/Codec.lean` (`MementoCodec.encode_* / decode_*` and the
reference constructors the decoders call; values are the `Arg` of `Model/ArgHash.lean`, documents the
`JVal` of `Model/Json.lean`), the helper lemmas are in `Lemmas/CodecLemmas.lean`.

Every theorem quantifies over **all** mementos / values / documents of the stated domain — argument
trees of any depth and width (induction over the mutual value type), any invocation list, resource
list, dependency list, runner description and content key.

The domain (`wfMemento cb m`) says what every memento object built by the real constructors satisfies:
* value tokens have the shape their Python renderers give them (`repr(float)` is not an integer
  literal, `date.isoformat()` is `dddd-dd-dd`, `datetime.isoformat()` is `…T…` followed by nothing or a
  whole-minute offset `±hh:mm` — the offsets `dateutil.isoparse`, hence `ArgumentHasher.normalize`, accepts);
* no dictionary value has a `_mementoType` key (normalization turns those into dates / references);
* the effective kwargs of every call are computable (the constructor would have raised otherwise);
* function references that resolve in the code base `cb` carry the parameter names of that function;
* the *version* of a content key contains no `#` (it is a uuid4 or empty; the *key* may contain `#`).
-/
namespace Memento.Codec
open Memento.Json Memento.ArgHash

/-! ## Round trip -/

/-- **decode ∘ encode = id on mementos**: same time text (hence instant), function reference, arguments,
    keyword and context arguments, invocations (in order), resources, dependencies, runtime, result type,
    runner, correlation id and content key — the decoded record *is* the original one. -/
theorem decode_encode (cb : CodeBase) (m : Memento) (h : wfMemento cb m = true) :
    decMemento cb (encMemento m) = some m :=
  decMemento_encMemento h

/-- the same, field by field, in the words of the property -/
theorem decode_encode_fields (cb : CodeBase) (m : Memento) (h : wfMemento cb m = true) :
    ∃ m', decMemento cb (encMemento m) = some m' ∧
      m'.time = m.time ∧ m'.call.ref.qn = m.call.ref.qn ∧ m'.call.ref.pargs = m.call.ref.pargs ∧
      m'.call.ref.pkw = m.call.ref.pkw ∧ m'.call.ref.pnames = m.call.ref.pnames ∧
      m'.call.args = m.call.args ∧ m'.call.kwargs = m.call.kwargs ∧ m'.call.ctx = m.call.ctx ∧
      m'.invocations = m.invocations ∧ m'.resources = m.resources ∧ m'.deps = m.deps ∧
      m'.runtime = m.runtime ∧ m'.resultType = m.resultType ∧ m'.runner = m.runner ∧
      m'.correlationId = m.correlationId ∧ m'.contentKey = m.contentKey :=
  ⟨m, decMemento_encMemento h, rfl, rfl, rfl, rfl, rfl, rfl, rfl, rfl, rfl, rfl, rfl, rfl, rfl, rfl, rfl, rfl⟩

/-- typed `{type, value}` arguments round-trip at every depth: nested lists / dictionaries / function
    references with partial arguments, dates and datetimes with and without zones, NaN / infinities
    (float tokens are arbitrary non-integer tokens), arbitrary text -/
theorem arg_decode_encode (cb : CodeBase) (a : Arg) (h : wfArg a = true) (hr : resolved cb a = true) :
    decArg cb (encArg a) = some a :=
  decArg_encArg cb a h hr

/-- what the constructors do to decoded arguments (`ArgumentHasher.normalize`) is the identity on the
    domain: decoded values enter the hash exactly as the original ones did -/
theorem normalize_stable (a : Arg) (h : wfArg a = true) : normalize a = some a :=
  decode_encode_wf a h

/-- **the argument hash recomputed from the decoded arguments equals the original one** — for the
    memoized call and for every recorded invocation, for every hash function `H` on strings
    (SHA-256 in the implementation); and the original hash exists (the call was constructible). -/
theorem arghash_preserved (H : String → String) (cb : CodeBase) (m : Memento) (h : wfMemento cb m = true) :
    ∃ m', decMemento cb (encMemento m) = some m' ∧
      callHash H m'.call = callHash H m.call ∧ (callHash H m.call).isSome = true ∧
      m'.invocations.map (List.map (callHash H)) = m.invocations.map (List.map (callHash H)) := by
  refine ⟨m, decMemento_encMemento h, rfl, ?_, rfl⟩
  simp only [wfMemento, wfCall, Bool.and_eq_true] at h
  simp [callHash, h.1.1.1.1.2.2]

/-- datetime texts: `isoformat()` → `+00:00`↦`Z` → parse → `isoformat()` is the identity, and the result
    is a datetime (never mistaken for a date) -/
theorem datetime_text_roundtrip (iso : String) (h : wfDateTime iso = true) :
    decDatetime (encDatetime iso) = .datetime iso :=
  decDatetime_encDatetime_datetime h

/-- date texts come back as dates -/
theorem date_text_roundtrip (iso : String) (h : wfDate iso = true) :
    decDatetime (encDatetime iso) = .date iso :=
  decDatetime_encDatetime_date h

/-- **versioned keys** `key#version` (split at the last `#`) round-trip **iff** the version contains no
    `#`; the key may contain any number of them -/
theorem versioned_key_roundtrip_iff (k : VKey) : decVKey (encVKey k) = k ↔ '#' ∉ k.version.toList :=
  decVKey_encVKey_iff k

/-! ## Wire format -/

/-- **every emitted document conforms to the wire format** (no hypothesis on the memento): the fixed
    field names of each object, typed `{type, value}` arguments whose tag agrees with the JSON kind of
    the value, a result type among the enum's names -/
theorem wire_schema (m : Memento) : wireMemento (encMemento m) = true :=
  wireMemento_encMemento m

/-- every argument, at every depth, is a typed node of the wire format -/
theorem typed_args_on_wire (a : Arg) : wireArg (encArg a) = true :=
  wireArg_encArg a

/-- the wire names of the result types are fixed, and decoding a name gives the member back -/
theorem result_type_names_fixed :
    ResultType.all.map ResultType.name =
      ["exception", "null", "boolean", "string", "binary", "number", "date", "timestamp", "list_result",
       "dictionary", "array_boolean", "array_int8", "array_int16", "array_int32", "array_int64",
       "array_float32", "array_float64", "index", "series", "data_frame", "partition", "memento_function"] ∧
    ∀ r : ResultType, ResultType.ofName r.name = some r :=
  ⟨by decide, ofName_name⟩

/-! ## Plain JSON (known finding K4) -/

/-- the full clause of the property: *every* emitted document is plain (RFC 8259) JSON -/
def PlainJsonFull : Prop := ∀ (cb : CodeBase) (m : Memento), wfMemento cb m = true → strictJson (encMemento m) = true

/-- exact characterisation: the document is plain JSON **iff** the memento holds no NaN / ±infinity
    (and its runner description is plain JSON) -/
theorem plain_json_iff (m : Memento) : strictJson (encMemento m) = true ↔ finiteMemento m = true := by
  rw [strict_encMemento_eq]

/-- **partial version**: without non-finite floats the document is plain JSON -/
theorem plain_json_partial (m : Memento) (h : finiteMemento m = true) : strictJson (encMemento m) = true :=
  (plain_json_iff m).mpr h

/-- the witness: `one(nan)` memoized by a local runner -/
def nanMemento : Memento :=
  { time := "2024-01-01T00:00:00+00:00"
    call := ⟨⟨"c11fns:one#1", .nil, .nil, ["a"]⟩, .cons (.float "NaN") .nil, .nil, .nil⟩
    invocations := some [], resources := some [], runtime := "1.0", resultType := .number, deps := []
    runner := .obj (.cons "type" (.str "local") .nil), correlationId := some "cid", contentKey := none }

/-- **the full clause is false for the current code**: a NaN argument is written as the bare token `NaN` -/
theorem plain_json_full_false : ¬ PlainJsonFull := by
  intro h
  have := h [("c11fns:one#1", ["a"])] nanMemento (by decide)
  revert this
  decide

/-! ## Non-vacuity: concrete inhabitants of every hypothesis -/

/-- a code base with two local functions; `cl::nomod:fn.x#2` is external -/
def exCb : CodeBase := [("c11fns:target#1", ["x", "y"]), ("c11fns:one#1", ["a"])]

/-- `target.partial(1, y=[nan, date(2020,1,1), {"k": -03:30 datetime}])` -/
def exInner : Arg :=
  .fnref "c11fns:target#1" (.cons (.int 1) .nil)
    (.cons "y" (.list (.cons (.float "NaN") (.cons (.date "2020-01-01")
      (.cons (.dict (.cons "k" (.datetime "2020-01-01T05:06:07.000008-03:30") .nil)) .nil)))) .nil)
    ["x", "y"]

/-- an external reference whose partial argument is a local reference with a nested partial -/
def exExt : FnRef := ⟨"cl::nomod:fn.x#2", .cons exInner .nil, .nil, ["p", "q"]⟩

def exMemento : Memento :=
  { time := "2024-01-01T00:00:00+00:00"
    call := ⟨⟨"c11fns:one#1", .nil, .nil, ["a"]⟩, .cons exInner .nil, .nil,
             .cons "c" (.list (.cons (.float "-Infinity") (.cons (.str "é😀") (.cons (.datetime "2020-01-01T00:00:00") .nil)))) .nil⟩
    invocations := some [⟨exExt, .cons (.bool true) .nil, .cons "kw" (.float "1.0") .nil, .nil⟩,
                         ⟨exExt, .cons (.bool true) .nil, .cons "kw" (.float "1.0") .nil, .nil⟩]
    resources := some [⟨some "t", some "u#é", none⟩]
    runtime := "1.000005", resultType := .memento_function, deps := [exExt, ⟨"c11fns:one#1", .nil, .nil, ["a"]⟩]
    runner := .obj (.cons "type" (.str "local") .nil), correlationId := none
    contentKey := some ⟨"reports/2024#q1", "5f0c1d"⟩ }

example : wfMemento exCb exMemento = true := by decide
example : decMemento exCb (encMemento exMemento) = some exMemento := decode_encode _ _ (by decide)
example : wfArg exInner = true ∧ resolved exCb exInner = true := by decide
example : (callHash id exMemento.call).isSome = true := by decide
example : wfDateTime "2024-01-01T00:00:00+00:00" = true ∧ encDatetime "2024-01-01T00:00:00+00:00" = "2024-01-01T00:00:00Z" := by decide
example : wfDateTime "0999-12-31T23:59:59.999999+14:00" = true ∧ wfDate "0001-01-01" = true := by decide
example : wireMemento (encMemento exMemento) = true := wire_schema _
/-- the key may contain `#` … -/
example : decVKey (encVKey ⟨"reports/2024#q1", "5f0c1d"⟩) = ⟨"reports/2024#q1", "5f0c1d"⟩ :=
  (versioned_key_roundtrip_iff _).mpr (by decide)
/-- … the version may not: `a` / `b#c` is read back as `a#b` / `c` -/
example : decVKey (encVKey ⟨"a", "b#c"⟩) = ⟨"a#b", "c"⟩ := by decide
/-- a memento with finite numbers only: `plain_json_partial` applies -/
example : finiteMemento { nanMemento with call := ⟨⟨"c11fns:one#1", .nil, .nil, ["a"]⟩, .cons (.float "1.5") .nil, .nil, .nil⟩ } = true := by
  decide
example : wfMemento [("c11fns:one#1", ["a"])] nanMemento = true ∧ strictJson (encMemento nanMemento) = false := by decide

end Memento.Codec
