import MementoModel.Lemmas.VersionCacheLemmas
import MementoModel.Props.C03

/-!
# C13 — the in-process version cache is coherent with a from-scratch computation

Model: `Model/VersionCache.lean` — `_update_dependencies` statement by statement (explicit version
short-cut, cache lookup at the current generation, `did_change` scan of the instance's own recorded
rules, generation bump, recompute, cache write), objects with identity, modifier clones (which copy
version and rules) and unregistered wrappers (no version, no rules). Events: (re)define a memento
function (registration bumps the generation), (re)define a plain function, rebind a variable or define a
previously undefined symbol (a name without binding becomes bound), replace a memento function by a
plain one and back (define under the same name), create a clone / a wrapper, ask for a version. In-place
mutation of a tracked container is a rebinding to the new value at this level (values are compared by
their serialisation).

`effectiveVersion H (progOf s.sym) id f` is what a fresh process computes for the resulting program
(`Model/Version.lean`; C03: independent of definition order and set enumeration order).

The cluster lock is modelled (`St.locked`, event `lock b`): the property excludes the answers given *while* the cluster is
locked, and only those — `query_eq_fresh` holds at every position where the cluster is not locked, whatever was edited, asked or
refused during earlier locked periods (`unlock_restores_coherence`); while it is locked an instance that has a version repeats it
and touches nothing (`locked_query_frozen`), an instance that has none computes the fresh one (`query_eq_fresh`, second case),
and a registration is refused without binding anything (`locked_registration_refused`).
Instances whose function object has been replaced since they were made are not part of "the resulting program" (`live`).
Every definition the events create gets a hash rule (`Def.trackable`) or is a plain function of another package
(`defForeign`): no rule is kept for such a function, but the symbol bound to it is watched (fix F27), so replacing a
memento function by a function of another package and back, or re-binding an alias of such a function, is inside the
model. Variables of unsupported types are outside the property's program class.
No assumption on the hash function `H` is needed.
-/
namespace Memento.VersionCache
open Memento.Version

/-- **coherence**: after any sequence of events (with version queries interleaved at any positions, on any
    instances), asking any live instance for its version succeeds and yields exactly the version computed
    from scratch for the resulting program -/
theorem query_eq_fresh (H : Ser → List Char) (evs : List Ev) (i : Nat) (inst : Inst) :
    let s := run H {} evs
    s.insts[i]? = some inst → live s inst → (s.locked = false ∨ inst.cver = none) →
    (step H s (.query i)).2 = some (effectiveVersion H (progOf s.sym) id inst.name) := by
  intro s hi hlive hul
  exact query_fresh (inv_run (inv_init H) evs) hi hlive hul

/-- only the answers given while the cluster is locked are excluded: once it is unlocked, every live instance reports the
    fresh version of the resulting program again — whatever was edited, re-bound, asked or refused while it was locked -/
theorem unlock_restores_coherence (H : Ser → List Char) (evs : List Ev) (i : Nat) (inst : Inst) :
    let s := run H {} (evs ++ [.lock false])
    s.insts[i]? = some inst → live s inst →
    (step H s (.query i)).2 = some (effectiveVersion H (progOf s.sym) id inst.name) := by
  intro s hi hlive
  refine query_fresh (inv_run (inv_init H) _) hi hlive (Or.inl ?_)
  have hrun : ∀ (es : List Ev) (s0 : St), run H s0 (es ++ [.lock false]) = { run H s0 es with locked := false } := by
    intro es
    induction es with
    | nil => intro s0; rfl
    | cons e es ih => intro s0; exact ih _
  show (run H {} (evs ++ [.lock false])).locked = false
  rw [hrun]

/-- while the cluster is locked, an instance that already has a version repeats it, and the query changes nothing at all -/
theorem locked_query_frozen (H : Ser → List Char) (s : St) (i : Nat) (inst : Inst) (c : List Char) (b : Bound)
    (hl : s.locked = true) (hi : s.insts[i]? = some inst) (hc : inst.cver = some c)
    (hb : lookupB s.sym inst.name = some b) (hst : b.stamp = inst.stamp)
    (hx : ∀ e tok refs, b.d ≠ .memento (some e) tok refs) :
    query H s i = (s, some c) := by
  unfold query
  simp only [hi, hb, hst, beq_self_eq_true, Bool.not_true, Bool.false_eq_true, if_false]
  obtain ⟨st, d⟩ := b
  cases d with
  | plain _ _ _ => simp [hl, hc]
  | var _ => simp [hl, hc]
  | memento e tok refs =>
    cases e with
    | some e => exact absurd rfl (hx e tok refs)
    | none => simp [hl, hc]

/-- while the cluster is locked the registration of a memento function is refused: no name is bound, no instance appears (the
    generation and the cache entry of the name are touched, which no answer depends on: `query_eq_fresh` has no hypothesis on
    either) -/
theorem locked_registration_refused (H : Ser → List Char) (s : St) (hl : s.locked = true) (n : Name) (e) (tok : Tok) (refs : List Name) :
    let s' := (step H s (.defMemento n e tok refs)).1
    s'.sym = s.sym ∧ s'.insts = s.insts ∧ s'.locked = true := by
  simp [step, hl]

/-- the same for any enumeration order of reference sets and any definition order a fresh process may use (C03) -/
theorem query_eq_fresh_any_order (H : Ser → List Char) (evs : List Ev) (i : Nat) (inst : Inst)
    (P' : Prog) (ord' : List Name → List Name) (ho : OrdOK ord') :
    let s := run H {} evs
    (∀ n, lookup (progOf s.sym) n = lookup P' n) →
    s.insts[i]? = some inst → live s inst → (s.locked = false ∨ inst.cver = none) →
    (step H s (.query i)).2 = some (effectiveVersion H P' ord' inst.name) := by
  intro s hP hi hlive hul
  rw [← effectiveVersion_deterministic H (progOf s.sym) P' hP id ord' ordOK_id ho]
  exact query_fresh (inv_run (inv_init H) evs) hi hlive hul

/-- the criterion the cache relies on, stated on its own: if none of the rules an instance recorded reports a
    change and none of the symbols it watches without a rule (functions of other packages, fix F27) was re-bound, its
    recorded version is the fresh version (whatever happened to the generation counter) -/
theorem unchanged_rules_imply_fresh (H : Ser → List Char) (evs : List Ev) (inst : Inst) (c : List Char) :
    let s := run H {} evs
    inst ∈ s.insts → live s inst → inst.cver = some c → inst.snaps.any (didChange s.sym) = false →
    inst.watch.any (watchChanged s.sym) = false →
    version H (progOf s.sym) id inst.name = c := by
  intro s hmem hlive hc hnc hnw
  exact no_change_version (inv_run (inv_init H) evs) hmem hlive hc hnc hnw

/-- a query changes no binding: the program, and therefore every fresh version, is the same afterwards
    (so interleaving queries at every position cannot influence later answers) -/
theorem query_keeps_program (H : Ser → List Char) (s : St) (i : Nat) : (query H s i).1.sym = s.sym := by
  unfold query
  cases s.insts[i]? with
  | none => rfl
  | some inst =>
    simp only
    cases lookupB s.sym inst.name with
    | none => rfl
    | some b =>
      simp only
      split
      · rfl
      · split
        · rfl
        · split
          · rfl
          · cases cacheGet s.cache inst.name with
            | none => rfl
            | some gv =>
              obtain ⟨g, v⟩ := gv
              simp only
              split
              · split
                · rfl
                · cases inst.cver <;> rfl
              · rfl

/-! ### non-vacuity: a variable beneath a plain helper is rebound between two queries; a clone made before
    the change and a wrapper made after it all report the fresh version -/
def exEvs : List Ev :=
  [.setVar 5 7, .defPlain 1 11 [5], .defMemento 0 none 10 [1], .query 0, .clone 0, .setVar 5 8, .wrapper 0]

example : (step exH (run exH {} exEvs) (.query 0)).2 =
    some (version exH [(0, .memento none 10 [1]), (1, .plain true 11 [5]), (5, .var (some 8))] id 0) := by
  decide +kernel
example : (step exH (run exH {} exEvs) (.query 1)).2 = (step exH (run exH {} exEvs) (.query 0)).2 := by decide +kernel
example : (step exH (run exH {} exEvs) (.query 2)).2 = (step exH (run exH {} exEvs) (.query 0)).2 := by decide +kernel
/-- and the version did change with the variable -/
example : (step exH (run exH {} (exEvs.take 3)) (.query 0)).2 ≠ (step exH (run exH {} exEvs) (.query 0)).2 := by
  decide +kernel

/-! ### functions of other packages (the histories of the former known finding K5)

`m0` calls itself; its name is bound to a function of another package; then the identical `m0` is defined again (its
decorator runs while the name is still bound to the foreign function, so no rule is made for the recursive reference — the
watched symbol is what notices the re-binding); queries in between. -/
def exK5a : List Ev :=
  [.defMemento 0 none 10 [0], .defMemento 1 none 11 [0], .query 0, .query 1, .defForeign 0 77, .query 1,
   .defMemento 0 none 10 [0]]

example : (step exH (run exH {} exK5a) (.query 2)).2 =
    some (version exH [(0, .memento none 10 [0]), (1, .memento none 11 [0])] id 0) := by decide +kernel
example : (step exH (run exH {} exK5a) (.query 1)).2 =
    some (version exH [(0, .memento none 10 [0]), (1, .memento none 11 [0])] id 1) := by decide +kernel
/-- while the name is bound to the foreign function the caller's version is another one (no rule for the callee) -/
example : (step exH (run exH {} (exK5a.take 5)) (.query 1)).2 ≠ (step exH (run exH {} exK5a) (.query 1)).2 := by
  decide +kernel

/-- K5b: `m3` (name 2) calls `a_m1` (name 5), an alias of `m1` (name 0); `m1 = a_m1 = <function of another package>`; queries;
    then `a_m1 = m2` (name 1): the watched symbol notices the re-binding -/
def exK5b : List Ev :=
  [.defMemento 0 none 10 [], .defMemento 1 none 11 [], .alias 5 0, .defMemento 2 none 12 [5], .query 2,
   .defForeign 0 77, .alias 5 0, .query 2, .alias 5 1]

example : (step exH (run exH {} exK5b) (.query 2)).2 =
    some (effectiveVersion exH (progOf (run exH {} exK5b).sym) id 2) := by decide +kernel
example : (step exH (run exH {} (exK5b.take 8)) (.query 2)).2 ≠ (step exH (run exH {} exK5b) (.query 2)).2 := by
  decide +kernel

/-! ### the cluster lock: `m1` (name 1) reads the variable 0 and is called by `m2` (name 2); both are asked, the cluster is locked, the
variable re-bound, a new `m1` refused; the locked answers are the old ones; after unlocking both report the fresh versions -/
def exLock : List Ev :=
  [.setVar 0 5, .defMemento 1 none 10 [0], .defMemento 2 none 11 [1], .query 0, .query 1, .lock true, .setVar 0 6,
   .defMemento 1 none 12 [0]]

/-- locked: the old versions are repeated … -/
example : (step exH (run exH {} exLock) (.query 0)).2 = (step exH (run exH {} (exLock.take 5)) (.query 0)).2 := by decide +kernel
example : (step exH (run exH {} exLock) (.query 1)).2 = (step exH (run exH {} (exLock.take 5)) (.query 1)).2 := by decide +kernel
/-- … the refused definition bound nothing and made no instance … -/
example : (run exH {} exLock).insts.length = 2 ∧ (lookupB (run exH {} exLock).sym 1).map (·.d) = some (.memento none 10 [0]) := by
  decide +kernel
/-- … and after unlocking both functions report the versions of the program as it is now (which differ from the old ones) -/
example : (step exH (run exH {} (exLock ++ [.lock false])) (.query 0)).2 =
    some (version exH [(0, .var (some 6)), (1, .memento none 10 [0]), (2, .memento none 11 [1])] id 1) := by decide +kernel
example : (step exH (run exH {} (exLock ++ [.lock false])) (.query 1)).2 =
    some (version exH [(0, .var (some 6)), (1, .memento none 10 [0]), (2, .memento none 11 [1])] id 2) := by decide +kernel
example : (step exH (run exH {} (exLock ++ [.lock false])) (.query 1)).2 ≠ (step exH (run exH {} exLock) (.query 1)).2 := by
  decide +kernel
/-- an instance made while locked (a wrapper: no version yet) computes the fresh version even though the cluster is locked -/
example : (step exH (run exH {} (exLock ++ [.wrapper 1])) (.query 2)).2 =
    some (version exH [(0, .var (some 6)), (1, .memento none 10 [0]), (2, .memento none 11 [1])] id 1) := by decide +kernel

end Memento.VersionCache
