import MementoModel.Model.RunnerProg
namespace Memento.Runner
theorem placeholder_C13 : replay (.val none) = .val none := rfl
end Memento.Runner
