import MementoModel.Lemmas.StoreLemmas
namespace Memento.Store
/-- (interim; the refinement theorems are being completed in a scratch copy) -/
theorem placeholder_spec_empty : Spec.empty.entries = [] := rfl
end Memento.Store
