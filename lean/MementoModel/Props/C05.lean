import MementoModel.Lemmas.StoreLemmas

/-!
# C05 — every storage backend behaves like one dictionary of memoized calls

Refinement of the abstract dictionary `Spec` by the memory backend, the filesystem backend and the
filesystem backend with a write-through memory cache of any budget (`FsBackend` with
`cache = some _`), for every operation and — by induction — every history.
-/
set_option linter.unusedSimpArgs false
set_option linter.unusedVariables false
namespace Memento.Store

/-! ## The dictionary itself (the property's own words, proved on the spec) -/

/-- reads return the last value written -/
theorem spec_read_last_write (sp : Spec) (fn arg ov mem val sz wr) :
    let sp' := (Spec.step sp (.memoize fn arg ov mem val sz wr)).1
    (Spec.step sp' (.lookread fn arg)).2 = .val (some val) ∧
    (Spec.step sp' (.getm [(fn, arg)])).2 = .mems [some mem] := by
  simp [Spec.step, alookup_aset]

/-- forgetting removes exactly its scope: the call is gone, every other call is untouched -/
theorem spec_forget_call_scope (sp : Spec) (fn arg fn' arg') :
    let sp' := (Spec.step sp (.fcall fn arg)).1
    (Spec.step sp' (.lookread fn arg)).2 = .val none ∧
    ((fn', arg') ≠ (fn, arg) → (Spec.step sp' (.lookread fn' arg')).2 = (Spec.step sp (.lookread fn' arg')).2) := by
  simp only [Spec.step, alookup_adel]
  refine ⟨by simp, ?_⟩
  intro h; simp [h]

theorem spec_forget_function_scope (sp : Spec) (fn fn' arg') :
    let sp' := (Spec.step sp (.ffn fn)).1
    (Spec.step sp' (.lookread fn arg')).2 = .val none ∧
    (fn' ≠ fn → (Spec.step sp' (.lookread fn' arg')).2 = (Spec.step sp (.lookread fn' arg')).2) := by
  simp only [Spec.step]
  refine ⟨?_, ?_⟩
  · rw [alookup_filter sp.entries (fun k => !(k.1 == fn))]; simp
  · intro h
    rw [alookup_filter sp.entries (fun k => !(k.1 == fn))]; simp [h]

/-- nothing forgotten ever reappears: absent stays absent under every op except a memoize of it -/
theorem spec_no_resurrection (sp : Spec) (fn arg : Nat) (op : Op)
    (habs : alookup sp.entries (fn, arg) = none)
    (hop : ∀ ov mem val sz wr, op ≠ .memoize fn arg ov mem val sz wr) :
    alookup (Spec.step sp op).1.entries (fn, arg) = none := by
  cases op with
  | memoize f a ov mem val sz wr =>
    have : (fn, arg) ≠ (f, a) := by
      intro e; cases e; exact hop ov mem val sz wr rfl
    simp [Spec.step, alookup_aset, this, habs]
  | fcall f a => simp only [Spec.step, alookup_adel, habs]; simp
  | ffn f =>
    simp only [Spec.step]
    rw [alookup_filter sp.entries (fun k => !(k.1 == f)), habs]; simp
  | fall => rfl
  | _ => simpa [Spec.step] using habs

/-! ## Memory backend -/

theorem mem_init_inv : MemInv (MemBackend.init false) :=
  ⟨by simp [MemBackend.init], by simp [MemBackend.init], rfl⟩

/-- one step of the memory backend = one step of the dictionary (same answer, same abstract state) -/
theorem membackend_refines_dict (s : MemBackend) (op : Op) (h : MemInv s) (hadm : MemBackend.admissible s op) :
    (MemBackend.step s op).2 = (Spec.step (MemBackend.abs s) op).2 ∧
    MemBackend.abs (MemBackend.step s op).1 = (Spec.step (MemBackend.abs s) op).1 ∧
    MemInv (MemBackend.step s op).1 := by
  open MemBackend in
  have hw := h.writable
  cases op with
  | memoize fn arg ov mem val sz wr =>
    simp only [MemBackend.step, hw, Bool.false_eq_true, if_false, Spec.step, true_and]
    refine ⟨?_, ?_⟩
    · simp only [abs_eq]
      congr 1
      simp only [aset_eq, List.map_cons]
      congr 1
      · simp [absEntry, alookup_cons]
      · rw [filter_map_absEntry _ _ (nekey (fn, arg))]
        apply map_absEntry_congr
        intro p hp
        have := (List.mem_filter.mp hp).2
        have hne : ¬ (fn, arg) = p.1 := fun e => (nekey_iff _ _).mp this e.symm
        rw [alookup_cons, if_neg hne, alookup_filter s.result (nekey (fn, arg)), if_pos this]
    · refine ⟨keys_aset_nodup _ _ h.nodup, ?_, rfl⟩
      intro p hp
      simp only [alookup_aset]
      rcases mem_aset hp with rfl | ⟨hp, hne⟩
      · simp
      · simp only [hne, if_false]; exact h.hasResult p hp
  | getm ks =>
    simp only [MemBackend.step, Spec.step, true_and]
    refine ⟨?_, h⟩
    congr 1
    apply List.map_congr_left
    intro k _
    simp only [abs_eq, alookup_abs_entries]
    cases alookup s.mementos k <;> rfl
  | lookread fn arg =>
    simp only [MemBackend.step, Spec.step, abs_eq, alookup_abs_entries]
    cases hm : alookup s.mementos (fn, arg) with
    | none => exact ⟨rfl, rfl, h⟩
    | some m =>
      refine ⟨?_, rfl, h⟩
      have := h.hasResult _ (alookup_mem hm)
      simp only at this ⊢
      cases hr : alookup s.result (fn, arg) with
      | none => simp [hr] at this
      | some v => simp
  | ismem fn arg =>
    simp only [MemBackend.step, Spec.step, abs_eq, alookup_abs_entries, true_and]
    refine ⟨?_, h⟩
    cases alookup s.mementos (fn, arg) <;> rfl
  | fcall fn arg =>
    simp only [MemBackend.step, hw, Bool.false_eq_true, if_false, Spec.step, true_and]
    refine ⟨?_, ?_⟩
    · simp only [abs_eq, adel_eq]
      congr 1
      exact map_absEntry_filter s.mementos s.result (nekey (fn, arg))
    · refine ⟨keys_filter_nodup _ h.nodup, ?_, rfl⟩
      intro p hp
      have hp' : p ∈ s.mementos ∧ nekey (fn, arg) p.1 = true := List.mem_filter.mp hp
      simp only [adel_eq]
      rw [alookup_filter s.result (nekey (fn, arg)), if_pos hp'.2]
      exact h.hasResult p hp'.1
  | ffn fn =>
    simp only [MemBackend.step, hw, Bool.false_eq_true, if_false, Spec.step, true_and]
    refine ⟨?_, ?_⟩
    · simp only [abs_eq]
      congr 1
      exact map_absEntry_filter s.mementos s.result (fun k => !(k.1 == fn))
    · refine ⟨keys_filter_nodup _ h.nodup, ?_, rfl⟩
      intro p hp
      have hp' := List.mem_filter.mp hp
      simp only at hp' ⊢
      rw [alookup_filter s.result (fun k => !(k.1 == fn)), if_pos hp'.2]
      exact h.hasResult p hp'.1
  | fall =>
    simp only [MemBackend.step, hw, Bool.false_eq_true, if_false, Spec.step, true_and]
    exact ⟨rfl, by simp, by simp, rfl⟩
  | lsf =>
    simp only [MemBackend.step, Spec.step, true_and]
    refine ⟨?_, h⟩
    simp [abs_eq, absEntry, List.map_map, Function.comp_def]
  | lsm fn =>
    simp only [MemBackend.step, Spec.step, true_and]
    refine ⟨?_, h⟩
    rw [abs_eq]
    simp only
    rw [filter_map_absEntry _ _ (fun k => k.1 == fn)]
    simp [absEntry, List.map_map, Function.comp_def]
  | wmeta fn arg k b =>
    simp only [MemBackend.step, hw, Bool.false_eq_true, if_false, Spec.step, true_and]
    exact ⟨rfl, h.nodup, h.hasResult, rfl⟩
  | rmeta fn arg k => exact ⟨rfl, rfl, h⟩
  | hold b => exact ⟨rfl, rfl, h⟩
  | drop b => exact ⟨rfl, rfl, h⟩


/-! ## Filesystem backend, with or without the memory cache -/

theorem fs_init_wf (separate : Bool) (budget : Option Nat) : WF (FsBackend.init separate budget false) :=
  wf_init separate budget

/-- one step of the filesystem backend (any cache budget, or none) = one step of the dictionary -/
theorem fsbackend_refines_dict (s : FsBackend) (op : Op) (h : WF s) (hadm : FsBackend.admissible s op) :
    (FsBackend.step s op).2 = (Spec.step (FsBackend.abs s) op).2 ∧
    FsBackend.abs (FsBackend.step s op).1 = (Spec.step (FsBackend.abs s) op).1 ∧
    WF (FsBackend.step s op).1 :=
  fs_refines h op hadm

/-! ## Histories -/

/-- run a history, collecting the answers -/
def runFs (s : FsBackend) : List Op → FsBackend × List Out
  | [] => (s, [])
  | op :: ops => let (s1, o) := FsBackend.step s op; let (s2, os) := runFs s1 ops; (s2, o :: os)

def runSpec (sp : Spec) : List Op → Spec × List Out
  | [] => (sp, [])
  | op :: ops => let (s1, o) := Spec.step sp op; let (s2, os) := runSpec s1 ops; (s2, o :: os)

def runMem (s : MemBackend) : List Op → MemBackend × List Out
  | [] => (s, [])
  | op :: ops => let (s1, o) := MemBackend.step s op; let (s2, os) := runMem s1 ops; (s2, o :: os)

/-- admissibility along a history -/
def AdmissibleFs : FsBackend → List Op → Prop
  | _, [] => True
  | s, op :: ops => FsBackend.admissible s op ∧ AdmissibleFs (FsBackend.step s op).1 ops

def AdmissibleMem : MemBackend → List Op → Prop
  | _, [] => True
  | s, op :: ops => MemBackend.admissible s op ∧ AdmissibleMem (MemBackend.step s op).1 ops

/-- **every history**: the filesystem backend (shared or separate metadata root, no cache or a cache
    of any budget) gives exactly the answers of the dictionary -/
theorem fs_history_refines_dict (separate : Bool) (budget : Option Nat) (ops : List Op)
    (hadm : AdmissibleFs (FsBackend.init separate budget false) ops) :
    (runFs (FsBackend.init separate budget false) ops).2 = (runSpec Spec.empty ops).2 := by
  suffices H : ∀ (ops : List Op) (s : FsBackend), WF s → AdmissibleFs s ops →
      (runFs s ops).2 = (runSpec (FsBackend.abs s) ops).2 by
    have := H ops _ (fs_init_wf separate budget) hadm
    rwa [abs_init] at this
  intro ops
  induction ops with
  | nil => intro s _ _; rfl
  | cons op ops ih =>
    intro s hwf hadm
    obtain ⟨h1, h2, h3⟩ := fsbackend_refines_dict s op hwf hadm.1
    have := ih _ h3 hadm.2
    simp only [runFs, runSpec]
    rw [this, h1, h2]

/-- **every history**: the memory backend gives exactly the answers of the dictionary -/
theorem mem_history_refines_dict (ops : List Op) (hadm : AdmissibleMem (MemBackend.init false) ops) :
    (runMem (MemBackend.init false) ops).2 = (runSpec Spec.empty ops).2 := by
  suffices H : ∀ (ops : List Op) (s : MemBackend), MemInv s → AdmissibleMem s ops →
      (runMem s ops).2 = (runSpec (MemBackend.abs s) ops).2 from
    H ops _ mem_init_inv hadm
  intro ops
  induction ops with
  | nil => intro s _ _; rfl
  | cons op ops ih =>
    intro s hinv hadm
    obtain ⟨h1, h2, h3⟩ := membackend_refines_dict s op hinv hadm.1
    have := ih _ h3 hadm.2
    simp only [runMem, runSpec]
    rw [this, h1, h2]

/-! ## Non-vacuity -/

private def demo : List Op :=
  [.memoize 1 1 none 10 (some 7) 40 false, .memoize 2 1 (some 1) 11 (some 8) 40 false, .wmeta 1 1 1 5,
   .lookread 1 1, .ffn 1, .lookread 1 1, .lsf, .memoize 2 1 (some 1) 12 none 16 false, .lookread 2 1]

example : (runFs (FsBackend.init false (some 100) false) demo).2 = (runSpec Spec.empty demo).2 := by decide
example : (runMem (MemBackend.init false) demo).2 = (runSpec Spec.empty demo).2 := by decide

/-- a decidable sufficient condition for `AdmissibleFs` -/
def admissibleFsB : FsBackend → List Op → Bool
  | _, [] => true
  | s, op :: ops => FsBackend.admissibleB s op && admissibleFsB (FsBackend.step s op).1 ops

theorem admissibleFs_of_B : ∀ (ops : List Op) (s : FsBackend), admissibleFsB s ops = true → AdmissibleFs s ops
  | [], _, _ => trivial
  | op :: ops, s, h => by
    simp only [admissibleFsB, Bool.and_eq_true] at h
    exact ⟨FsBackend.admissible_of_B h.1, admissibleFs_of_B ops _ h.2⟩

/-- the hypothesis of `fs_history_refines_dict` is satisfiable by a history exercising the cache,
    overrides, metadata and forgetting -/
example : AdmissibleFs (FsBackend.init false (some 100) false) demo := admissibleFs_of_B _ _ (by decide)
example : AdmissibleFs (FsBackend.init true none false) demo := admissibleFs_of_B _ _ (by decide)

/-- why `FsBackend.admissible` bounds the byte-string identity of a memoized value by `999999`:
    the cache model encodes object identities as `bytes id + 1 + 10^6 * generation` and decodes
    with `% 10^6`, so with a cache the (otherwise admissible) history below reads back bytes `0`
    where the dictionary says `999999`.  An artefact of the identity encoding of the model
    (`FsBackend.objId` / `objBytes`), not of the backend. -/
private def cexBigBytes : List Op := [.memoize 1 1 none 10 (some 999999) 40 false, .lookread 1 1]

example : (runFs (FsBackend.init false (some 100) false) cexBigBytes).2 = [.unit, .val (some (some 0))] ∧
    (runSpec Spec.empty cexBigBytes).2 = [.unit, .val (some (some 999999))] := by decide

/-! ### metadata stored with the data (known finding K6, fix F30)

`write_metadata(call, key, value, store_with_content_key = ck)` files the value next to the *data object* `ck` (file name: the
object's name, `.meta.`, the key) and a marker in the call's own metadata; `read_metadata` follows the marker to the object of the
call's current memento. The small model below keeps exactly that: a table keyed by (data object, key). `objOf` says which data
object each call's result lives in — results that serialize to the same bytes share one (C07). -/

abbrev Call := Nat
abbrev Obj := Nat
abbrev WdKey := Nat
abbrev WithData := List ((Obj × WdKey) × Nat)

def wdWrite (objOf : Call → Obj) (t : WithData) (c : Call) (k : WdKey) (v : Nat) : WithData :=
  ((objOf c, k), v) :: t.filter (fun e => !(e.1 == (objOf c, k)))

def wdRead (objOf : Call → Obj) (t : WithData) (c : Call) (k : WdKey) : Option Nat :=
  (t.find? (fun e => e.1 == (objOf c, k))).map (·.2)

theorem wdRead_write_same (objOf : Call → Obj) (t : WithData) (c : Call) (k : WdKey) (v : Nat) :
    wdRead objOf (wdWrite objOf t c k v) c k = some v := by
  simp [wdRead, wdWrite]

/-- **partial** (what holds): a write for another call, or under another key, leaves a read untouched — provided the two calls'
    results do not share a data object (or the keys differ) -/
theorem wdRead_write_other_partial (objOf : Call → Obj) (t : WithData) (c c' : Call) (k k' : WdKey) (v : Nat)
    (h : objOf c ≠ objOf c' ∨ k ≠ k') :
    wdRead objOf (wdWrite objOf t c' k' v) c k = wdRead objOf t c k := by
  have hne : ((objOf c', k') == (objOf c, k)) = false := by
    rcases h with h | h
    · simp [Ne.symm h]
    · simp [Ne.symm h]
  simp only [wdRead, wdWrite, List.find?_cons, hne]
  congr 1
  induction t with
  | nil => rfl
  | cons e t ih =>
    simp only [List.filter_cons]
    by_cases he : e.1 == (objOf c', k')
    · have : (e.1 == (objOf c, k)) = false := by
        have h1 : e.1 = (objOf c', k') := by simpa using he
        rw [h1]; exact hne
      simp [he, this, ih]
    · simp [he, List.find?_cons, ih]

/-- **K6** (the full statement — per call, last value written — is false): two calls whose results share a data object share
    the metadata stored with it -/
example : wdRead (fun _ => 7) (wdWrite (fun _ => 7) (wdWrite (fun _ => 7) [] 1 0 100) 2 0 200) 1 0 = some 200 := by decide

end Memento.Store
