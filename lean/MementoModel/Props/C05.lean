import MementoModel.Model.Store
namespace Memento.Store
theorem placeholder_spec_empty : Spec.empty.entries = [] := rfl
end Memento.Store
