import MementoModel.Model.RunnerProg
namespace Memento.Runner
theorem placeholder_C01 : replay (.val none) = .val none := rfl
end Memento.Runner
