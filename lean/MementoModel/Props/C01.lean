import MementoModel.Lemmas.VersionInj
import MementoModel.Props.C03
import MementoModel.Props.C14

/-!
# C01 — memoized results are never stale with respect to code and data changes

The storage key of a call is (function name, **version**, argument hash). A stored result can be
served to a later edition of the program only under an equal key, so "never stale" is:

    equal version  ⇒  equal meaning              (for any two editions, however they are related)

together with C02 (the runner returns what is stored under the key or computes and stores it) and C14
(calls that leave the hashed closure are refused — the "or raises the undeclared-dependency error" branch).

Model: `Model/Version.lean`; meaning = `eval` (`Lemmas/VersionInj.lean`): the value of a definition
as a free term over its code token, its argument and the values of everything it names — so every
edit to any feature of any definition of the closure changes the meaning (the generated programs of
`c01.py` are built the same way: every feature flows into the returned value).

Program class (`Tracked`): the root is automatically versioned and everything named in its closure
is a memento function (automatically **or explicitly** versioned), a plain function of the package, a
variable of a supported type, or a name the modules do not define (builtins such as `len`: every real program has
them; `UndefVarStable P P'`: such a name is not a *variable* in the other edition — remark R2 is the witness that this
cannot be dropped; it may become a function, function digests cover their names). For explicitly versioned functions the user's side of the contract is the
hypothesis `Disciplined P P'`: a function that carries the same explicit version string in both editions
has the same definition in both (nothing is assumed about what lies beneath it: the closure walks through
explicitly versioned functions, so everything beneath is covered by the digests). Hash idealisation: SHA-256 truncated to 16 hex digits is an injective function with
16-character values (`Function.Injective H`, `∀ s, (H s).length = 16`) — hypotheses, not axioms.

The two hypotheses that the proof *forces* mark real collision points of the code, shown below by
witnesses that need no assumption on `H` at all:
* rule hashes are concatenated unframed, so they must have one width: explicit version strings of
  dependencies used to enter verbatim ("1","23" ≡ "12","3": finding K1, repaired by fix F17, see
  `explicit_versions_framed`);
* rules for undefined symbols contribute nothing, and a variable's digest does not include its name
  (`undefined_symbol_collide`, remark R2: needs deleting one variable and defining another).

Extending the theorem to explicitly versioned dependencies exposed a third collision point: the digest of an
explicit version did not cover the *name* of its function, and rule digests are concatenated in key order
without their keys, so `g "1" → h "2" → g` and `g "2" → a "1" → a` (with `a` sorting before the caller) gave
the caller the same version although every edited function had its string changed. A bounded search over the
model found the witness, it was replayed on the real code (finding F23, repaired by a `fix:` commit; the
model follows the fixed code) and is kept as `explicit_digest_without_name_collides` /
`explicit_digest_names_function`.
-/
namespace Memento.Version

/-- **version determines closure.** Two tracked programs in which `f` has the same version bind every
    name of `f`'s closure (its functions and everything they name) to the same definition. -/
theorem version_determines_closure (H : Ser → List Char) (hinj : Function.Injective H)
    (hw : ∀ s, (H s).length = 16) (P P' : Prog) (f : Name) (hT : Tracked P f) (hT' : Tracked P' f)
    (hd : Disciplined P P') (hu : UndefVarStable P P') (hv : version H P id f = version H P' id f) :
    (∀ n, InClos P f n → lookup P' n = lookup P n) ∧ (∀ n, InClos P' f n → lookup P n = lookup P' n) := by
  have h1 : versionInput H P id f = versionInput H P' id f := by
    have := hinj hv
    simpa using this
  have h2 : hashList H P f = hashList H P' f :=
    flatten_inj_uniform (by decide : 0 < 16) _ _ (hashList_width hw hT) (hashList_width hw hT') h1
  have ha : Agree H P P' f := ⟨hinj, hT, hT', hd, hu, h2⟩
  exact ⟨fun n hn => ha.lookup_clos hn, fun n hn => ha.symm.lookup_clos hn⟩

/-- **closure determines meaning** (here directly from the agreement of digests) and hence
    **equal version ⇒ equal meaning**, at every evaluation depth and for every argument. -/
theorem equal_version_equal_meaning (H : Ser → List Char) (hinj : Function.Injective H)
    (hw : ∀ s, (H s).length = 16) (P P' : Prog) (f : Name) (hT : Tracked P f) (hT' : Tracked P' f)
    (hd : Disciplined P P') (hu : UndefVarStable P P') (ord ord' : List Name → List Name) (ho : OrdOK ord) (ho' : OrdOK ord')
    (hv : version H P ord f = version H P' ord' f) (k a : Nat) :
    eval P k f a = eval P' k f a := by
  rw [version_order_independent H P ord id ho ordOK_id, version_order_independent H P' ord' id ho' ordOK_id] at hv
  have h1 : versionInput H P id f = versionInput H P' id f := by
    have := hinj hv
    simpa using this
  have h2 : hashList H P f = hashList H P' f :=
    flatten_inj_uniform (by decide : 0 < 16) _ _ (hashList_width hw hT) (hashList_width hw hT') h1
  exact Agree.eval_eq ⟨hinj, hT, hT', hd, hu, h2⟩ a k f (Or.inl (Or.inl rfl))

/-! ### the store-level statement -/

/-- a persistent store of results, keyed by (function, version, argument) -/
abbrev VStore := List ((Name × List Char × Nat) × Res)

def VStore.get (s : VStore) (key : Name × List Char × Nat) : Option Res :=
  (s.find? (fun e => e.1 == key)).map (·.2)

/-- a history of editions in which explicit versions are used with discipline and no name turns from undefined into a
    variable (or back): any two editions are `Disciplined` and `UndefVarStable` -/
def DisciplinedHistory (E : Prog → Prop) : Prop := ∀ P P', E P → E P' → Disciplined P P' ∧ UndefVarStable P P'

/-- every entry was computed by *some* tracked edition of the history `E` under the version that edition gave
    the function (the store may have been filled by any number of earlier editions, in any order) -/
def FilledByEditions (H : Ser → List Char) (k : Nat) (E : Prog → Prop) (s : VStore) : Prop :=
  ∀ f v a r, ((f, v, a), r) ∈ s → ∃ P ord, E P ∧ OrdOK ord ∧ Tracked P f ∧ version H P ord f = v ∧ r = eval P k f a

/-- what a memoized call of `f a` returns under the current edition `P` -/
def memoCall (H : Ser → List Char) (k : Nat) (s : VStore) (P : Prog) (ord : List Name → List Name) (f a : Name) : Res :=
  match s.get (f, version H P ord f, a) with
  | some r => r
  | none => eval P k f a

/-- **no stale result**: whatever editions filled the store, a memoized call under the current edition returns
    exactly what the un-memoized execution of the current edition returns -/
theorem no_stale (H : Ser → List Char) (hinj : Function.Injective H) (hw : ∀ s, (H s).length = 16)
    (k : Nat) (E : Prog → Prop) (hE : DisciplinedHistory E) (s : VStore) (hs : FilledByEditions H k E s)
    (P : Prog) (hP : E P) (ord : List Name → List Name) (ho : OrdOK ord) (f a : Nat) (hT : Tracked P f) :
    memoCall H k s P ord f a = eval P k f a := by
  unfold memoCall
  cases hg : s.get (f, version H P ord f, a) with
  | none => rfl
  | some r =>
    unfold VStore.get at hg
    cases hf : s.find? (fun e => e.1 == (f, version H P ord f, a)) with
    | none => simp [hf] at hg
    | some e =>
      simp only [hf, Option.map_some, Option.some.injEq] at hg
      have hmem := List.mem_of_find?_eq_some hf
      have hkey : e.1 = (f, version H P ord f, a) := by
        have := List.find?_some hf
        simpa using this
      obtain ⟨⟨f', v', a'⟩, r'⟩ := e
      simp only [Prod.mk.injEq] at hkey
      obtain ⟨rfl, rfl, rfl⟩ := hkey
      simp only at hg
      subst hg
      obtain ⟨P0, ord0, hP0, ho0, hT0, hv0, hr0⟩ := hs _ _ _ _ hmem
      rw [hr0]
      exact equal_version_equal_meaning H hinj hw P0 P f' hT0 hT (hE P0 P hP0 hP).1 (hE P0 P hP0 hP).2 ord0 ord ho0 ho hv0 k a'

/-- the storing side: adding the result the current edition computes keeps the store `FilledByEditions` -/
theorem store_preserves (H : Ser → List Char) (k : Nat) (E : Prog → Prop) (s : VStore) (hs : FilledByEditions H k E s)
    (P : Prog) (hP : E P) (ord : List Name → List Name) (ho : OrdOK ord) (f a : Nat) (hT : Tracked P f) :
    FilledByEditions H k E (((f, version H P ord f, a), eval P k f a) :: s) := by
  intro f' v' a' r' hmem
  rcases List.mem_cons.mp hmem with h | h
  · simp only [Prod.mk.injEq] at h
    obtain ⟨⟨rfl, rfl, rfl⟩, rfl⟩ := h
    exact ⟨P, ord, hP, ho, hT, rfl, rfl⟩
  · exact hs _ _ _ _ h

/-! ### the collision points the hypotheses exclude (for every hash function `H`) -/

/-- K1 (repaired by fix F17): `f` depends on two explicitly versioned functions. Editing both (tokens 20→21, 30→31)
    and changing their version strings from "1","23" to "12","3" left `f`'s version unchanged when the strings entered
    the digest verbatim. With fixed-width digests of the strings the version input differs. -/
def exK1a : Prog := [(0, .memento none 10 [1, 2]), (1, .memento (some ['1']) 20 []), (2, .memento (some ['2', '3']) 30 [])]
def exK1b : Prog := [(0, .memento none 10 [1, 2]), (1, .memento (some ['1', '2']) 21 []), (2, .memento (some ['3']) 31 [])]

theorem explicit_versions_framed :
    versionInput exH exK1a id 0 ≠ versionInput exH exK1b id 0 ∧ eval exK1a 2 0 0 ≠ eval exK1b 2 0 0 := by
  constructor
  · decide +kernel
  · intro h
    simp [eval, exK1a, exK1b, lookup] at h

/-- R2: `f` names `V1` and `V2`; first only `V1 = 5` is defined, then only `V2 = 5`: same version, different meaning. -/
def exR2a : Prog := [(0, .memento none 10 [1, 2]), (1, .var (some 5))]
def exR2b : Prog := [(0, .memento none 10 [1, 2]), (2, .var (some 5))]

theorem undefined_symbol_collide (H : Ser → List Char) :
    version H exR2a id 0 = version H exR2b id 0 ∧ eval exR2a 2 0 0 ≠ eval exR2b 2 0 0 := by
  constructor
  · have : versionInput H exR2a id 0 = versionInput H exR2b id 0 := by rfl
    unfold version; rw [this]
  · intro h
    simp [eval, exR2a, exR2b, lookup] at h

/-- F23 (repaired): names `a = 0 < f = 1 < g = 2 < h = 3`. First edition: `f → g "1" → h "2" → g`; second edition:
    `g` rewritten and bumped, `h` dropped, a new function `a`: `f → g "2" → a "1" → a`. No function keeps a version
    string (so the editions are `Disciplined`), and `f`'s meaning differs. -/
def exF23a : Prog := [(1, .memento none 10 [2]), (2, .memento (some ['1']) 20 [3]), (3, .memento (some ['2']) 30 [2])]
def exF23b : Prog := [(0, .memento (some ['1']) 40 [0]), (1, .memento none 10 [2]), (2, .memento (some ['2']) 21 [0])]

/-- the rule digests as they were before the fix: an explicit version was digested without the function's name -/
def ruleHashUnnamed (H : Ser → List Char) (P : Prog) (x : Node) : Option (List Char) :=
  match x.kind, lookup P x.target with
  | .mfn, some (.memento (some e) _ _) => some (H (.explicit 0 e))
  | _, _ => ruleHash H P x

theorem explicit_digest_without_name_collides (H : Ser → List Char) :
    ((sortedRules exF23a id 1).filterMap (ruleHashUnnamed H exF23a)).flatten =
      ((sortedRules exF23b id 1).filterMap (ruleHashUnnamed H exF23b)).flatten ∧
    Disciplined exF23a exF23b ∧ eval exF23a 3 1 0 ≠ eval exF23b 3 1 0 := by
  refine ⟨?_, ?_, ?_⟩
  · have ha : sortedRules exF23a id 1 = [⟨.mfn, none, 1⟩, ⟨.mfn, some 1, 2⟩, ⟨.mfn, some 2, 3⟩, ⟨.mfn, some 3, 2⟩] := by
      decide +kernel
    have hb : sortedRules exF23b id 1 = [⟨.mfn, none, 1⟩, ⟨.mfn, some 0, 0⟩, ⟨.mfn, some 1, 2⟩, ⟨.mfn, some 2, 0⟩] := by
      decide +kernel
    rw [ha, hb]
    simp [ruleHashUnnamed, ruleHash, exF23a, exF23b, lookup]
  · intro g e tok refs tok' refs' h1 h2
    have hg : g = 2 := by
      by_cases h0 : g = 0
      · subst h0; simp [exF23a, lookup] at h1
      · by_cases h1' : g = 1
        · subst h1'; simp [exF23a, lookup] at h1
        · by_cases h2' : g = 2
          · exact h2'
          · by_cases h3 : g = 3
            · subst h3; simp [exF23b, lookup] at h2
            · simp [exF23a, lookup, h1', h2', h3, Ne.symm h1', Ne.symm h2', Ne.symm h3] at h1
    subst hg
    simp [exF23a, lookup] at h1
    simp [exF23b, lookup] at h2
    obtain ⟨e1, _, _⟩ := h1
    obtain ⟨e2, _, _⟩ := h2
    rw [← e1] at e2; simp at e2
  · intro h
    simp [eval, exF23a, exF23b, lookup] at h

/-- with the name covered by the digest (the code as fixed) the two editions have different version inputs -/
theorem explicit_digest_names_function : versionInput exH exF23a id 1 ≠ versionInput exH exF23b id 1 := by
  decide +kernel

/-! ### non-vacuity of the hypotheses -/

def exT : Prog :=
  [(0, .memento none 10 [1, 3, 5]), (1, .plain true 11 [2, 5]), (2, .memento none 12 [0]), (3, .plain true 13 []),
   (5, .var (some 7))]

theorem reachN_names {P : Prog} {f g : Name} (h : ReachN P f g) : g ∈ names P := by
  obtain ⟨p, _, d, hd, hr⟩ := reachN_last h
  exact refs_mem_names hd hr

/-- a cyclic program with a helper and a variable is tracked -/
example : Tracked exT 0 := by
  refine ⟨⟨10, [1, 3, 5], rfl⟩, ?_⟩
  intro p r _ href
  obtain ⟨d, hd, hr⟩ := href
  have hp := lookup_some_mem hd
  simp only [exT, List.mem_cons, Prod.mk.injEq, List.not_mem_nil, or_false] at hp
  rcases hp with ⟨rfl, rfl⟩ | ⟨rfl, rfl⟩ | ⟨rfl, rfl⟩ | ⟨rfl, rfl⟩ | ⟨rfl, rfl⟩ <;>
    simp only [Def.refs, List.mem_cons, List.not_mem_nil, or_false] at hr
  · rcases hr with rfl | rfl | rfl
    · exact Or.inr (Or.inl ⟨11, [2, 5], rfl⟩)
    · exact Or.inr (Or.inl ⟨13, [], rfl⟩)
    · exact Or.inr (Or.inr (Or.inl ⟨7, rfl⟩))
  · rcases hr with rfl | rfl
    · exact Or.inl ⟨none, 12, [0], rfl⟩
    · exact Or.inr (Or.inr (Or.inl ⟨7, rfl⟩))
  · subst hr; exact Or.inl ⟨none, 10, [1, 3, 5], rfl⟩

/-- an edit beneath a helper changes the version input (so, for injective `H`, the version) -/
def exT' : Prog :=
  [(0, .memento none 10 [1, 3, 5]), (1, .plain true 11 [2, 5]), (2, .memento none 12 [0]), (3, .plain true 13 []),
   (5, .var (some 8))]
example : versionInput exH exT id 0 ≠ versionInput exH exT' id 0 := by decide +kernel

/-- the hypotheses about explicit versions are satisfiable: `f → g "1" → V`, then `g` edited and bumped to "2" -/
def exTE : Prog := [(0, .memento none 10 [1]), (1, .memento (some ['1']) 20 [5]), (5, .var (some 7))]
def exTE' : Prog := [(0, .memento none 10 [1]), (1, .memento (some ['2']) 21 [5]), (5, .var (some 7))]

theorem exTE_tracked (g : Tok) (e : List Char) :
    Tracked [(0, .memento none 10 [1]), (1, .memento (some e) g [5]), (5, .var (some 7))] 0 := by
  refine ⟨⟨10, [1], rfl⟩, ?_⟩
  intro p r _ href
  obtain ⟨d, hd, hr⟩ := href
  have hp := lookup_some_mem hd
  simp only [List.mem_cons, Prod.mk.injEq, List.not_mem_nil, or_false] at hp
  rcases hp with ⟨rfl, rfl⟩ | ⟨rfl, rfl⟩ | ⟨rfl, rfl⟩ <;>
    simp only [Def.refs, List.mem_cons, List.not_mem_nil, or_false] at hr
  · subst hr; exact Or.inl ⟨some e, g, [5], rfl⟩
  · subst hr; exact Or.inr (Or.inr (Or.inl ⟨7, rfl⟩))

example : Tracked exTE 0 ∧ Tracked exTE' 0 := ⟨exTE_tracked 20 ['1'], exTE_tracked 21 ['2']⟩

example : Disciplined exTE exTE' := by
  intro g e tok refs tok' refs' h1 h2
  by_cases hg : g = 1
  · subst hg
    simp [exTE, lookup] at h1
    simp [exTE', lookup] at h2
    obtain ⟨e1, _, _⟩ := h1
    obtain ⟨e2, _, _⟩ := h2
    rw [← e1] at e2; simp at e2
  · by_cases h0 : g = 0
    · subst h0; simp [exTE, lookup] at h1
    · by_cases h5 : g = 5
      · subst h5; simp [exTE, lookup] at h1
      · simp [exTE, lookup, Ne.symm hg, Ne.symm h0, Ne.symm h5] at h1

example : versionInput exH exTE id 0 ≠ versionInput exH exTE' id 0 := by decide +kernel

/-- a program that uses a builtin (name 9 is not defined by the modules) is tracked -/
def exTB : Prog := [(0, .memento none 10 [9, 5]), (5, .var (some 7))]

example : Tracked exTB 0 := by
  refine ⟨⟨10, [9, 5], rfl⟩, ?_⟩
  intro p r _ href
  obtain ⟨d, hd, hr⟩ := href
  have hp := lookup_some_mem hd
  simp only [exTB, List.mem_cons, Prod.mk.injEq, List.not_mem_nil, or_false] at hp
  rcases hp with ⟨rfl, rfl⟩ | ⟨rfl, rfl⟩ <;>
    simp only [Def.refs, List.mem_cons, List.not_mem_nil, or_false] at hr
  rcases hr with rfl | rfl
  · exact Or.inr (Or.inr (Or.inr rfl))
  · exact Or.inr (Or.inr (Or.inl ⟨7, rfl⟩))

/-- R2's two editions are exactly what `UndefVarStable` excludes -/
example : ¬ UndefVarStable exR2a exR2b := by
  intro h
  exact (h 2).1 rfl 5 rfl

end Memento.Version
