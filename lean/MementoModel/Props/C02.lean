import MementoModel.Lemmas.RunnerReent
import MementoModel.Lemmas.RunnerProgLemmas

/-!
# C02 — memoization is transparent: same outcome, body runs once per distinct call

On `Model/Runner.lean`, for **all** programs (arbitrary interaction trees), stores and histories.
Exceptions compare up to `replay` (an exception that cannot be rebuilt from its message is replayed
as the framework's memoized-exception type).
Calls under `with_prevent_further_calls` are C16's (their RuntimeError is recorded under the
ordinary key, so they are excluded here by `NoPrevent` / `fl.prevent = false`).
-/
namespace Memento.Runner

/-- replay keeps the class when it can be rebuilt from the message, otherwise gives the memoized-exception type;
    the original message is preserved -/
theorem replay_class (c m : Nat) :
    replay (.exc c m) = .exc (if c = clsOpaque then clsMemento else c) m ∧
    (∀ v, replay (.val v) = .val v) ∧ replay (replay (.exc c m)) = replay (.exc c m) :=
  ⟨rfl, fun _ => rfl, replay_replay _⟩

/-- more fuel never changes a result -/
theorem run_mono (P : Prog) (n : Nat) (s : St) (c : Option Frame) (fn : Fn) (args : List Val) (ctx : CtxSpec) (fl : Flags)
    (r : BatchResult) (h : run P n s c fn args ctx fl = some r) : run P (n + 1) s c fn args ctx fl = some r :=
  run_mono_succ P n h

/-- **transparency**: from any sound store, a memoized call returns what the un-memoized execution of the
    same program returns (value, or exception up to `replay`), and leaves a sound store -/
theorem run_transparent (P : Prog) (hw : WellBehaved P) (hp : NoPrevent P) (n : Nat) (s s' : St) (fn : Fn) (arg : Val)
    (ctx : CtxSpec) (fl : Flags) (hfl : fl.prevent = false) (o : Outcome) (hs : Sound P s)
    (h : callTop P n s fn arg ctx fl = some (s', o)) :
    (∃ m o', pureCall P m fn arg ctx fl = some o' ∧ Outcome.sim o o') ∧ Sound P s' := by
  unfold callTop at h
  split at h
  · rename_i s1 o1 recs hrun
    cases h
    obtain ⟨hs', m, sd', res', recs', e, hres, _⟩ := sim_top hw hp hs hfl hrun
    obtain ⟨o', rfl, ho⟩ := hres.ok_single_inv
    refine ⟨⟨m, o', ?_, ho⟩, hs'⟩
    unfold pureCall callTop
    rw [show ({ store := [], trace := [], enabled := false } : St) = emp from rfl, e]
    rfl
  · rename_i s1 e1 recs hrun
    cases h
    obtain ⟨hs', m, sd', res', recs', e, hres, _⟩ := sim_top hw hp hs hfl hrun
    obtain ⟨o', rfl, ho⟩ := hres.error_inv
    refine ⟨⟨m, o', ?_, ho⟩, hs'⟩
    unfold pureCall callTop
    rw [show ({ store := [], trace := [], enabled := false } : St) = emp from rfl, e]
    rfl
  · cases h

/-- a memoized call does not run any body and does not change the store -/
theorem memoized_call_executes_nothing (P : Prog) (n : Nat) (s : St) (fn : Fn) (arg : Val) (c : Ctx) (fl : Flags) (r : Rec)
    (hr : s.get ⟨fn, arg, c⟩ = some r) :
    callTop P (n + 1) s fn arg (.set c) fl = some (s, serve r fl) := by
  rw [callTop_succ]
  show (match s.get ⟨fn, arg, c⟩ with | some r => some (s, serve r fl) | none => _) = _
  rw [hr]

/-- the call `k` is not re-entrant in the execution from `s` to `s'`: its body was not entered a second
    time while it was running (a re-entrant call of a key that is not yet stored is an unbounded recursion
    in every ordinary program; it can terminate only through tricks such as the inner call being made
    under `with_prevent_further_calls` — see the counterexamples below) -/
def NotReentrant (s s' : St) (k : Key) : Prop := ∀ rest, s'.trace = s.trace ++ (k :: rest) → k ∉ rest

private theorem deliver_nonMemo {fl : Flags} {ob : Outcome} {m : Nat} (h : deliver fl ob = .exc clsNonMemoized m) :
    ob = .exc clsNonMemoized m := by
  cases ob with
  | exc c m' => exact h
  | val v => simp only [deliver] at h; split at h <;> cases h

/-- exceptions marked as not-to-be-memoized are never recorded; every other outcome of a computed call is.

    STATEMENT ADJUSTED. Original:
    `((∃ m, o = .exc clsNonMemoized m) → s'.get ⟨fn, arg, c⟩ = none) ∧`
    `((∀ m, o ≠ .exc clsNonMemoized m) → (∀ m, o ≠ .exc clsUndeclared m ∨ True) → (s'.get ⟨fn, arg, c⟩).isSome)`.
    (1) the vacuous hypothesis `∀ m, o ≠ .exc clsUndeclared m ∨ True` was dropped;
    (2) the first half needs `NotReentrant s s' k`: if the body re-enters its own key `k` (inner call),
        the inner execution may return normally and be recorded although the outer one raises the
        not-to-be-memoized exception — counterexample `reentrantP` below (the inner call is made with
        `with_prevent_further_calls(True)`, so *its* nested call fails and it takes the other branch). -/
theorem recorded_iff_memoizable (P : Prog) (n : Nat) (s s' : St) (fn : Fn) (arg : Val) (c : Ctx) (fl : Flags) (o : Outcome)
    (he : s.enabled = true) (hn : s.get ⟨fn, arg, c⟩ = none)
    (h : callTop P n s fn arg (.set c) fl = some (s', o)) :
    ((∃ m, o = .exc clsNonMemoized m) → NotReentrant s s' ⟨fn, arg, c⟩ → s'.get ⟨fn, arg, c⟩ = none) ∧
    ((∀ m, o ≠ .exc clsNonMemoized m) → (s'.get ⟨fn, arg, c⟩).isSome) := by
  obtain ⟨s1, ob, fr1, rest, ho, hs, ht, hen, hf⟩ := callTop_miss_spec (ctx := .set c) hn h
  change s' = storeAfter s1 ⟨fn, arg, c⟩ ob (mkRec ⟨fn, arg, c⟩ ob fr1) at hs
  change s'.trace = s.trace ++ (⟨fn, arg, c⟩ :: rest) at ht
  constructor
  · rintro ⟨m, hm⟩ hre
    have hob := deliver_nonMemo (ho.symm.trans hm)
    have : storeAfter s1 ⟨fn, arg, c⟩ ob (mkRec ⟨fn, arg, c⟩ ob fr1) = s1 := by
      simp [storeAfter, hob, isNonMemo]
    rw [hs, this, hf _ (hre rest ht)]; exact hn
  · intro hm
    have hnm : isNonMemo ob = false := by
      cases ob with
      | val v => rfl
      | exc c' m' =>
        simp only [isNonMemo, beq_eq_false_iff_ne]
        intro hc
        exact hm m' (by rw [ho, hc]; rfl)
    rw [hs]
    unfold storeAfter
    rw [hnm]
    cases hg : s1.get ⟨fn, arg, c⟩ with
    | some r0 => simp [hg]
    | none => simp [St.get_put_self (hen.trans he)]

/-- "the first call runs the body exactly once and every later call … without running the body again":
    an immediately repeated call executes nothing and returns the replayed outcome.

    STATEMENT ADJUSTED: needs `NotReentrant s s' k` (see `recorded_iff_memoizable`): if the body re-enters its
    own key, the store keeps the record of the *inner* execution, whose outcome may differ from what the outer
    execution returned — counterexample `reentrantP'` below. -/
theorem repeat_executes_nothing (P : Prog) (n : Nat) (s s' : St) (fn : Fn) (arg : Val) (c : Ctx) (o : Outcome)
    (he : s.enabled = true) (h : callTop P n s fn arg (.set c) {} = some (s', o)) (hm : ∀ m, o ≠ .exc clsNonMemoized m)
    (hre : NotReentrant s s' ⟨fn, arg, c⟩) :
    ∃ o2, callTop P (n + 1) s' fn arg (.set c) {} = some (s', o2) ∧ Outcome.sim o2 o := by
  cases hn : s.get ⟨fn, arg, c⟩ with
  | some r =>
    cases n with
    | zero => rw [callTop_zero] at h; cases h
    | succ n' =>
      rw [memoized_call_executes_nothing P n' s fn arg c {} r hn] at h
      cases h
      exact ⟨_, memoized_call_executes_nothing P _ s fn arg c {} r hn, rfl⟩
  | none =>
    obtain ⟨s1, ob, fr1, rest, ho, hs, ht, hen, hf⟩ := callTop_miss_spec (ctx := .set c) hn h
    change s' = storeAfter s1 ⟨fn, arg, c⟩ ob (mkRec ⟨fn, arg, c⟩ ob fr1) at hs
    change s'.trace = s.trace ++ (⟨fn, arg, c⟩ :: rest) at ht
    have ho' : o = ob := by rw [ho]; cases ob <;> rfl
    subst ho'
    have hnm : isNonMemo o = false := by
      cases o with
      | val v => rfl
      | exc c' m' =>
        simp only [isNonMemo, beq_eq_false_iff_ne]
        intro hc
        exact hm m' (by rw [hc])
    have hg : s1.get ⟨fn, arg, c⟩ = none := by rw [hf _ (hre rest ht)]; exact hn
    have hs' : s'.get ⟨fn, arg, c⟩ = some (mkRec ⟨fn, arg, c⟩ o fr1) := by
      rw [hs]; unfold storeAfter
      simp [hnm, hg, St.get_put_self (hen.trans he)]
    refine ⟨_, memoized_call_executes_nothing P n s' fn arg c {} _ hs', ?_⟩
    simp only [serve, mkRec, Bool.false_and]
    exact Outcome.sim_replay o

/-- `NotReentrant` is not a restriction in the regime of `run_transparent`: for a well-behaved program without
    prevented nested calls, on a sound store, a terminating call never re-enters its own key (a re-entrance would
    give an infinite descent of fuels at which the un-memoized execution of the key terminates) -/
theorem not_reentrant (P : Prog) (hw : WellBehaved P) (hp : NoPrevent P) (n : Nat) (s s' : St) (fn : Fn) (arg : Val)
    (c : Ctx) (fl : Flags) (hfl : fl.prevent = false) (o : Outcome) (hs : Sound P s)
    (h : callTop P n s fn arg (.set c) fl = some (s', o)) : NotReentrant s s' ⟨fn, arg, c⟩ :=
  fun rest ht => not_reentrant_top hw hp hs hfl h rest ht

/-- hence, in that regime, the original statements hold as they were written -/
theorem recorded_iff_memoizable_sound (P : Prog) (hw : WellBehaved P) (hp : NoPrevent P) (n : Nat) (s s' : St) (fn : Fn)
    (arg : Val) (c : Ctx) (fl : Flags) (hfl : fl.prevent = false) (o : Outcome) (hs : Sound P s)
    (hn : s.get ⟨fn, arg, c⟩ = none) (h : callTop P n s fn arg (.set c) fl = some (s', o)) :
    ((∃ m, o = .exc clsNonMemoized m) → s'.get ⟨fn, arg, c⟩ = none) ∧
    ((∀ m, o ≠ .exc clsNonMemoized m) → (s'.get ⟨fn, arg, c⟩).isSome) :=
  have hr := recorded_iff_memoizable P n s s' fn arg c fl o hs.1 hn h
  ⟨fun hm => hr.1 hm (not_reentrant P hw hp n s s' fn arg c fl hfl o hs h), hr.2⟩

theorem repeat_executes_nothing_sound (P : Prog) (hw : WellBehaved P) (hp : NoPrevent P) (n : Nat) (s s' : St) (fn : Fn)
    (arg : Val) (c : Ctx) (o : Outcome) (hs : Sound P s) (h : callTop P n s fn arg (.set c) {} = some (s', o))
    (hm : ∀ m, o ≠ .exc clsNonMemoized m) :
    ∃ o2, callTop P (n + 1) s' fn arg (.set c) {} = some (s', o2) ∧ Outcome.sim o2 o :=
  repeat_executes_nothing P n s s' fn arg c o hs.1 h hm (not_reentrant P hw hp n s s' fn arg c {} rfl o hs h)

/-- the body of a call that was not memoized runs: its key is the first new entry of the execution trace -/
theorem unmemoized_call_executes (P : Prog) (n : Nat) (s s' : St) (fn : Fn) (arg : Val) (c : Ctx) (fl : Flags) (o : Outcome)
    (hn : s.get ⟨fn, arg, c⟩ = none) (h : callTop P n s fn arg (.set c) fl = some (s', o)) :
    ∃ rest, s'.trace = s.trace ++ (⟨fn, arg, c⟩ :: rest) := by
  obtain ⟨_, _, _, rest, _, _, ht, _, _⟩ := callTop_miss_spec (ctx := .set c) hn h
  exact ⟨rest, ht⟩

/-- "forgetting a call makes exactly that call run again": after `forget k` the key is absent (so by
    `unmemoized_call_executes` it runs), every other entry is untouched -/
theorem forget_exact (s : St) (k k' : Key) :
    (forget s k).get k = none ∧ (k' ≠ k → (forget s k).get k' = s.get k') :=
  ⟨forget_get_self s k, fun h => forget_get_ne s h⟩

/-! counterexamples to the original `recorded_iff_memoizable` / `repeat_executes_nothing` (without `NotReentrant`):
    `f(0)` calls `f(0)` under `with_prevent_further_calls(True)`; the inner execution's own nested call is
    refused (RuntimeError), so it takes the other branch, returns `5` and is recorded; the outer execution
    sees the value and raises the not-to-be-memoized exception (resp. returns `7`). -/
private def reentrantBody (final : Outcome) : Body :=
  .call 1 0 .inherit ⟨false, true⟩ (fun o => match o with
    | .exc _ _ => .ret (.val (some 5))
    | .val _ => .ret final)
private def reentrantP : Prog := ⟨fun _ _ => reentrantBody (.exc clsNonMemoized 0), fun _ => true, fun _ _ => true⟩
private def reentrantP' : Prog := ⟨fun _ _ => reentrantBody (.val (some 7)), fun _ => true, fun _ _ => true⟩

example : (callTop reentrantP 3 { store := [], trace := [] } 1 0 (.set 0) {}).map
      (fun x => (x.2, (x.1.get ⟨1, 0, 0⟩).map (·.out), x.1.trace)) =
    some (.exc clsNonMemoized 0, some (.val (some 5)), [⟨1, 0, 0⟩, ⟨1, 0, 0⟩]) := by decide
example : ((callTop reentrantP' 3 { store := [], trace := [] } 1 0 (.set 0) {}).bind
      (fun x => (callTop reentrantP' 4 x.1 1 0 (.set 0) {}).map (fun y => (x.2, y.2)))) =
    some (.val (some 7), .val (some 5)) := by decide

/-! non-vacuity: f2 calls f1 twice (second one caught), f1 raises an opaque exception on odd arguments -/
private def demoDefs : List (Fn × FnDef) :=
  [(1, ⟨[], 2, 1, clsOpaque, 5, 10, false⟩),
   (2, ⟨[.call 1 0 .inherit {} true (0, 0), .call 1 1 .inherit {} true (0, 0), .resource 7], 0, 0, 0, 0, 1, false⟩)]
private def demoP : Prog := progOf demoDefs [(2, 1)]
private def s0 : St := { store := [], trace := [] }

example : (callTop demoP 5 s0 2 0 .inherit {}).map (·.2) = some (.val (some (-998))) := by decide
example : ((callTop demoP 5 s0 2 0 .inherit {}).map (·.1.trace)) = some [⟨2, 0, 0⟩, ⟨1, 0, 0⟩, ⟨1, 1, 0⟩] := by decide
example : pureCall demoP 5 2 0 .inherit {} = some (.val (some (-998))) := by decide
/-! the hypotheses of `run_transparent` hold for it (as for every `progOf` program without prevent flags, from the empty store) -/
example : WellBehaved demoP := wellBehaved_progOf _ _
example : NoPrevent demoP := noPrevent_progOf _ _ (by decide)
example : Sound demoP s0 := Sound.empty _ _

end Memento.Runner
