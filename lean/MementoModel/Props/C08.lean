import MementoModel.Lemmas.StoreLemmas
import MementoModel.Model.Crash
import MementoModel.Lemmas.CrashInv
import MementoModel.Lemmas.CrashLemmas

/-!
# C08 — a crash or I/O fault at any point of a write never poisons the filesystem store

Over the primitive-level model `Model/Crash.lean`: `variant d ps n torn` is the store after the
first `n` primitives of a `memoize`, optionally followed by a torn (half-written) execution of the
next one. This covers: crash before any primitive, crash in the middle of any file write, and an
I/O error raised at any primitive or in the middle of any file write (the exception aborts the rest
of `memoize`; the runner swallows it). The statements quantify over **every** store satisfying the
crash-closed invariant `CrashWF`, every request, every `n` and both values of `torn` — so they apply
to any number of successive crashes.
-/
set_option linter.unusedVariables false
namespace Memento.Store

/-! The invariant `CrashWF`, `Sem`, `Sound` and `Request.correct` are defined in
`Lemmas/CrashInv.lean` (so that the lemma files can use them); they are restated here.

`CrashWF d` — the invariant that survives crashes (weaker than `DSWF`: orphan and torn version files
may exist, a content link may dangle). -/

theorem crashWF_iff (d : DS) : CrashWF d ↔
    (∀ p ∈ d.objs, p.1.2 < d.next) ∧
    (∀ p ∈ d.links, p.2 < d.next) ∧
    -- a memento link always names a complete memento document whose content key (if any) names a
    -- complete blob in the data area
    (∀ fn arg v, alookup d.links (.memento fn arg) = some v →
      ∃ m ck, alookup d.objs (.memento fn arg, v) = some (.mrec m ck) ∧
        (ck = none ∨ ∃ k ver b, ck = some (k, ver) ∧ k.isMetaArea = false ∧ alookup d.objs (k, ver) = some (.blob b))) ∧
    -- the version file a content link names, if it exists, is a complete blob holding the bytes of its key
    (∀ h v c, alookup d.links (.content h) = some v → alookup d.objs (.content h, v) = some c → c = .blob h) :=
  ⟨fun h => ⟨h.objFresh, h.linkFresh, h.mementoOk, h.contentOk⟩, fun ⟨a, b, c, e⟩ => ⟨a, b, c, e⟩⟩

/-- what the functions compute: `Sem := Fn → Arg → Option Bytes`; every result the store would
    serve is the right one -/
theorem sound_iff (F : Sem) (d : DS) :
    Sound F d ↔ ∀ fn arg v, callOutcome d fn arg = .served v → v = F fn arg := Iff.rfl

/-- the request memoizes the right result -/
theorem correct_iff (F : Sem) (r : Request) : r.correct F ↔ r.blobs.getLast? = F r.fn r.arg := Iff.rfl

/-! **Change to the invariant as first stated.**  The last field of `CrashWF` used to read
```
  contentOk : ∀ h v, alookup d.links (.content h) = some v → alookup d.objs (.content h, v) = some (.blob h)
```
("a content link always names a complete blob").  With that field `crashwf_of_dswf` is *false*:
`DSWF` does not forbid a content link whose version file is missing (it only says that content
*objects* are linked, `DSWF.contentLinked`).  Counterexample below.  A dangling content link is
harmless — `exists_nonversioned` tests the link *and* the file, so dedup never trusts it — and the
field now only constrains the file when it exists.  Everything else is as first stated. -/

private def danglingContent : DS := ⟨[], [(.content 5, 0)], 1⟩

example : DSWF danglingContent ∧
    ¬ (∀ h v, alookup danglingContent.links (.content h) = some v →
        alookup danglingContent.objs (.content h, v) = some (.blob h)) := by
  refine ⟨?_, ?_⟩
  · refine ⟨?_, ?_, ?_, ?_, ?_, ?_, ?_, ?_, ?_, ?_⟩ <;>
      simp [danglingContent, alookup_cons, alookup_nil]
  · intro hall
    have := hall 5 0 (by decide)
    revert this
    decide

theorem crashwf_empty : CrashWF DS.empty := by
  refine ⟨?_, ?_, ?_, ?_⟩ <;> simp [DS.empty, alookup_nil]

/-- the fault-free store invariant implies the crash-closed one -/
theorem crashwf_of_dswf (d : DS) (h : DSWF d) : CrashWF d := by
  exact ⟨h.objFresh, h.linkFresh, h.mementoOk, fun hh v c _ ho => h.contentOk hh v c ho⟩

/-- **closure**: every variant of a memoize on a crash-well-formed store is crash-well-formed -/
theorem variant_crashwf (d : DS) (r : Request) (n : Nat) (torn : Bool) (h : CrashWF d) :
    CrashWF (variant d (memoizePrims d r) n torn) := by
  have hok : AllOk (fun _ _ => r.blobs.getLast?) d (memoizePrims d r) := memoizePrims_allOk h r rfl
  exact (variant_inv _ d n torn h hok).1

/-- (1a) "raises nothing": on a crash-well-formed store no call ever sees a torn document -/
theorem crashwf_never_raises (d : DS) (h : CrashWF d) (fn : Fn) (arg : Arg) :
    callOutcome d fn arg ≠ .raised := by
  exact crashwf_never_raises' h fn arg

/-- (1b) "still returns the correct value": soundness is preserved by every variant -/
theorem variant_sound (F : Sem) (d : DS) (r : Request) (n : Nat) (torn : Bool)
    (h : CrashWF d) (hs : Sound F d) (hr : r.correct F) :
    Sound F (variant d (memoizePrims d r) n torn) := by
  exact (variant_inv _ d n torn h (memoizePrims_allOk h r hr)).2 hs

/-- frame: a variant of memoizing one call does not change what any *other* call sees -/
theorem variant_frame (d : DS) (r : Request) (n : Nat) (torn : Bool) (h : CrashWF d)
    (fn : Fn) (arg : Arg) (hne : (fn, arg) ≠ (r.fn, r.arg)) :
    callOutcome (variant d (memoizePrims d r) n torn) fn arg = callOutcome d fn arg := by
  have hok : AllOk (fun _ _ => r.blobs.getLast?) d (memoizePrims d r) := memoizePrims_allOk h r rfl
  exact variant_frame_gen fn arg _ d n torn h hok (memoizePrims_linkKeys h r fn arg hne)

/-- (2) recovery: once a later write completes, the call is served from the store — whatever
    damage earlier crashes left behind -/
theorem complete_write_recovers (d : DS) (r : Request) (h : CrashWF d) :
    let ps := memoizePrims d r
    callOutcome (variant d ps ps.length false) r.fn r.arg = .served r.blobs.getLast? := by
  intro ps
  rw [variant_length]
  exact memoizePrims_complete h r

/-- all of it, for any number of successive crashed / faulted memoize attempts -/
def crashes (d : DS) : List (Request × Nat × Bool) → DS
  | [] => d
  | (r, n, torn) :: rest => crashes (variant d (memoizePrims d r) n torn) rest

theorem crash_safe (F : Sem) (hist : List (Request × Nat × Bool))
    (hr : ∀ x ∈ hist, x.1.correct F) (fn : Fn) (arg : Arg) :
    let d := crashes DS.empty hist
    callOutcome d fn arg ≠ .raised ∧ (∀ v, callOutcome d fn arg = .served v → v = F fn arg) := by
  suffices H : ∀ (hist : List (Request × Nat × Bool)) (d : DS), CrashWF d → Sound F d →
      (∀ x ∈ hist, x.1.correct F) → CrashWF (crashes d hist) ∧ Sound F (crashes d hist) by
    intro d
    obtain ⟨h1, h2⟩ := H hist DS.empty crashwf_empty (by intro fn arg v hv; cases hv) hr
    exact ⟨crashwf_never_raises _ h1 fn arg, h2 fn arg⟩
  intro hist
  induction hist with
  | nil => intro d h hs _; exact ⟨h, hs⟩
  | cons x hist ih =>
    intro d h hs hr
    obtain ⟨r, n, torn⟩ := x
    have hrc : r.correct F := hr _ List.mem_cons_self
    exact ih _ (variant_crashwf d r n torn h) (variant_sound F d r n torn h hs hrc)
      (fun y hy => hr y (List.mem_cons_of_mem _ hy))

/-- tie to the atomic model of C05: the complete primitive sequence of a single-blob request is
    `FsBackend.step … memoize` on the object store (no cache) -/
theorem memoizePrims_complete_eq_step (s : FsBackend) (h : WF s) (hc : s.cache = none)
    (fn arg ov mem : Nat) (val : Option Bytes) (sz : Nat) (wr : Bool) :
    let r : Request := ⟨fn, arg, ov, mem, val.toList⟩
    let d' := variant s.ds (memoizePrims s.ds r) (memoizePrims s.ds r).length false
    d'.objs = (FsBackend.step s (.memoize fn arg ov mem val sz wr)).1.ds.objs ∧
    d'.links = (FsBackend.step s (.memoize fn arg ov mem val sz wr)).1.ds.links := by
  intro r d'
  have hv : d' = (memoizePrims s.ds r).foldl Prim.apply s.ds := variant_length _ _
  rw [hv, step_memoize s h.writable]
  exact memoizePrims_foldl_eq s.ds fn arg ov mem val

/-! ## A failed write and the write-through cache (fix F26)

`StorageBackendBase.memoize` puts the result in the memory cache first and then writes. When the write does not go through
(an I/O error after the first `n` primitives, possibly in the middle of a file), the entry is taken back: otherwise the cache
— for a result larger than its budget that the caller still holds, its weak reference alone — would go on reporting the call
as memoized, `memento_run_local` would skip the write on every later call and the body would run again and again. -/

/-- the backend after a `memoize` whose write failed after `n` primitives (`torn`: in the middle of the next file) -/
def FsBackend.memoizeFaulted (s : FsBackend) (fn arg : Nat) (ov : Option Nat) (mem : Nat) (val : Option Bytes) (size : Nat)
    (wr : Bool) (n : Nat) (torn : Bool) : FsBackend :=
  let s1 := FsBackend.cachePut s fn arg mem val size wr true
  let s2 := FsBackend.mapCache s1 (fun c => Cache.forgetCall c (FsBackend.ckey fn arg))
  let r : Request := ⟨fn, arg, ov, mem, val.toList⟩
  { s2 with ds := variant s.ds (memoizePrims s.ds r) n torn }

theorem hasKey_false_of_forall {c : List (Cache.Key × Cache.Entry)} {k : Cache.Key} (h : ∀ p ∈ c, p.1 ≠ k) :
    Cache.hasKey c k = false := by
  cases hk : Cache.hasKey c k with
  | false => rfl
  | true =>
    obtain ⟨p, hp, hpk⟩ := List.any_eq_true.mp hk
    exact absurd (by simpa using hpk) (h p hp)

theorem refLookup_none_of_forall {r : List (Cache.Key × Nat)} {k : Cache.Key} (h : ∀ p ∈ r, p.1 ≠ k) :
    Cache.refLookup r k = none := by
  cases hk : Cache.refLookup r k with
  | none => rfl
  | some v => exact absurd rfl (h _ (Cache.refLookup_mem hk))

/-- **after a failed write the cache claims nothing about the call**: no entry and no weak reference for it, whatever was
    resident before, whatever the result's size and kind, at whichever primitive the write failed -/
theorem faulted_memoize_leaves_no_claim (s : FsBackend) (fn arg : Nat) (ov : Option Nat) (mem : Nat) (val : Option Bytes)
    (size : Nat) (wr : Bool) (n : Nat) (torn : Bool) :
    match (FsBackend.memoizeFaulted s fn arg ov mem val size wr n torn).cache with
    | none => True
    | some c => Cache.hasKey c.cache (FsBackend.ckey fn arg) = false ∧ Cache.refLookup c.refs (FsBackend.ckey fn arg) = none := by
  unfold FsBackend.memoizeFaulted FsBackend.mapCache FsBackend.cachePut
  cases hc : s.cache with
  | none => simp [hc]
  | some c0 =>
    simp only [hc, Option.map_some]
    generalize Cache.prune (Cache.put c0 (FsBackend.ckey fn arg) mem (FsBackend.objId val 0) size wr true none) = c1
    have hm := Cache.mem_forgetCall (s := c1) (k := FsBackend.ckey fn arg)
    refine ⟨hasKey_false_of_forall (fun p hp => (hm.1 p hp).2), refLookup_none_of_forall (fun p hp => ?_)⟩
    exact (hm.2 p (Cache.mem_prune_refs hp)).2

/-- … so whether the call is memoized is again what the store says, and the runner writes again as soon as it can -/
theorem faulted_memoize_asks_the_store (s : FsBackend) (fn arg : Nat) (ov : Option Nat) (mem : Nat) (val : Option Bytes)
    (size : Nat) (wr : Bool) (n : Nat) (torn : Bool) :
    let s' := FsBackend.memoizeFaulted s fn arg ov mem val size wr n torn
    (FsBackend.isMemoized s' fn arg).2 = s'.ds.existsNV (.memento fn arg) := by
  intro s'
  have h := faulted_memoize_leaves_no_claim s fn arg ov mem val size wr n torn
  unfold FsBackend.isMemoized
  cases hc : s'.cache with
  | none => rfl
  | some c =>
    have h' : Cache.hasKey c.cache (FsBackend.ckey fn arg) = false ∧ Cache.refLookup c.refs (FsBackend.ckey fn arg) = none := by
      have := h; simp only [show (FsBackend.memoizeFaulted s fn arg ov mem val size wr n torn).cache = some c from hc] at this; exact this
    simp only [Cache.isMemoized, h'.1, h'.2, Bool.false_eq_true, if_false, Option.isSome_none]

/-- the code before the fix: the write-through entry stays -/
def FsBackend.memoizeFaultedUnfixed (s : FsBackend) (fn arg : Nat) (ov : Option Nat) (mem : Nat) (val : Option Bytes) (size : Nat)
    (wr : Bool) (n : Nat) (torn : Bool) : FsBackend :=
  { FsBackend.cachePut s fn arg mem val size wr true with
    ds := variant s.ds (memoizePrims s.ds ⟨fn, arg, ov, mem, val.toList⟩) n torn }

/-- witness of F26: a 10-byte cache, a weak-referenceable result of 400 bytes that the caller holds, the write fails at the
    first primitive: without taking the entry back the backend says "memoized" although the store has nothing; with it the
    answer is the store's -/
private def heldS : FsBackend := (FsBackend.step (FsBackend.init false (some 10)) (.hold 3)).1
example : (FsBackend.isMemoized (FsBackend.memoizeFaultedUnfixed heldS 1 1 none 7 (some 3) 400 true 0 false) 1 1).2 = true ∧
    (FsBackend.memoizeFaultedUnfixed heldS 1 1 none 7 (some 3) 400 true 0 false).ds.existsNV (.memento 1 1) = false := by decide +kernel
example : (FsBackend.isMemoized (FsBackend.memoizeFaulted heldS 1 1 none 7 (some 3) 400 true 0 false) 1 1).2 = false := by decide +kernel

/-! non-vacuity: a crash in the middle of the data file, then in the middle of the memento file -/
private def req : Request := ⟨1, 1, none, 10, [7]⟩
private def F0 : Sem := fun _ _ => some 7
example : callOutcome (crashes DS.empty [(req, 0, true), (req, 3, true)]) 1 1 = .computed := by decide
example : callOutcome (crashes DS.empty [(req, 0, true), (req, 3, true), (req, 6, false)]) 1 1 = .served (some 7) := by decide
example : (memoizePrims DS.empty req).length = 6 := by decide

end Memento.Store
