import MementoModel.Model.Store
namespace Memento.Store
theorem placeholder_c08 : DS.empty.links = [] := rfl
end Memento.Store
