import MementoModel.Lemmas.VersionSort

/-!
# C03 — function versions are deterministic

Model: `Model/Version.lean`. The version of a function is a function of the program *table* (what
each name is bound to: code token, references, variable value, explicit version) and of nothing
else. The sources of non-determinism the real code is exposed to are parameters of the model:

* `ord` — the order in which each definition's reference *set* is enumerated (Python `set`
  iteration order: depends on hash randomisation and insertion history);
* the order of the entries of the table (definition / import order).

The version does not depend on either (theorems below, for all programs, all roots). The order in
which versions are *queried* concerns the in-process cache (C13): the from-scratch `version` is a pure
function. That code tokens themselves are canonical (e.g. `frozenset` constants rendered in sorted
order, F6) is below the model and validated by the multi-process oracle of `c03.py`.
-/
namespace Memento.Version

/-- the collected rule set does not depend on the enumeration order of reference sets -/
theorem rules_perm_invariant (P : Prog) (ord ord' : List Name → List Name) (h : OrdOK ord) (h' : OrdOK ord')
    (f : Name) (x : Node) : x ∈ rules P ord f ↔ x ∈ rules P ord' f := by
  rw [mem_rules_nodeOK h, mem_rules_nodeOK h']

/-- … hence neither does the key-ordered rule list that is hashed … -/
theorem sortedRules_perm_invariant (P : Prog) (ord ord' : List Name → List Name) (h : OrdOK ord) (h' : OrdOK ord')
    (f : Name) : sortedRules P ord f = sortedRules P ord' f :=
  sortedRules_order_independent P h h' f

/-- … nor the version, whatever the hash function -/
theorem version_order_independent (H : Ser → List Char) (P : Prog) (ord ord' : List Name → List Name)
    (h : OrdOK ord) (h' : OrdOK ord') (f : Name) : version H P ord f = version H P ord' f := by
  unfold version versionInput
  rw [sortedRules_order_independent P h h' f]

/-- definition / import order: two tables that bind every name to the same definition give the same
    version, with any (possibly different) enumeration orders -/
theorem version_definition_order_independent (H : Ser → List Char) (P P' : Prog)
    (hPP : ∀ n, lookup P n = lookup P' n) (ord ord' : List Name → List Name) (h : OrdOK ord) (h' : OrdOK ord')
    (f : Name) : version H P ord f = version H P' ord' f := by
  unfold version versionInput
  have hs : sortedRules P ord f = sortedRules P' ord' f :=
    sortedRules_congr (fun x => by rw [mem_rules_nodeOK h, mem_rules_nodeOK h', nodeOK_congr hPP])
  rw [hs]
  rw [filterMap_congr' (fun x _ => ruleHash_congr hPP H x)]

/-- the version that enters the storage key (explicit or computed) is equally deterministic; hence a second
    process running the unchanged program looks up exactly the keys the first one wrote, and by C02
    (`memoized calls execute nothing`) executes no body -/
theorem effectiveVersion_deterministic (H : Ser → List Char) (P P' : Prog)
    (hPP : ∀ n, lookup P n = lookup P' n) (ord ord' : List Name → List Name) (h : OrdOK ord) (h' : OrdOK ord')
    (f : Name) : effectiveVersion H P ord f = effectiveVersion H P' ord' f := by
  unfold effectiveVersion
  rw [hPP f]
  split
  · rfl
  · exact version_definition_order_independent H P P' hPP ord ord' h h' f

/-- the rule keys are unique: sorting by key is a canonical order -/
theorem rules_keys_unique (P : Prog) (ord : List Name → List Name) (f : Name) : (sortedRules P ord f).Nodup :=
  sortedRules_nodup P ord f

/-! ### non-vacuity: a reversed table and reversed enumeration give the same version -/
def exProg3 : Prog :=
  [(0, .memento none 10 [1, 3, 5]), (1, .plain true 11 [2, 5]), (2, .memento none 12 [0]),
   (3, .plain false 13 [4]), (4, .memento none 14 []), (5, .var (some 7))]

/-- a hash function for examples: an injective rendering -/
def exH : Ser → List Char
  | .code s n t r => 'c' :: (if s then 's' else 'u') :: (List.replicate n 'n' ++ '.' :: List.replicate t 't' ++
      r.flatMap (fun x => '.' :: List.replicate x 'r')) ++ [';']
  | .value v => 'v' :: List.replicate v 'x' ++ [';']
  | .rules s => 'r' :: s
  | .explicit n e => 'e' :: (List.replicate n 'n' ++ '#' :: e) ++ [';']

example : rules exProg3 id 0 ≠ rules exProg3 List.reverse 0 := by decide +kernel
example : version exH exProg3 id 0 = version exH exProg3.reverse List.reverse 0 := by decide +kernel

end Memento.Version
